#!/venv/bin/python
"""CLI: ./check.py C08 --tier quick|thorough | --replay FILE | --selftest   (honours VERIF_SEED)"""
import os
import sys

HERE = os.path.dirname(os.path.abspath(__file__))

if os.environ.get("PYTHONHASHSEED") is None or (os.environ.get("PYTHONHASHSEED") != "0" and not os.environ.get("VERIF_REEXEC")):
    env = dict(os.environ, PYTHONHASHSEED="0", VERIF_REEXEC="1", PYTHONDONTWRITEBYTECODE="1")
    os.execve("/venv/bin/python", ["/venv/bin/python", os.path.abspath(__file__)] + sys.argv[1:], env)

sys.path.insert(0, HERE)
import bleak  # noqa: E402,F401  (before aiohomekit.const decides BLE_TRANSPORT_SUPPORTED)
sys.dont_write_bytecode = True
import logging  # noqa: E402

logging.disable(logging.CRITICAL)

from simkit import harness  # noqa: E402

REGISTRY = {
    "C01": "checks.c01",
    "C02": "checks.c02",
    "C03": "checks.c03",
    "C04": "checks.c04",
    "C05": "checks.c05",
    "C06": "checks.c06",
    "C07": "checks.c07",
    "C08": "checks.c08",
    "C09": "checks.c09",
    "C10": "checks.c10",
    "C11": "checks.c11",
    "C12": "checks.c12",
    "C13": "checks.c13",
    "C15": "checks.c15",
    "C16": "checks.c16",
    "C17": "checks.c17",
    "C18": "checks.c18",
    "C19": "checks.c19",
    "C20": "checks.c20",
}

if __name__ == "__main__":
    sys.exit(harness.main(sys.argv[1:], REGISTRY))
