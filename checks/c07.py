"""C07 - HTTP/EVENT message parsing is independent of stream segmentation.

World: the real InsecureHomeKitProtocol.data_received feed loop + HttpResponse parser, fed
by a reference emitter through every chosen segmentation of the byte stream (= the network's
delivery schedule).  Oracle: the ordered list of completed messages (kind, code, normalised
headers, body) equals what was emitted, for every segmentation.
"""

from __future__ import annotations

import asyncio
import hashlib
import random

from refimpl import http as rhttp
from simkit.core import Chooser, Ctx, result_of
from simkit.loop import SimLoop

PROP = "C07"
LEVEL = "exploration"
RULE = (
    "one run = one seeded sequence of 1-6 reference-emitted messages (fixed-length, chunked, body-less 204, "
    "EVENT; header casings/spacing; bodies containing CRLF) x a set of segmentations of the concatenated "
    "stream: unsplit, byte-by-byte, EVERY single cut, all pairs of cuts among structurally interesting "
    "positions (inside/around each CRLF, chunk-size line, header end, message boundary), seeded random "
    "pairs and random multi-cuts; a sample of ~30 segmentations per run is additionally realised as FRAME boundaries on an encrypted session "
    "(SecureHomeKitProtocol, every piece sealed as frames of <= 1024 bytes). work_units counts segmentations fed to the real feed loop. A run is "
    "non-trivial if it has >=2 messages or a chunked body and at least one cut; distinct = distinct event-log digest."
)
REAL = ["aiohomekit.http.response.HttpResponse", "aiohomekit.controller.ip.connection.InsecureHomeKitProtocol.data_received",
        "aiohomekit.controller.ip.connection.SecureHomeKitProtocol.data_received (framed delivery of the same streams)"]
STUB = ["transport (not used by the receive path)", "HomeKitConnection (records event_received)"]
ASSUMPTIONS = [
    "well-formed = what the reference emitter produces: CRLF line ends, Content-Length or lower-case 'chunked' "
    "transfer coding without chunk extensions/trailers, 204 without body headers",
]
TIERS = {
    "quick": {"runs": 6000, "wall": 50},
    "thorough": {"runs": 120000, "wall": 900},
}


def _body(seed: int, idx: int, n: int) -> bytes:
    out = b""
    i = 0
    while len(out) < n:
        out += hashlib.blake2b(f"{seed}|{idx}|{i}".encode(), digest_size=32).digest()
        i += 1
    out = bytearray(out[:n])
    # sprinkle CR LF and header-like text so that body bytes look like framing
    r = random.Random(seed * 31 + idx)
    for _ in range(n // 12):
        p = r.randrange(max(1, n - 1))
        out[p : p + 2] = b"\r\n"[: max(0, min(2, n - p))]
    return bytes(out[:n])


def gen_plan(seed: int, tier: str) -> dict:
    r = random.Random(seed)
    nmsg = r.choice([1, 1, 2, 2, 3, 3, 4, 5, 6])
    msgs = []
    budget = 600
    for i in range(nmsg):
        kind = r.choice(["fixed", "fixed", "chunked", "chunked", "nobody", "event", "event"])
        blen = r.choice([0, 0, 1, 2, 3, 5, 9, 17, 33, 64, r.randrange(0, 120)])
        blen = max(0, min(blen, budget - 90))
        m = {
            "kind": kind,
            "code": r.choice([200, 200, 207, 204, 400, 404, 470, 500]),
            "blen": blen,
            "lower": r.random() < 0.3,
            "nospace": r.random() < 0.2,
            "extra": r.choice([0, 0, 1, 2]),
            "ctype": r.random() < 0.8,
        }
        if kind == "chunked":
            sizes = []
            left = blen
            while left > 0:
                n = r.choice([1, 1, 2, 3, 15, 16, 17, left])
                n = min(n, left)
                sizes.append(n)
                left -= n
            m["chunks"] = sizes
            m["hexupper"] = r.random() < 0.3
        if kind == "nobody":
            m["code"] = 204
            m["blen"] = 0
        if kind == "event":
            m["code"] = 200
        msgs.append(m)
        budget -= blen + 90
        if budget < 100:
            break
    stream, _ = build_stream(seed, msgs)
    n = len(stream)
    ops: list[list[int]] = [[], list(range(1, n))]
    ops += [[c] for c in range(1, n)]
    interesting = sorted(interesting_positions(stream))
    pairs = [(a, b) for i, a in enumerate(interesting) for b in interesting[i + 1 :]]
    r.shuffle(pairs)
    npairs = 250 if tier == "quick" else 1200
    ops += [list(p) for p in pairs[:npairs]]
    for _ in range(npairs // 2):
        a, b = sorted(r.sample(range(1, n), 2)) if n > 3 else (1, 1)
        if a != b:
            ops.append([a, b])
    for _ in range(60 if tier == "quick" else 300):
        k = r.randrange(3, min(40, n)) if n > 4 else 1
        ops.append(sorted(r.sample(range(1, n), min(k, n - 1))))
    return {"msgs": msgs, "ops": ops}


def interesting_positions(stream: bytes) -> set[int]:
    pos: set[int] = set()
    i = stream.find(b"\r\n")
    while i >= 0:
        for d in (-1, 0, 1, 2, 3):
            if 0 < i + d < len(stream):
                pos.add(i + d)
        i = stream.find(b"\r\n", i + 1)
    return pos


def emit(seed: int, idx: int, m: dict) -> tuple[bytes, tuple]:
    body = _body(seed, idx, m["blen"])
    extra = [("Date", "Thu, 01 Jan 1970 00:00:00 GMT"), ("X-Custom-Header", "a: b ; c")][: m["extra"]]
    if m["kind"] == "event":
        raw = rhttp.event(body, lower=m["lower"])
        hdrs = [("Content-Type", "application/hap+json"), ("Content-Length", str(len(body)))]
        exp = ("EVENT", 200, tuple(hdrs), body)
    else:
        chunks = m.get("chunks") if m["kind"] == "chunked" else None
        raw = rhttp.response(m["code"], body, "application/hap+json" if m["ctype"] else None, chunks=chunks,
                             extra_headers=extra, lower=m["lower"])
        if m.get("hexupper") and chunks:
            # upper-case hex digits in chunk-size lines are equally well-formed
            parts = raw.split(b"\r\n\r\n", 1)
            raw = parts[0] + b"\r\n\r\n" + _upper_chunk_sizes(parts[1], chunks, len(body))
        hdrs = []
        if (body or chunks is not None) and m["ctype"]:
            hdrs.append(("Content-Type", "application/hap+json"))
        if chunks is not None:
            hdrs.append(("Transfer-Encoding", "chunked"))
        elif body or m["code"] != 204:
            hdrs.append(("Content-Length", str(len(body))))
        hdrs += extra
        exp = ("HTTP", m["code"], tuple((k.title(), v) for k, v in hdrs), body)
    if m["nospace"]:
        head, sep, rest = raw.partition(b"\r\n\r\n")
        lines = head.split(b"\r\n")
        lines = [lines[0]] + [ln.replace(b": ", b":", 1) for ln in lines[1:]]
        raw = b"\r\n".join(lines) + sep + rest
    return raw, exp


def _upper_chunk_sizes(data: bytes, chunks, blen) -> bytes:
    out = bytearray()
    i = 0
    while i < len(data):
        j = data.index(b"\r\n", i)
        n = int(data[i:j], 16)
        out += data[i:j].upper() + b"\r\n"
        out += data[j + 2 : j + 2 + n + 2]
        i = j + 2 + n + 2
        if n == 0:
            break
    return bytes(out)


def build_stream(seed: int, msgs: list[dict]) -> tuple[bytes, list[tuple]]:
    stream = b""
    exp = []
    for i, m in enumerate(msgs):
        raw, e = emit(seed, i, m)
        stream += raw
        exp.append(e)
    return stream, exp


class _Sink:
    """what the library's consumers see, WHEN they see it: an EVENT is consumed synchronously inside data_received; a response
    is read by the task that awaits the future, and that task only runs once the data_received call that completed the
    future has returned (set_result merely queues the wake-up) - so later messages of the same read have been parsed by then"""

    def __init__(self) -> None:
        self.items: list = []
        self.pending: list = []

    def event(self, resp) -> None:
        self.items.append(_norm(resp))

    def response(self, resp) -> None:
        self.items.append(None)
        self.pending.append((len(self.items) - 1, resp))

    def after_read(self) -> None:
        for i, r in self.pending:
            self.items[i] = _norm(r)
        self.pending.clear()


class _RecFuture(asyncio.Future):
    def __init__(self, sink, loop):
        super().__init__(loop=loop)
        self._sink = sink

    def set_result(self, result):
        self._sink.response(result)
        super().set_result(result)


class _ConnStub:
    def __init__(self, sink):
        self.sink = sink
        self.lost = []

    def event_received(self, resp):
        self.sink.event(resp)

    def _connection_lost(self, exc):
        self.lost.append(exc)


def _norm(resp) -> tuple:
    return (
        (resp.get_http_name() or "").upper(),
        resp.code,
        tuple((k, v) for k, v in resp.headers),
        bytes(resp.body),
    )


def execute(plan: dict, ch: Chooser) -> dict:
    from aiohomekit.controller.ip.connection import InsecureHomeKitProtocol

    ctx = Ctx(ch)
    loop = SimLoop()
    ctx.loop = loop
    stream, expected = build_stream(ch.seed, plan["msgs"])
    n_http = sum(1 for e in expected if e[0] == "HTTP")

    async def main():
        for cuts in plan["ops"]:
            cuts = [c for c in cuts if 0 < c < len(stream)]
            sink = _Sink()
            proto = InsecureHomeKitProtocol(_ConnStub(sink))
            proto.result_cbs.extend(_RecFuture(sink, loop) for _ in range(n_http))
            pieces = []
            prev = 0
            for c in sorted(set(cuts)) + [len(stream)]:
                pieces.append(stream[prev:c])
                prev = c
            err = None
            try:
                for p in pieces:
                    if p:
                        proto.data_received(p)
                        sink.after_read()
            except Exception as e:  # noqa: BLE001
                err = e
            sink.after_read()
            ctx.obligations += 1
            got = sink.items
            if err is not None:
                ctx.violate("parse-raises", type(err).__name__, f"cuts={cuts[:6]} raised {err!r} on well-formed stream")
            elif got != expected:
                kind = "count" if len(got) != len(expected) else "content"
                first = next((i for i, (a, b) in enumerate(zip(got, expected)) if a != b), min(len(got), len(expected)))
                ctx.violate(
                    "messages-differ",
                    kind,
                    f"cuts={cuts[:8]} message #{first}: got {got[first] if first < len(got) else None!r} "
                    f"expected {expected[first] if first < len(expected) else None!r} (stream {len(stream)} B, {len(expected)} msgs)",
                )
            ctx.event("seg", len(cuts), len(got), hashlib.blake2b(repr(got).encode(), digest_size=6).hexdigest())

    async def main_secure():
        """the same segmentations realised as FRAME boundaries on an encrypted session: every piece becomes one or more
        frames (<= 1024 bytes), so message boundaries fall anywhere inside frames and frames anywhere inside messages"""
        from aiohomekit.controller.ip.connection import SecureHomeKitProtocol
        from refimpl import crypto as RC

        key = RC.H(b"c07|%d" % ch.seed)[:32]
        k = 30
        chosen = plan["ops"][:2] + plan["ops"][2 :: max(1, (len(plan["ops"]) - 2) // k)][:k]
        for nth, cuts in enumerate(chosen):
            cuts = sorted({c for c in cuts if 0 < c < len(stream)})
            sink = _Sink()
            proto = SecureHomeKitProtocol(_ConnStub(sink), key, bytes(32))
            proto.result_cbs.extend(_RecFuture(sink, loop) for _ in range(n_http))
            codec = RC.FrameCodec(key)
            err = None
            prev = 0
            try:
                frames = []
                for c in cuts + [len(stream)]:
                    piece = stream[prev:c]
                    prev = c
                    for i in range(0, len(piece), 1024):
                        frames.append(codec.seal_frame(piece[i : i + 1024]))
                # every other sampled segmentation arrives as ONE read holding all its frames, the rest one frame per read
                for blob in ([b"".join(frames)] if nth % 2 else frames):
                    proto.data_received(blob)
                    sink.after_read()
                if nth % 2:
                    ctx.probe("secure_all_frames_in_one_read")
            except Exception as e:  # noqa: BLE001
                err = e
            sink.after_read()
            ctx.obligations += 1
            got = sink.items
            if err is not None:
                ctx.violate("parse-raises", f"secure/{type(err).__name__}", f"frame boundaries at {cuts[:6]} raised {err!r} on a well-formed stream over an encrypted session")
            elif got != expected:
                ctx.violate("messages-differ", "secure", f"frame boundaries at {cuts[:8]}: {len(got)} messages delivered, {len(expected)} sent ({len(stream)} B) over an encrypted session")
            ctx.event("secseg", len(cuts), len(got))
        ctx.probe("secure_framed_segmentations", len(chosen))

    loop.run_sim(main())
    loop = SimLoop()
    ctx.loop = loop
    loop.run_sim(main_secure())
    nontrivial = (len(expected) >= 2 or any(m["kind"] == "chunked" for m in plan["msgs"])) and len(plan["ops"]) > 1
    ctx.probe("msgs", len(expected))
    ctx.probe("chunked_msgs", sum(1 for m in plan["msgs"] if m["kind"] == "chunked"))
    ctx.probe("events", sum(1 for m in plan["msgs"] if m["kind"] == "event"))
    ctx.probe("stream_bytes", len(stream))
    ctx.state(tuple(m["kind"] for m in plan["msgs"]))
    sample = {"msgs": plan["msgs"], "stream_len": len(stream), "segmentations": len(plan["ops"]), "example_cuts": plan["ops"][-1][:10]}
    return result_of(ctx, nontrivial=nontrivial, sample=sample, units=len(plan["ops"]))


def simplify(plan: dict):
    # fewer messages
    for i in range(len(plan["msgs"])):
        if len(plan["msgs"]) > 1:
            p = dict(plan)
            p["msgs"] = plan["msgs"][:i] + plan["msgs"][i + 1 :]
            yield p
