"""C19 - device waiters are woken by advertisements; advertisement parsing is robust.

World disc: real IpController / CoAPController (simulated mDNS), BleController (advert callback) and
the aggregate Controller; waiters, adverts, cancellations and time-outs at seeded virtual times.
"""

from __future__ import annotations

import asyncio
import json
import random

from simkit import seams
from simkit.core import Chooser, Ctx, result_of
from simkit.loop import SimDeadlock, SimLoop
from worlds import disc

PROP = "C19"
LEVEL = "exploration"
RULE = (
    "one run = one controller kind (IpController, CoAPController on simulated mDNS; BleController on the advert callback; aggregate "
    "Controller with all three) with, for each of 1-2 device ids, no pairing / a pairing with cached accessory state / a pairing without cached "
    "state loaded; a seeded schedule of {waiter starts with timeout, advert processed, goodbye, waiter cancelled, timeout fires} with ties, "
    "1-3 waiters; advert contents valid (random c#, s#, sf, ci, md, key/id case, IPv4/IPv6/link-local/unspecified address lists) or malformed "
    "(missing id, no usable address, non-numeric fields, every truncation of valid TXT / manufacturer data stratified over seeds, random bytes, "
    "wrong type/length bytes). Oracles: reference waiter model (completion instant = processing instant of the first valid advert for the id "
    "- mDNS: the library's 0.5 s resolve timer - if before the deadline, else AccessoryNotFoundError at the deadline; ties either way); parsed "
    "description == reference parse; malformed adverts change nothing; no advert makes the browser/scanner callback raise. "
    "Non-trivial = >=1 waiter and >=1 advert; distinct by event-log digest."
)
REAL = ["aiohomekit.zeroconf (ZeroconfController, HomeKitService.from_service_info)", "aiohomekit.controller.ip/coap controller + discovery objects",
        "aiohomekit.controller.ble.controller.BleController, manufacturer_data", "aiohomekit.controller.controller.Controller.async_find",
        "BlePairing/IpPairing/CoAPPairing._async_description_update", "zeroconf DNSCache + ServiceInfo parsing"]
STUB = ["zeroconf network engine / browser (stub firing the registered handler), AsyncServiceInfo.async_request = cache load", "BleakScanner",
        "BLE establish_connection (always fails: not connectable)", "TCP (every address unreachable)"]
ASSUMPTIONS = ["finder ids are spelled in lower, upper or mixed case and must be treated case-insensitively",
               "unknown category numbers and truncated adverts are only required not to raise / not to wake waiters of other ids"]
TIERS = {"quick": {"runs": 40000, "wall": 55}, "thorough": {"runs": 2000000, "wall": 1500}}

IDS = ["aa:bb:cc:dd:ee:01", "aa:bb:cc:dd:ee:02"]
HAP = {"ip": "_hap._tcp.local.", "coap": "_hap._udp.local."}


def gen_advert(r: random.Random, net: str, dev_id: str) -> dict:
    valid = r.random() < 0.6
    a = {"net": net, "id": dev_id, "name": "Dev" + dev_id[-2:] + r.choice(["", "", " x"]), "valid": valid}
    # valid: True = must be accepted, False = must be ignored, None = validity depends on where the damage landed (only no-raise is required)
    if net == "ble":
        a.update(sf=r.choice([0, 1]), ci=r.choice([1, 2, 5, 8, 10, 17]), gsn=r.randrange(1, 65535), cn=r.randrange(1, 255), setup=r.random() < 0.7,
                 local_name=r.choice(["Dev", None, "Device Long Name"]), fresh_dev=r.random() < 0.15)
        if not valid:
            a["bad"] = r.choice(["trunc", "trunc", "type", "random", "empty", "company", "short_enc"])
            a["n"] = r.randrange(0, 21)
            if a["bad"] in ("trunc", "random"):
                a["valid"] = None
    else:
        a.update(c=r.randrange(1, 100), s=r.randrange(1, 100), sf=r.choice([0, 1]), ci=r.choice([1, 2, 5, 8, 10, 17]), md=r.choice(["Model", "M ä", ""]),
                 ff=r.choice([0, 1, 2]), upper_keys=r.random() < 0.3, upper_id=r.random() < 0.5, port=r.randrange(1, 65535),
                 addrs=r.choice([["10.0.0.5"], ["fe80::1", "10.0.0.5"], ["10.0.0.5", "10.0.0.6"], ["fd00::5"], ["fd00::5", "10.0.0.7"], ["0.0.0.0", "10.0.0.8"],
                                 ["169.254.3.4", "10.0.0.9"], ["::", "fd00::9"]]))
        if not valid:
            a["bad"] = r.choice(["no_id", "no_addr", "linklocal_only", "nonnumeric", "trunc_txt", "trunc_txt", "random_txt", "empty_txt", "nonutf8"])
            a["n"] = r.randrange(0, 80)
            if a["bad"] in ("trunc_txt", "random_txt", "nonutf8"):
                a["valid"] = None
    return a


def gen_plan(seed: int, tier: str) -> dict:
    r = random.Random(seed)
    mode = r.choice(["ip", "ip", "coap", "ble", "ble", "agg"])
    nets = {"ip": ["ip"], "coap": ["coap"], "ble": ["ble"], "agg": ["ip", "coap", "ble"]}[mode]
    n_ids = r.choice([1, 1, 2])
    pairing = {}
    for i in IDS[:n_ids]:
        pairing[i] = r.choice(["none", "none", "cached", "nocache"])
    horizon = r.choice([1.0, 3.0, 12.0])
    ops = []
    grid = [0.0, 0.25, 0.5, 0.75, 1.0, 1.5, 2.0]
    for _ in range(r.randint(2, 12)):
        t = r.choice(grid) if r.random() < 0.5 else round(r.uniform(0, horizon), 3)
        x = r.random()
        dev = r.choice(IDS[:n_ids])
        if x < 0.35:
            op = {"op": "find", "id": dev, "timeout": r.choice([0.25, 0.5, 0.5, 1.0, 2.0, 5.0]), "spell": r.choice(["lower", "lower", "upper", "mixed"])}
            if r.random() < 0.15:
                op["cancel_after"] = r.choice([0.0, 0.1, 0.5, 0.6])
        elif x < 0.84:
            op = {"op": "advert", "adv": gen_advert(r, r.choice(nets), dev)}
        elif x < 0.88 and "ble" in nets:
            op = {"op": "bump", "id": dev, "delta": r.choice([1, 1, 2, 10])}
        elif x < 0.92:
            earlier = [o["adv"] for o in ops if o["op"] == "advert" and o["adv"].get("net") == "ble" and o["adv"].get("valid") is True]
            # the very same advertisement again (same bytes): e.g. after a power cycle restarted the state number
            op = {"op": "advert", "adv": dict(r.choice(earlier))} if earlier else {"op": "advert", "adv": gen_advert(r, r.choice(nets), dev)}
        else:
            op = {"op": "goodbye", "net": r.choice(nets), "name": "Dev" + dev[-2:]}
        op["t"] = t
        ops.append(op)
    ops.sort(key=lambda o: o["t"])
    plan = {"mode": mode, "pairing": pairing, "ops": ops, "end": horizon + 8.0}
    if mode != "ble" and r.random() < 0.3:
        # the controller starts on a cache that already holds a service it cannot complete (address record expired): start-up then
        # waits for an mDNS query, and other devices announce themselves meanwhile
        net0 = r.choice([n for n in nets if n != "ble"])
        stale = gen_advert(r, net0, "aa:bb:cc:dd:ee:09")
        stale.update(valid=False, bad="no_addr")
        delay = r.choice([0.0, 0.3, 1.0, 3.0])
        during = []
        for _ in range(r.choice([1, 1, 2])):
            adv = gen_advert(r, net0, r.choice(IDS[:n_ids]))
            adv.pop("bad", None)
            adv["valid"] = True
            adv["t"] = round(r.uniform(0.0, max(delay, 0.001)), 3)
            during.append(adv)
        plan["prestart"] = {"delay": delay, "stale": stale, "during": sorted(during, key=lambda a: a["t"])}
        plan["end"] += delay
    return plan


# ---- reference parse -----------------------------------------------------------------------------
def ref_addresses(addrs: list[str]) -> list[str]:
    import ipaddress

    v4 = [a for a in addrs if ":" not in a]
    v6 = [a for a in addrs if ":" in a]
    out = []
    for a in list(reversed(v4)) + list(reversed(v6)):  # zeroconf returns most recently added first, IPv4 before IPv6
        ip = ipaddress.ip_address(a)
        if ip.is_link_local or ip.is_unspecified:
            continue
        out.append(str(ip))
    return out


def build_txt(a: dict):
    """-> (txt dict or raw bytes, addresses)"""
    ident = a["id"].upper() if a.get("upper_id") else a["id"]
    kv = {"id": ident, "md": a["md"], "c#": str(a["c"]), "s#": str(a["s"]), "sf": str(a["sf"]), "ci": str(a["ci"]), "ff": str(a["ff"]), "pv": "1.1"}
    if a.get("upper_keys"):
        kv = {k.upper(): v for k, v in kv.items()}
    addrs = list(a["addrs"])
    bad = a.get("bad")
    if bad == "no_id":
        kv = {k: v for k, v in kv.items() if k.lower() != "id"}
    elif bad == "no_addr":
        addrs = []
    elif bad == "linklocal_only":
        addrs = ["fe80::1", "169.254.1.1", "0.0.0.0"]
    elif bad == "nonnumeric":
        key = ["c#", "s#", "sf", "ci", "ff"][a["n"] % 5]
        for k in list(kv):
            if k.lower() == key:
                kv[k] = ["", "x", "1.5", "0x10", "1e3"][a["n"] % 5]
    txt = {k.encode(): v.encode() for k, v in kv.items()}
    if bad in ("trunc_txt", "random_txt", "empty_txt", "nonutf8"):
        raw = b"".join(bytes([len(k) + 1 + len(v)]) + k + b"=" + v for k, v in txt.items())
        if bad == "trunc_txt":
            raw = raw[: a["n"] % (len(raw) + 1)]
        elif bad == "random_txt":
            rr = random.Random(a["n"])
            raw = bytes(rr.randrange(256) for _ in range(rr.randrange(1, 60)))
        elif bad == "empty_txt":
            raw = b""
        else:
            raw = b"\x06id=\xff\xfe\xfd" + raw
        return raw, addrs
    return txt, addrs


def build_ble(a: dict):
    mfr = disc.regular_advert(a["id"], sf=a["sf"], category=a["ci"], gsn=a["gsn"], cn=a["cn"], setup_hash=b"\x09\x08\x07\x06" if a["setup"] else None)
    company = 76
    bad = a.get("bad")
    if bad == "trunc":
        mfr = mfr[: a["n"] % len(mfr)]
    elif bad == "type":
        mfr = bytes([a["n"] % 256 if a["n"] % 256 != 0x06 else 0x07]) + mfr[1:]
    elif bad == "random":
        rr = random.Random(a["n"])
        mfr = bytes(rr.randrange(256) for _ in range(rr.randrange(1, 30)))
    elif bad == "empty":
        mfr = b""
    elif bad == "company":
        company = 77
    elif bad == "short_enc":
        mfr = bytes([0x11, 0x36]) + bytes.fromhex(a["id"].replace(":", ""))[: a["n"] % 7] + b"\x01" * (a["n"] % 5)
    return {company: mfr}


# ---- run -----------------------------------------------------------------------------------------------
def execute(plan: dict, ch: Chooser) -> dict:
    import bleak  # noqa: F401  (must be imported before aiohomekit.const is evaluated)

    from aiohomekit.characteristic_cache import CharacteristicCacheMemory
    from aiohomekit.exceptions import AccessoryDisconnectedError, AccessoryNotFoundError

    ctx = Ctx(ch)
    seams.begin(ctx)
    seams.install_ble()
    disc.install()
    import aiohomekit.controller.ble.pairing as bp

    async def no_connect(*a, **k):
        raise AccessoryDisconnectedError("simulated: device not connectable")

    bp.establish_connection = no_connect
    loop = SimLoop(max_iterations=200_000)
    ctx.loop = loop
    from worlds.ip import SimNet

    net = SimNet(ctx, loop, {})
    net.connect_decider = lambda host: ("unreachable", 0.002)
    mode = plan["mode"]
    waiters: list[dict] = []
    adverts: list[dict] = []
    bumps: list[dict] = []  # in-place state number updates by a (simulated) connected session
    last_ble_t: dict = {}
    escaped: list = []
    nets = {"ip": ["ip"], "coap": ["coap"], "ble": ["ble"], "agg": ["ip", "coap", "ble"]}[mode]

    async def main():
        from aiohomekit.controller.abstract import TransportType
        from aiohomekit.controller.ble.controller import BleController
        from aiohomekit.controller.coap.controller import CoAPController
        from aiohomekit.controller.controller import Controller
        from aiohomekit.controller.ip.controller import IpController

        mdns = disc.SimMDNS()
        cache = CharacteristicCacheMemory()
        ctls: dict = {}
        disc.REQUEST_DELAY[0] = 0.0
        disc.reset_observation()
        pre = plan.get("prestart")
        if pre:
            disc.REQUEST_DELAY[0] = pre["delay"]
            txt0, _ = build_txt(pre["stale"])
            mdns.announce(HAP[pre["stale"]["net"]], pre["stale"]["name"], [], pre["stale"]["port"], txt0)  # in the cache, no address
            ctx.probe("controller_started_on_incomplete_cache")

            def early_deliver(adv):
                rec = {"t": loop.time(), "adv": adv, "raised": None, "seq": disc.next_seq()}
                adverts.append(rec)
                ctx.event("advert", adv["net"], adv["id"], adv["valid"], "during-start")
                ctx.probe("advert_during_controller_start")
                try:
                    txt, addrs = build_txt(adv)
                    mdns.announce(HAP[adv["net"]], adv["name"], addrs, adv["port"], txt)
                except Exception as e:  # noqa: BLE001
                    rec["raised"] = e
                    ctx.violate("callback-raises", f"{adv['net']}/{type(e).__name__}/during-start", f"advert during controller start made the callback raise {e!r}")

            for adv in pre["during"]:
                loop.call_at(adv["t"], early_deliver, adv)
        if mode == "agg":
            top = Controller(async_zeroconf_instance=mdns, char_cache=cache)
            try:
                await top.async_start()
            except Exception as e:  # noqa: BLE001
                # what the cache held when the controller started is an advertisement like any other: it must be ignored, not raise
                ctx.violate("callback-raises", f"start/{type(e).__name__}", f"controller start raised {e!r} on a cache holding {'an incomplete service' if plan.get('prestart') else 'nothing special'}")
                return
            ctls = {"ip": top.transports[TransportType.IP], "coap": top.transports[TransportType.COAP], "ble": top.transports[TransportType.BLE]}
            finder = top
        else:
            c = {"ip": lambda: IpController(char_cache=cache, zeroconf_instance=mdns), "coap": lambda: CoAPController(char_cache=cache, zeroconf_instance=mdns),
                 "ble": lambda: BleController(char_cache=cache)}[mode]()
            try:
                await c.async_start()
            except Exception as e:  # noqa: BLE001
                # what the cache held when the controller started is an advertisement like any other: it must be ignored, not raise
                ctx.violate("callback-raises", f"start/{type(e).__name__}", f"controller start raised {e!r} on a cache holding {'an incomplete service' if plan.get('prestart') else 'nothing special'}")
                return
            ctls = {mode: c}
            finder = c
            top = None
        disc.REQUEST_DELAY[0] = 0.0  # only the start-up query is slow; later look-ups keep the timing the oracle models
        # pairings
        for dev, kind in plan["pairing"].items():
            if kind == "none":
                continue
            for n, c in ctls.items():
                rec = {"AccessoryPairingID": dev, "AccessoryLTPK": "11" * 32, "iOSPairingId": "x", "iOSDeviceLTSK": "22" * 32, "iOSDeviceLTPK": "33" * 32,
                       "Connection": {"ip": "IP", "coap": "CoAP", "ble": "BLE"}[n], "AccessoryIP": "10.9.9.9", "AccessoryPort": 1, "AccessoryAddress": "00:11:22:33:44:55"}
                p = c.load_pairing("alias-" + n + dev[-2:], rec)
                if top is not None:
                    top.pairings[dev] = p
                if kind == "cached":
                    from worlds.ip import make_db

                    p.restore_accessories_state(make_db(1, 2), 1, None, 1)

        ble_seen: dict = {}

        def deliver(adv: dict):
            rec = {"t": loop.time(), "adv": adv, "raised": None, "seq": disc.next_seq()}
            if adv.get("net") == "ble":
                last_ble_t[adv.get("id")] = len(adverts) + len(bumps)
            adverts.append(rec)
            ctx.event("advert", adv["net"], adv["id"], adv["valid"], adv.get("bad"))
            try:
                if adv["net"] == "ble":
                    address = "00:11:22:33:44:" + adv["id"][-2:].upper()
                    dev, ad = disc.ble_objects(address, adv.get("local_name"), build_ble(adv))
                    # as bleak's scanner does: ONE BLEDevice object per address, handed to the callback for every later
                    # advertisement with only its name updated in place; a new object only after a scanner restart
                    seen = ble_seen.get(address)
                    if seen is not None and not adv.get("fresh_dev"):
                        seen.name = adv.get("local_name")
                        dev = seen
                        ctx.probe("ble_advert_on_the_same_device_object")
                    else:
                        ble_seen[address] = dev
                    ctls["ble"]._device_detected(dev, ad)
                else:
                    txt, addrs = build_txt(adv)
                    mdns.announce(HAP[adv["net"]], adv["name"], addrs, adv["port"], txt)
            except Exception as e:  # noqa: BLE001
                rec["raised"] = e
                ctx.violate("callback-raises", f"{adv['net']}/{type(e).__name__}/pairing={plan['pairing'].get(adv['id'])}",
                            f"advert {json.dumps({k: v for k, v in adv.items()}, default=str)[:200]} made the {adv['net']} callback raise {e!r}")

        def start_find(op):
            rec = {"id": op["id"], "t0": loop.time(), "timeout": op["timeout"], "t1": None, "res": None, "exc": None, "cancelled": False}
            waiters.append(rec)
            ctx.event("find", op["id"], op["timeout"], op.get("spell"))
            # ids are hexadecimal and case-insensitive: the caller may spell them in upper or mixed case
            spelled = {"upper": op["id"].upper(), "mixed": "".join(c.upper() if i % 2 else c for i, c in enumerate(op["id"]))}.get(op.get("spell"), op["id"])
            if spelled != op["id"]:
                ctx.probe("find_id_not_lower_case")

            async def runner():
                try:
                    rec["res"] = await finder.async_find(spelled, op["timeout"])
                except asyncio.CancelledError:
                    rec["exc"] = "CancelledError"
                except BaseException as e:  # noqa: BLE001
                    rec["exc"] = type(e).__name__
                    rec["exc_obj"] = e
                finally:
                    rec["t1"] = loop.time()
                    ctx.event("find_done", op["id"], rec["exc"], rec["res"] is not None)

            task = loop.create_task(runner())
            if op.get("cancel_after") is not None:
                def cancel():
                    if not task.done():
                        rec["cancelled"] = True
                        task.cancel()

                loop.call_later(op["cancel_after"], cancel)

        def do(op):
            if op["op"] == "find":
                start_find(op)
            elif op["op"] == "advert":
                deliver(op["adv"])
            elif op["op"] == "bump":
                # what a connected session does after a write: the pairing advances the state number of its description in place
                pr = ctls["ble"].pairings.get(op["id"]) if "ble" in ctls else None
                if pr is not None and pr.description is not None:
                    newv = ((pr.description.state_num + op["delta"]) & 0xFFFF) or 1
                    pr._update_state_num(newv)
                    bumps.append({"t": len(adverts) + len(bumps), "id": op["id"], "value": newv})  # t = order of processing, not time
                    ctx.probe("state_number_bumped_in_place")
                    ctx.event("bump", op["id"], newv)
            else:
                if op["net"] == "ble":
                    return
                try:
                    sq = disc.next_seq()
                    mdns.goodbye(HAP[op["net"]], op["name"])
                    adverts.append({"t": loop.time(), "adv": {"net": op["net"], "name": op["name"], "goodbye": True, "valid": False, "id": None}, "raised": None, "seq": sq})
                except Exception as e:  # noqa: BLE001
                    ctx.violate("callback-raises", f"{op['net']}/goodbye/{type(e).__name__}", f"goodbye raised {e!r}")

        for op in plan["ops"]:
            loop.call_at(op["t"], do, op)
        await asyncio.sleep(plan["end"])
        # background task failures caused by adverts (pairing-side handling)
        judge(ctls)
        for c in ([top] if top is not None else list(ctls.values())):
            try:
                await c.async_stop()
            except Exception:  # noqa: BLE001
                pass

    def judge(ctls):
        from aiohomekit.exceptions import AccessoryNotFoundError  # noqa: F401

        TOL = 1e-6
        t_end = loop.time()
        # processing instants per net
        proc: list[dict] = []  # {"t": processing time, "id": device id or None, "valid": bool, "net":..., "adv":...}
        for n in nets:
            if n == "ble":
                for a in adverts:
                    if a["adv"]["net"] == "ble":
                        proc.append({"t": a["t"], "net": "ble", "adv": a["adv"], "valid": a["adv"]["valid"], "id": a["adv"]["id"]})
            else:
                # OBSERVED processing: the library processes a service when it reads it COMPLETE out of the cache
                # (AsyncServiceInfo.load_from_cache returning True, recorded at the seam).  What it saw then is the last
                # announcement of that name before the read, in the exact order of the run (sequence numbers, so no ties).
                # Nothing here assumes when or how the library gets there (per-service timers, a batch task, at once ...).
                by_name: dict[str, list] = {}
                for a in adverts:
                    if a["adv"]["net"] == n:
                        by_name.setdefault(a["adv"]["name"] + "." + HAP[n], []).append(a)
                for ld in disc.LOADS:
                    if ld["type"] == HAP[n] and ld["ok"] and ld["t"] is not None:
                        proc.append(_fire(n, ld["name"], ld["seq"], ld["t"], by_name.get(ld["name"], [])))
                # ... and it has to get there: an announcement that stays the latest of its name for GRACE seconds has been read
                # (complete adverts: processed; this is the only timing assumption, far above the library's 0.5 s debounce)
                GRACE = 2.0
                for full, lst in by_name.items():
                    for k, a in enumerate(lst):
                        if a["adv"].get("goodbye") or a["adv"]["valid"] is not True:
                            continue
                        t_next = lst[k + 1]["t"] if k + 1 < len(lst) else None
                        if (t_next is not None and t_next < a["t"] + GRACE) or a["t"] + GRACE > t_end:
                            continue
                        ctx.obligations += 1
                        if not any(ld["name"] == full and ld["ok"] and ld["seq"] > a["seq"] and ld["t"] <= a["t"] + GRACE + TOL for ld in disc.LOADS):
                            ctx.violate("valid-advert-never-processed", n, f"{n}: valid announcement of {full} at t={a['t']:.3f} stayed current for {GRACE} s but the library "
                                                                         f"never read the complete service out of the cache")
        proc.sort(key=lambda p: p["t"])
        ambiguous = any(p.get("ambiguous") for p in proc)
        ctx.probe("processed_adverts", len(proc))
        # ---- waiters -------------------------------------------------------------------------------------
        for w in waiters:
            ctx.obligations += 1
            if w["t1"] is None:
                ctx.violate("waiter-hangs", mode, f"async_find({w['id']}, {w['timeout']}) started t={w['t0']:.3f} never completed")
                continue
            if w["cancelled"]:
                continue
            if ambiguous:
                continue
            deadline = w["t0"] + w["timeout"]
            mine = [p for p in proc if p["id"] == w["id"] and p["valid"] is not False]
            definite = [p["t"] for p in mine if p["valid"] is True]
            possible = [p["t"] for p in mine]
            got = ("found" if w["res"] is not None else "notfound" if w["exc"] == "AccessoryNotFoundError" else w["exc"], w["t1"])
            ok = True
            why = ""
            if got[0] == "found":
                tf = got[1]
                at_start = abs(tf - w["t0"]) <= 1e-3 and any(t <= w["t0"] + TOL for t in possible)
                woken = any(w["t0"] - TOL <= t and abs(t - tf) <= 1e-3 for t in possible) and tf <= deadline + 1e-3
                if not (at_start or woken):
                    ok, why = False, "completed although no advert for the id was processed at that instant"
                elif any(w["t0"] - TOL <= t < tf - 1e-3 for t in definite) or (not at_start and any(t < w["t0"] - TOL for t in definite)):
                    ok, why = False, "completed later than the first valid advert for the id"
            elif got[0] == "notfound":
                if abs(got[1] - deadline) > 1e-3:
                    ok, why = False, "not-found raised away from the deadline"
                elif any(t < deadline - TOL for t in definite):
                    ok, why = False, "lost wake-up: a valid advert for the id was processed before the deadline"
            else:
                ok, why = False, f"unexpected exception {got[0]}"
            if not ok:
                kind = "lost-wakeup" if why.startswith("lost") else "late" if "later" in why else "spurious" if "although" in why else "wrong-outcome"
                ctx.violate("waiter-" + kind, f"{mode}/pairing={plan['pairing'].get(w['id'])}",
                            f"{mode}: async_find({w['id']}, timeout={w['timeout']}) started t={w['t0']:.3f} deadline {deadline:.3f}: got {got[0]} at t={got[1]:.3f}: {why}; "
                            f"valid adverts processed at {[round(t, 3) for t in definite][:6]}, possibly valid at {[round(t, 3) for t in possible if t not in definite][:6]}")
            elif w["res"] is not None:
                d = w["res"].description
                if d.id != w["id"]:
                    ctx.violate("waiter-wrong-device", mode, f"waiter for {w['id']} completed with discovery of {d.id}")
        # ---- parsed descriptions ------------------------------------------------------------------------------
        for n, c in ctls.items():
            if any(p.get("ambiguous") for p in proc if p["net"] == n):
                continue  # an advert arrived in the very instant a resolve timer fired: both orders are legal
            # two services firing at the same instant may be handled in either order
            times = [round(p["t"], 9) for p in proc if p["net"] == n]
            if len(times) != len(set(times)):
                continue
            last: dict = {}
            unknown_ids = {p["id"] for p in proc if p["net"] == n and p["valid"] is None}
            for p in proc:
                if p["net"] == n and p["valid"] is True and not p.get("ambiguous") and p["id"] not in unknown_ids:
                    last[p["id"]] = p["adv"]
            any_invalid_id = set()
            for p in proc:
                if p["net"] == n and not p["valid"]:
                    any_invalid_id.add(p.get("id"))
            for dev, adv in last.items():
                ctx.obligations += 1
                dsc = c.discoveries.get(dev)
                if dsc is None:
                    if n == "ble" and plan["pairing"].get(dev) == "none" and not any(w["id"] == dev for w in waiters):
                        pass
                    if n != "ble" or dev in c.discoveries:
                        ctx.violate("valid-advert-ignored", n, f"{n}: valid advert for {dev} processed but controller.discoveries has no entry")
                    elif n == "ble":
                        ctx.violate("valid-advert-ignored", n, f"ble: valid advert for {dev} processed but controller.discoveries has no entry")
                    continue
                d = dsc.description
                if n == "ble":
                    want = {"id": dev, "config_num": adv["cn"], "state_num": adv["gsn"], "status_flags": adv["sf"], "category": adv["ci"]}
                    later = [b for b in bumps if b["id"] == dev and b["t"] >= last_ble_t.get(dev, -1.0)]
                    if later:
                        want["state_num"] = later[-1]["value"]  # advanced by the session after the last advertisement
                    got = {"id": d.id, "config_num": d.config_num, "state_num": d.state_num, "status_flags": int(d.status_flags), "category": int(d.category)}
                else:
                    want = {"id": dev, "config_num": adv["c"], "state_num": adv["s"], "status_flags": adv["sf"], "category": adv["ci"], "addresses": ref_addresses(adv["addrs"]),
                            "port": adv["port"], "model": adv["md"]}
                    got = {"id": d.id, "config_num": d.config_num, "state_num": d.state_num, "status_flags": int(d.status_flags), "category": int(d.category),
                           "addresses": list(d.addresses), "port": d.port, "model": d.model}
                    if d.address != want["addresses"][0]:
                        ctx.violate("parse-differs", f"{n}/address", f"{n}: primary address {d.address} but reference says {want['addresses'][0]} for {adv['addrs']}")
                if got != want and dev not in any_invalid_id or (got != want and all(got[k] == want[k] for k in ("id",)) and False):
                    field = next(k for k in want if got[k] != want[k])
                    ctx.violate("parse-differs", f"{n}/{field}", f"{n}: parsed {got} but the advert says {want}")
            # malformed adverts change nothing: ids that only ever had malformed adverts have no discovery
            for dev in plan["pairing"]:
                if dev not in last and dev not in unknown_ids and dev in c.discoveries and not any(p["net"] == n and (p.get("ambiguous") or p["valid"] is None) for p in proc):
                    ctx.violate("malformed-advert-accepted", n, f"{n}: only malformed adverts were processed for {dev} but a discovery exists: {c.discoveries[dev].description}")

    def _fire(n, name, seq_read, t_fire, lst):
        # content = last announce for that name before the cache read (goodbye => nothing cached => invalid)
        cur = None
        for a in lst:
            if a["seq"] < seq_read:
                cur = a
        adv = cur["adv"] if cur else None
        if adv is None or adv.get("goodbye"):
            return {"t": t_fire, "net": n, "valid": False, "id": None, "adv": adv}
        return {"t": t_fire, "net": n, "valid": adv["valid"], "id": adv["id"], "adv": adv}

    try:
        loop.run_sim(main())
    except SimDeadlock as e:
        ctx.violate("deadlock", mode, str(e))
    finally:
        seams.end()
    for ex in loop.exceptions:
        e = ex.get("exception")
        ctx.probe("loop_exception_" + type(e).__name__ if e else "loop_exception")
        if "handle" in ex and e is not None:
            # an exception escaped a loop callback (e.g. the library's resolve-later timer): part of advert processing
            ctx.violate("callback-raises", f"timer/{type(e).__name__}", f"exception escaped a loop callback while processing adverts: {e!r} ({ex.get('message')})")
    ctx.state(mode, tuple(sorted(plan["pairing"].values())), len(waiters), len(adverts))
    sample = {"mode": mode, "pairing": plan["pairing"], "ops": [(o["t"], o["op"], o.get("id") or (o.get("adv") or {}).get("id"), (o.get("adv") or {}).get("bad")) for o in plan["ops"]][:10],
              "waiters": [(w["id"], w["t0"], w["timeout"], w["t1"], "found" if w["res"] is not None else w["exc"]) for w in waiters][:5]}
    return result_of(ctx, nontrivial=bool(waiters) and bool(adverts), sim_time=loop.time(), sample=sample)
