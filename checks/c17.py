"""C17 - HAP PDUs are fragmented, reassembled and attributed correctly (BLE, CoAP).

BLE: mode 'func' hands the real ble_request/_write_pdu/_read_pdu (client.py + pdu.py + key.py) a
simulated GATT link (fragment sizes 8..64 and realistic ones, body lengths 0..200 and up to 5000,
plain and encrypted, seeded response fragmentation, injected wrong tid / missing continuation flag);
mode 'full' runs the real BlePairing over the simulated bleak backend at realistic MTUs.
CoAP: mode 'coap' drives the real EncryptionContext.post_all / decode_all_pdus and the pairing-level
read/write result mapping against the reference CoAP accessory with seeded per-item outcomes.
"""

from __future__ import annotations

import asyncio
import random
import struct

from refimpl import ble_accessory as ba
from refimpl import crypto as RC
from refimpl import hap
from simkit import seams
from simkit.core import Chooser, Ctx, result_of
from simkit.loop import SimDeadlock, SimLoop

PROP = "C17"
LEVEL = "exploration"
RULE = (
    "seeded modes. ble-func: the real ble_request on a simulated GATT link; fragment size = 8 + seed mod 57 (8..64, so consecutive seeds sweep "
    "all sizes) or realistic (20,155,244,496,512) x body length = (seed div 57) mod 201 (0..200) or up to 5000, plain or encrypted (real "
    "EncryptionKey/DecryptionKey against the reference per-fragment AEAD), the accessory echoes a response body of seeded length fragmented by "
    "its own policy (maximal, header-only first fragment, 1-byte continuations, random) and may inject a wrong transaction id, a missing "
    "continuation flag or a wrong continuation tid. ble-full: real BlePairing get/put over the simulated bleak backend at MTU "
    "{23,100,158,185,247,512}, values up to 3000 bytes. coap: batches of 1-6 items with per-item outcome {ok len 0, ok len n, each PDU status, "
    "wrong tid, wrong control bits}, all outcome vectors for <=3 items are enumerated across seeds. Oracles: every written fragment <= negotiated "
    "size; reference reassembler recovers opcode/tid/iid/body; controller returns exactly the accessory's status and body for every "
    "fragmentation; wrong tid / missing flag => request fails; CoAP i-th result belongs to i-th requested characteristic, a bad item becomes a "
    "per-item error and neighbours are unaffected. Non-trivial = >=2 fragments in either direction, a fault, or a mixed batch."
)
REAL = ["aiohomekit.pdu (encode_pdu, decode_pdu, decode_pdu_continuation)", "aiohomekit.controller.ble.client (ble_request, _write_pdu, _read_pdu)",
        "aiohomekit.controller.ble.key (EncryptionKey, DecryptionKey)", "aiohomekit.controller.ble.pairing + bleak.py + bleak client front-end (ble-full)",
        "aiohomekit.controller.coap.pdu + connection (EncryptionContext.post_all, read/write result mapping) (coap)"]
STUB = ["GATT link / bleak backend (SimGATT)", "aiocoap message layer (SimCoAP context)", "accessories (reference peers)"]
ASSUMPTIONS = ["fragment sizes below 97 are unreachable through the real AIOHomeKitBleakClient (floor max(mtu,100)-3); they are exercised by handing the real request functions a simulated link object",
               "responses announcing a wrong total length come from a non-conformant accessory and are only required not to hang"]
TIERS = {"quick": {"runs": 14000, "wall": 55}, "thorough": {"runs": 1500000, "wall": 1500}}

REALISTIC = [20, 155, 244, 496, 512]


def gen_plan(seed: int, tier: str) -> dict:
    r = random.Random(seed)
    x = r.random()
    if x < 0.22:
        n = r.choice([1, 2, 2, 3, 3, 4, 5, 6])
        outcomes = ["ok", "ok0", "st1", "st2", "st3", "st4", "st5", "st6", "wrong_tid", "bad_control"]
        if n <= 3:
            # enumerate all outcome vectors for short batches across seeds
            idx = seed // 3
            vec = []
            for _ in range(n):
                vec.append(outcomes[idx % len(outcomes)])
                idx //= len(outcomes)
        else:
            vec = [r.choice(outcomes + ["ok"] * 6) for _ in range(n)]
        plan = {"mode": "coap", "op": r.choice(["read", "read", "write", "subscribe"]), "vec": vec, "pick": r.sample(range(6), n), "reps": r.choice([1, 2]), "ops": []}
        if r.random() < 0.25:
            # a long string value: the sealed reply of a read exceeds what aiocoap sends in one datagram (1124 bytes) and travels
            # block-wise; the requester has to collect the blocks
            plan["big"] = r.choice([300, 1100, 1200, 1200, 2500])
            plan["op"] = "read"
            if 3 not in plan["pick"][: len(vec)]:
                plan["pick"][0] = 3  # the string characteristic
        return plan
    if x < 0.78:
        if r.random() < 0.8:
            fsize = 8 + seed % 57
            blen = (seed // 57) % 201
        else:
            fsize = r.choice(REALISTIC)
            blen = r.choice([0, 1, fsize - 8, fsize - 7, fsize - 6, 2 * fsize, r.randrange(0, 5001)])
        enc = r.random() < 0.4 and fsize >= 24
        ack_lost = None
        if not enc and r.random() < 0.15 and fsize >= 12:
            # a plain request whose last fragment is exactly full, one of whose writes loses its acknowledgement (link stays up)
            blen = (fsize - 7) + r.choice([1, 2, 3]) * (fsize - 2)
            ack_lost = r.choice([1, 2, 2, 3])
        eff = fsize - (16 if enc else 0)
        # response lengths aimed at the reassembly boundaries: first fragment carries eff-5 body bytes, continuations eff-2
        aimed = max(0, (eff - 5) + r.choice([0, 1, 2, 3, 5]) * max(1, eff - 2) + r.choice([-1, 0, 0, 1, 2, 3]))
        return {"mode": "ble-func", "fsize": fsize, "blen": max(0, blen), "enc": enc, "rlen": r.choice([0, 1, blen, aimed, aimed, r.randrange(0, 400), r.randrange(0, 3000)]),
                "no_body": r.random() < 0.1, "policy": r.choice(["max", "max", "header_only_first", "tiny", "random"]), "fault": r.choice([None] * 6 + ["wrong_tid", "no_cont_flag", "wrong_cont_tid"]),
                "status": r.choice([0] * 8 + [1, 3, 6]), "reps": r.choice([1, 2, 3]) if ack_lost is None else 1, "ops": [], "ack_lost": ack_lost}
    plan = {"mode": "ble-full", "mtu": r.choice([23, 100, 158, 185, 247, 512]), "wwr": r.choice([0, 0, 20, 182, 244, 509]), "vlen": r.choice([0, 1, 2, 60, 90, 97, 200, 254, 255, 256, 510, 600, 765, r.randrange(0, 3000)]),
            "policy": r.choice(["max", "header_only_first", "random"]), "drop_at": r.choice([None] * 5 + [r.randrange(20, 120)]), "ops": []}
    if r.random() < 0.25:
        # a write whose acknowledgement is lost while the link stays up, in a request whose LAST fragment is exactly full
        # (value TLV body = (fs-7) + k*(fs-2) bytes for the encrypted fragment size fs): a duplicated fragment would go unnoticed
        plan["wwr"], plan["drop_at"] = 0, None
        fs = max(plan["mtu"], 100) - 3 - 16
        k = r.choice([1, 2, 3])
        body = (fs - 7) + k * (fs - 2)
        hdr = 2 * ((body + 256) // 257 or 1)  # value TLV: 2 header bytes per 255-byte piece
        plan["vlen"] = max(1, body - hdr + r.choice([0, 0, 0, -1, 1]))
        plan["ack_lost"] = r.choice([1, 2, 2, 3])  # which write of the put loses its acknowledgement (counted within the put)
    return plan


def execute(plan: dict, ch: Chooser) -> dict:
    import bleak  # noqa: F401

    if plan["mode"] == "ble-func":
        return execute_func(plan, ch)
    if plan["mode"] == "ble-full":
        return execute_full(plan, ch)
    if plan["mode"] == "coap":
        return execute_coap(plan, ch)
    raise ValueError(plan["mode"])


def _services_echo():
    svc = ba.GService("00000043" + ba.BASE, 48, [ba.GChar("000000F0" + ba.BASE, 50, "data", perms=("pr", "pw"), value=b"")])
    return ba.standard_services([svc])


def execute_func(plan: dict, ch: Chooser) -> dict:
    from aiohomekit.controller.ble.client import ble_request
    from aiohomekit.controller.ble.key import DecryptionKey, EncryptionKey
    from aiohomekit.pdu import OpCode
    from worlds.ble import LinkClient

    ctx = Ctx(ch)
    seams.begin(ctx)
    seams.install_ble()
    loop = SimLoop(max_iterations=200_000)
    ctx.loop = loop
    ident = hap.AccessoryIdentity("aa:bb:cc:dd:ee:17", ch.nbytes("ltsk", 32))
    acc = ba.BleAccessory(ident, {}, _services_echo(), frag=ba.FragPolicy(plan["policy"], chooser=ch))
    acc.echo_iids = {50}
    fsize = plan["fsize"]
    nontrivial = False

    async def main():
        nonlocal nontrivial
        client = LinkClient(ctx, acc, fsize)
        ek = dk = None
        if plan["enc"]:
            c2a, a2c = ch.nbytes("c2a", 32), ch.nbytes("a2c", 32)
            ek, dk = EncryptionKey(c2a), DecryptionKey(a2c)
            acc.dec, acc.enc = c2a, a2c
            acc.enc_ctr = acc.dec_ctr = 0
        handle = client.handle_for(50)
        for rep in range(plan["reps"]):
            body = None if plan["no_body"] else ch.nbytes("body", plan["blen"])
            reply = ch.nbytes("reply", plan["rlen"])
            acc.echo_reply = lambda b, reply=reply: reply if plan["rlen"] or not plan["no_body"] else None
            if plan["rlen"] == 0 and r_is_none(plan):
                acc.echo_reply = lambda b: None
            acc.echo_status = plan["status"]
            fault = plan["fault"] if rep == plan["reps"] - 1 else None
            acc.resp_mut = None
            if fault == "wrong_tid":
                acc.resp_mut = lambda s: dict(s, tid=(s["tid"] + 1) & 0xFF)
            elif fault == "no_cont_flag":
                acc.resp_mut = lambda s: dict(s, drop_continuation_flag=True)
            elif fault == "wrong_cont_tid":
                acc.resp_mut = lambda s: dict(s, wrong_continuation_tid=True)
            n_w0 = len(client.writes)
            n_req0 = len(acc.requests)
            if plan.get("ack_lost") and not plan["no_body"]:
                client.ack_lost_at = n_w0 + plan["ack_lost"]
            exc = None
            res = None
            try:
                res = await ble_request(client, ek, dk, OpCode.CHAR_WRITE, handle, 50, body)
            except Exception as e:  # noqa: BLE001
                exc = e
            ctx.obligations += 1
            writes = client.writes[n_w0:]
            wire_limit = fsize
            ctx.event("req", rep, len(body or b""), len(writes), type(exc).__name__ if exc else None)
            # (1) fragment sizes
            over = [len(d) for _, d in writes if len(d) > wire_limit]
            if over:
                ctx.violate("fragment-too-large", f"enc={plan['enc']}", f"fragment size {fsize}: wrote fragments of {over} bytes (body {len(body or b'')} bytes, encrypted={plan['enc']})")
            # (2) accessory reassembled the same request
            if acc.protocol_errors:
                ctx.violate("request-not-reassemblable", "", f"fragment size {fsize}, body {len(body or b'')}: reference reassembler says: {acc.protocol_errors[:2]}")
                return
            reqs = acc.requests[n_req0:]
            if len(reqs) != 1:
                if exc is None or not writes:
                    ctx.violate("request-count", str(len(reqs)), f"accessory reassembled {len(reqs)} requests from one ble_request (body {len(body or b'')}, fragment size {fsize}); exception {exc!r}")
                    return
            else:
                q = reqs[0]
                want_body = body if body else None
                if (q["opcode"], q["iid"]) != (2, 50) or q["body"] != want_body:
                    ctx.violate("request-differs", "", f"accessory got opcode {q['opcode']} iid {q['iid']} body {len(q['body'] or b'')} B; controller sent opcode 2 iid 50 body {len(body or b'')} B (fragment size {fsize})")
            nfr = len(acc.last_response["frags"]) if getattr(acc, "last_response", None) else 0
            if len(writes) > 1 or nfr > 1 or fault:
                nontrivial = True
            # (3)/(4) response
            multi = nfr > 1
            if fault == "wrong_tid" or (fault in ("no_cont_flag", "wrong_cont_tid") and multi):
                if exc is None:
                    ctx.violate("bad-response-accepted", fault, f"response with {fault} (fragments {acc.last_response['frags']}) was accepted: returned {res and (res[0], len(res[1]))}")
                return  # link is unusable after a rejected response
            if exc is not None and plan.get("ack_lost") and client.ack_lost_at is not None and len(client.writes) >= client.ack_lost_at:
                ctx.probe("request_failed_after_lost_ack")  # legitimate: the write error propagates to the caller
                return
            if exc is not None:
                ctx.violate("request-failed", type(exc).__name__, f"conformant response (status {plan['status']}, {nfr} fragments {acc.last_response['frags'][:6]}, fragment size {fsize}, enc={plan['enc']}) "
                                                                  f"but ble_request raised {exc!r}")
                return
            status, data = res
            exp_body = acc.last_response["body"] or b""
            if int(status.value) != plan["status"] or bytes(data) != exp_body:
                ctx.violate("response-differs", f"policy={plan['policy']}",
                            f"accessory answered status {plan['status']} body {len(exp_body)} B in fragments {acc.last_response['frags'][:8]}; controller returned status {status.value} body {len(data)} B")
            ctx.state(min(len(writes), 5), min(nfr, 5), plan["enc"], plan["policy"], fault)

    def r_is_none(p):
        return p["no_body"]

    try:
        loop.run_sim(main())
    except SimDeadlock as e:
        ctx.violate("deadlock", "func", str(e))
    finally:
        seams.end()
    sample = {k: plan[k] for k in ("mode", "fsize", "blen", "enc", "rlen", "policy", "fault", "status")}
    return result_of(ctx, nontrivial=nontrivial, sim_time=loop.time(), sample=sample, units=plan["reps"])


def execute_full(plan: dict, ch: Chooser) -> dict:
    from worlds import ble as wble
    from worlds import disc

    ctx = Ctx(ch)
    seams.begin(ctx)
    seams.install_ble()
    disc.install()
    wble.install()
    loop = SimLoop(max_iterations=400_000)
    ctx.loop = loop
    ident = hap.AccessoryIdentity("aa:bb:cc:dd:ee:17", ch.nbytes("ltsk", 32))
    ios_ltsk = ch.nbytes("ios", 32)
    svc = ba.GService("00000043" + ba.BASE, 48, [
        ba.GChar("00000025" + ba.BASE, 50, "bool", perms=("pr", "pw", "ev"), value=True),
        ba.GChar("000000F1" + ba.BASE, 51, "string", perms=("pr", "pw"), value="x" * plan["vlen"]),
        ba.GChar("000000F2" + ba.BASE, 52, "data", perms=("pr", "pw"), value=b"\x07" * (plan["vlen"] // 2)),
    ])
    acc = ba.BleAccessory(ident, {"ios-1": RC.ed_pub(ios_ltsk)}, ba.standard_services([svc]), eph=lambda w, n: ch.nbytes("acc." + w, n),
                          frag=ba.FragPolicy(plan["policy"], chooser=ch))
    link = wble.SimLink(ctx, "00:11:22:33:44:17", acc, {"mtu": plan["mtu"], "max_wwr": plan["wwr"], "drop_at_op": plan["drop_at"]})
    frag = max(plan["wwr"], max(plan["mtu"], 100) - 3) if plan["wwr"] else max(plan["mtu"], 100) - 3
    acc.frag_size = frag
    state = {"multi": False}

    async def main():
        from aiohomekit.characteristic_cache import CharacteristicCacheMemory
        from aiohomekit.controller.ble.controller import BleController
        from aiohomekit.exceptions import AccessoryDisconnectedError

        c = BleController(char_cache=CharacteristicCacheMemory())
        await c.async_start()
        dev, adv = disc.ble_objects("00:11:22:33:44:17", "SimBLE", {76: disc.regular_advert("aa:bb:cc:dd:ee:17", gsn=1, cn=1)})
        c._device_detected(dev, adv)
        rec = {"AccessoryPairingID": "aa:bb:cc:dd:ee:17", "AccessoryLTPK": ident.ltpk.hex(), "iOSPairingId": "ios-1", "iOSDeviceLTSK": ios_ltsk.hex(),
               "iOSDeviceLTPK": RC.ed_pub(ios_ltsk).hex(), "Connection": "BLE", "AccessoryAddress": "00:11:22:33:44:17"}
        p = c.load_pairing("alias", rec)
        newval = "y" * plan["vlen"]
        try:
            got = await p.get_characteristics([(1, 50), (1, 51), (1, 52)])
            put = await p.put_characteristics([(1, 51, newval)])
            got2 = await p.get_characteristics([(1, 51)])
        except (AccessoryDisconnectedError, Exception) as e:  # noqa: BLE001
            if link.drops == 0:
                ctx.violate("full-request-failed", type(e).__name__, f"mtu {plan['mtu']} value length {plan['vlen']}: request failed without any link fault: {e!r}; accessory errors {acc.protocol_errors[:2]}")
            ctx.event("failed", type(e).__name__)
            await p.shutdown()
            return
        ctx.obligations += 1
        over = [n for _, n in acc.fragments_in if n > frag]
        if over:
            ctx.violate("fragment-too-large", "full", f"mtu {plan['mtu']} (fragment size {frag}): controller wrote fragments of {sorted(set(over))[:5]} bytes")
        if acc.protocol_errors:
            ctx.violate("request-not-reassemblable", "full", f"reference accessory: {acc.protocol_errors[:2]}")
        if link.drops == 0:
            if got.get((1, 51), {}).get("value") != "x" * plan["vlen"] or got.get((1, 50), {}).get("value") is not True or got.get((1, 52), {}).get("value") != (b"\x07" * (plan["vlen"] // 2)).hex():
                ctx.violate("response-differs", "full-read", f"mtu {plan['mtu']} policy {plan['policy']}: read returned values of lengths "
                                                              f"{ {k: len(str(v.get('value'))) for k, v in got.items()} } for a {plan['vlen']}-byte string")
            if acc.find_char(51).value != newval or put:
                ctx.violate("request-differs", "full-write", f"accessory holds a {len(str(acc.find_char(51).value))}-byte value after writing {len(newval)} bytes; result {put}")
            if got2.get((1, 51), {}).get("value") != newval:
                ctx.violate("response-differs", "full-read-back", "read-back differs from the written value")
        state["multi"] = any(n > 1 for n in [len(r) for r in []]) or plan["vlen"] > frag - 30
        ctx.event("full", plan["mtu"], plan["vlen"], len(acc.fragments_in))
        ctx.state("full", plan["mtu"], plan["vlen"] > frag, plan["policy"])
        await p.shutdown()

    try:
        loop.run_sim(main())
    except SimDeadlock as e:
        ctx.violate("deadlock", "full", str(e))
    finally:
        seams.end()
    sample = {k: plan[k] for k in ("mode", "mtu", "wwr", "vlen", "policy", "drop_at")}
    return result_of(ctx, nontrivial=state["multi"] or plan["drop_at"] is not None, sim_time=loop.time(), sample=sample)


def execute_coap(plan: dict, ch: Chooser) -> dict:
    from worlds import coap as wcoap

    ctx = Ctx(ch)
    seams.begin(ctx)
    loop = SimLoop(max_iterations=200_000)
    ctx.loop = loop
    acc, rec = wcoap.standard_accessory(ch)
    w = wcoap.CoapWorld(ctx, loop, acc)
    vec = plan["vec"]
    mixed = len(set(v.startswith("ok") for v in vec)) > 1

    async def main():
        p = wcoap.make_pairing(rec)
        await p.list_accessories_and_characteristics()
        readable = [c for c in acc.all_chars() if "pr" in c.perms and "pw" in c.perms and c.iid >= 0x100 + 50]
        if plan.get("big"):
            for c in readable:
                if c.fmt == "string":
                    c.value = ("long string value " * 200)[: plan["big"]]
                    ctx.probe("coap_long_string_value")
        for rep in range(plan["reps"]):
            chars = [readable[i % len(readable)] for i in plan["pick"]][: len(vec)]
            ids = [(1, c.iid) for c in chars]
            armed = {"on": True}

            def item_plan(idx, opcode, iid, vec=vec, armed=armed):
                if not armed["on"] or idx >= len(vec):
                    return None
                v = vec[idx]
                if v.startswith("st"):
                    return {"status": int(v[2:])}
                if v == "wrong_tid":
                    return {"wrong_tid": True}
                if v == "bad_control":
                    return {"bad_control": 0x04}
                if v == "ok0":
                    return {"empty_body": True}
                return None

            acc.item_plan = item_plan
            before = {c.iid: c.value for c in chars}
            applied0 = len(acc.writes_applied)
            try:
                if plan["op"] == "read":
                    res = await p.get_characteristics(ids)
                elif plan["op"] == "write":
                    newvals = {c.iid: ({"bool": not c.value, "string": str(c.value) + "x"}.get(c.fmt, None) if c.fmt in ("bool", "string") else (c.value + 1)) for c in chars}
                    res = await p.put_characteristics([(1, c.iid, newvals[c.iid]) for c in chars])
                else:
                    res = await p.connection.subscribe_to(ids)
            except Exception as e:  # noqa: BLE001
                ctx.violate("coap-batch-raises", f"{plan['op']}/{type(e).__name__}", f"coap {plan['op']} batch with outcomes {vec} raised {e!r}")
                return
            finally:
                armed["on"] = False
            ctx.obligations += 1
            ctx.event("coap", plan["op"], vec, sorted(res.keys()).__repr__()[:60])
            for i, (c, v) in enumerate(zip(chars, vec)):
                key = (1, c.iid)
                got = res.get(key)
                bad = not v.startswith("ok")
                if plan["op"] == "read":
                    if bad:
                        if got is None or "status" not in got or not got["status"]:
                            ctx.violate("coap-item-error-hidden", f"read/{v[:2]}", f"item {i} ({v}) of {vec}: expected a per-item error for iid {c.iid}, got {got}")
                    elif v == "ok0":
                        ctx.probe("coap_read_item_with_empty_body")
                        if got is None or got.get("status") or got.get("value") not in (b"", "", None):
                            ctx.violate("coap-item-shifted", "read-empty-body", f"item {i} of {vec}: iid {c.iid} was answered success with an empty body but the result says {got} (results {res})")
                    else:
                        if got is None or got.get("value") != before[c.iid]:
                            ctx.violate("coap-item-shifted", "read", f"item {i} of {vec}: iid {c.iid} holds {before[c.iid]!r} but the result says {got} (results {res})")
                else:
                    if bad:
                        if got is None or not got.get("status"):
                            ctx.violate("coap-item-error-hidden", f"{plan['op']}/{v[:2]}", f"item {i} ({v}) of {vec}: expected a per-item error for iid {c.iid}, got {got}")
                    elif got is not None:
                        ctx.violate("coap-item-shifted", plan["op"], f"item {i} of {vec}: iid {c.iid} succeeded on the accessory but is reported {got}")
            if plan["op"] == "write":
                applied = {iid for iid, _ in acc.writes_applied[applied0:]}
                want = {c.iid for c, v in zip(chars, vec) if not v.startswith("st")}
                if applied != want:
                    ctx.violate("coap-write-set", "", f"accessory applied {sorted(applied)} expected {sorted(want)} for outcomes {vec}")
            ctx.state("coap", plan["op"], tuple(v[:2] for v in vec))

    try:
        loop.run_sim(main())
    except SimDeadlock as e:
        ctx.violate("deadlock", "coap", str(e))
    finally:
        seams.end()
    return result_of(ctx, nontrivial=mixed or len(vec) >= 2, sim_time=loop.time(), sample={"mode": "coap", "op": plan["op"], "outcomes": vec}, units=plan["reps"])
