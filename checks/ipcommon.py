"""Shared glue for the checks that run on the IP scenario engine."""
from __future__ import annotations

import random

from simkit.core import result_of
from worlds.ip_scenario import run_plan

REAL_IP = [
    "aiohomekit.controller.ip.pairing.IpPairing", "aiohomekit.controller.ip.connection (HomeKitConnection, SecureHomeKitConnection, both protocols)",
    "aiohomekit.protocol.get_session_keys", "aiohomekit.http.response", "aiohomekit.hkjson", "aiohomekit.protocol.tlv",
    "aiohappyeyeballs.start_connection", "async_interrupt", "asyncio tasks/futures/timers (CPython BaseEventLoop)",
]
STUB_IP = [
    "kernel TCP + selector transport (SimNet/SimTransport modelled after CPython selector_events.py)",
    "accessory (independent reference implementation refimpl.ip_accessory)", "zeroconf (description updates are delivered by calling IpPairing._async_description_update)",
    "clock (virtual)", "entropy (x25519 key generation seam)",
]


def execute_filtered(plan: dict, ch, prefixes: tuple[str, ...], sample_fn=None, nontrivial_fn=None) -> dict:
    ctx, sc = run_plan(plan, ch)
    ctx.violations = [v for v in ctx.violations if v["oracle"].startswith(prefixes) or v["oracle"].startswith("SIM.")]
    fired = sum(ch.fired.values())
    nontrivial = (fired > 0 or len(plan.get("ops", [])) > 1)
    if nontrivial_fn:
        nontrivial = nontrivial_fn(sc, ctx)
    sample = None
    if sample_fn:
        sample = sample_fn(sc, ctx)
    else:
        sample = {
            "ops": [{k: v for k, v in op.items()} for op in plan.get("ops", [])][:12],
            "profile": plan.get("profile"),
            "fired_decisions": dict(list(ch.made.items())[:12]),
            "calls": [(c["op"], c["outcome"], c["exc"], round(c["t0"], 3), None if c["t1"] is None else round(c["t1"], 3)) for c in sc.calls][:12],
            "attempts": [(round(a["t0"], 3), a["outcome"]) for a in sc.attempts][:12],
        }
    ctx.probe("attempts", len(sc.attempts))
    ctx.probe("connections", len(sc.w.net.conns))
    ctx.probe("calls", len(sc.calls))
    for c in sc.calls:
        ctx.probe(f"call_{c['outcome']}_{c['exc']}" if c["outcome"] == "exc" else "call_ok")
    for a in sc.attempts:
        ctx.probe(f"attempt_{a['outcome']}")
    return result_of(ctx, nontrivial=nontrivial, sim_time=sc.loop.time(), sample=sample)


def rnd_time(r: random.Random, hi: float) -> float:
    # cluster some operations at "interesting" instants, rest uniform
    x = r.random()
    if x < 0.15:
        return round(r.choice([0.0, 0.001, 0.002, 0.01]), 6)
    return round(r.uniform(0.0, hi), 3)
