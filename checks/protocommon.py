"""Shared drivers for the pairing-protocol checks (C01-C04): a message pipe between the real
protocol generators and the reference responders, with in-flight corruption."""

from __future__ import annotations

from refimpl import hap, tlv8

ERROR_CLASS = {2: "AuthenticationError", 3: "BackoffError", 4: "MaxPeersError", 5: "MaxTriesError", 6: "UnavailableError", 7: "BusyError"}


def expected_error_class(code: int) -> str:
    return ERROR_CLASS.get(code, "InvalidError")


def lib_items(req) -> list[tuple[int, bytes]]:
    """request items as yielded by the library generators -> plain (type, bytes) list"""
    return [(int(t), bytes(v)) for t, v in req]


class Pipe:
    """Drives a protocol generator against a responder the way a transport does: the request list is
    encoded by the library codec, decoded by the reference codec (strict: canonical TLV8 expected),
    the reply list is encoded by the reference codec, optionally corrupted in flight, and decoded by
    the library codec - with the `expected` filter (IP/CoAP style) or without (BLE style)."""

    def __init__(self, style: str = "ip") -> None:
        self.style = style
        self.requests: list[list[tuple[int, bytes]]] = []
        self.replies: list[list[tuple[int, bytes]]] = []
        self.delivered: list[bytes] = []
        self.noncanonical_requests = 0
        self.wire_hook = None  # callable(step_index, reply_bytes) -> reply_bytes

    def run(self, gen, responder):
        from aiohomekit.protocol.tlv import TLV

        req, expected = gen.send(None)
        step = 0
        while True:
            wire = bytes(TLV.encode_list(req))
            if not tlv8.is_canonical(wire):
                self.noncanonical_requests += 1
            items = tlv8.decode(wire, strict=False)
            self.requests.append(items)
            reply = responder(items)
            self.replies.append(reply)
            rb = tlv8.encode(reply)
            if self.wire_hook:
                rb = self.wire_hook(step, rb)
            self.delivered.append(rb)
            if self.style == "ip":
                decoded = TLV.decode_bytes(rb, expected=expected)
            else:
                decoded = dict(TLV.decode_bytes(rb))
            step += 1
            try:
                req, expected = gen.send(decoded)
            except StopIteration as r:
                return r.value


def delivered_items(rb: bytes):
    try:
        return tlv8.decode(rb, strict=False)
    except tlv8.TLVError:
        return None


# ---- real transport drivers for the pairing exchanges (BLE pairing channel, CoAP endpoints) ---------------------------
def run_ble_link(ctx, ch, char_uuid_name: str, gens, handle, wire_hook=None, fsize: int = 100, tlv_frag=None):
    """Run pairing generator(s) through the real BLE pairing transport code
    (aiohomekit.controller.ble.client.drive_pairing_state_machine -> _pairing_char_write -> char_write -> ble_request)
    against the reference GATT accessory whose pairing characteristics answer with handle(items).
    gens: list of callables(previous_result) -> generator.  Returns (result, delivered_reply_bytes)."""
    from aiohomekit.controller.ble.client import drive_pairing_state_machine
    from aiohomekit.model.characteristics import CharacteristicsTypes
    from refimpl import ble_accessory as ba
    from refimpl import hap, tlv8
    from simkit import seams
    from simkit.loop import SimLoop
    from worlds.ble import LinkClient

    seams.install_ble()
    loop = SimLoop(max_iterations=300_000)
    ctx.loop = loop
    ident = hap.AccessoryIdentity("aa:bb:cc:dd:ee:0b", bytes(32))
    acc = ba.BleAccessory(ident, {}, ba.standard_services([]), frag=ba.FragPolicy("max", chooser=ch))
    delivered: list[bytes] = []
    step = [0]

    def echo(items, raw):
        rb = tlv8.encode(handle(items))
        if wire_hook is not None:
            rb = wire_hook(step[0], rb)
        step[0] += 1
        delivered.append(rb)
        return rb

    acc.pairing_echo = echo
    acc.tlv_frag_size = tlv_frag
    out = {"res": None, "exc": None}
    char = getattr(CharacteristicsTypes, char_uuid_name)

    async def main():
        client = LinkClient(ctx, acc, fsize)
        try:
            res = None
            for g in gens:
                res = await drive_pairing_state_machine(client, char, g(res))
            out["res"] = res
        except Exception as e:  # noqa: BLE001
            out["exc"] = e

    loop.run_sim(main())
    if out["exc"] is not None:
        out["exc"].delivered = delivered
        raise out["exc"]
    return out["res"], delivered


def run_coap(ctx, ch, what: str, handle, wire_hook=None, pairing_data=None, pin=None, with_auth=False, error_code: str | None = None):
    """Run pair-setup ('setup') or pair-verify ('verify') through the real CoAP transport code
    (CoAPHomeKitConnection.do_pair_setup / do_pair_setup_finish / do_pair_verify) over the simulated aiocoap context.
    Returns (result, delivered_reply_bytes)."""
    from refimpl import tlv8
    from simkit.loop import SimLoop
    from worlds import coap as wcoap

    loop = SimLoop(max_iterations=300_000)
    ctx.loop = loop
    acc, _rec = wcoap.standard_accessory(ch)
    wcoap.CoapWorld(ctx, loop, acc)
    delivered: list[bytes] = []
    step = [0]

    def endpoint(payload):
        rb = tlv8.encode(handle(tlv8.decode(payload, strict=False)))
        if wire_hook is not None:
            rb = wire_hook(step[0], rb)
        step[0] += 1
        delivered.append(rb)
        if error_code is not None:
            # a reply that reports a failure (an Error item) travels under that CoAP error code instead of 2.04
            try:
                items = tlv8.decode(rb, strict=False)
            except Exception:  # noqa: BLE001
                items = []
            if any(t == 7 for t, _ in items):
                return (error_code, rb)
        return rb

    acc.post_pair_setup = endpoint
    acc.post_pair_verify = endpoint
    out = {"res": None, "exc": None}

    async def main():
        from aiohomekit.controller.coap.connection import CoAPHomeKitConnection

        conn = CoAPHomeKitConnection(None, "fd00::c0", 5683)
        try:
            if what == "setup":
                salt, pub = await conn.do_pair_setup(with_auth)
                out["res"] = await conn.do_pair_setup_finish(pin, salt, pub)
            else:
                ok = await conn.do_pair_verify(pairing_data)
                out["res"] = ("verified", conn.enc_ctx) if ok and conn.enc_ctx is not None else None
        except Exception as e:  # noqa: BLE001
            out["exc"] = e

    loop.run_sim(main())
    if out["exc"] is not None:
        out["exc"].delivered = delivered
        raise out["exc"]
    return out["res"], delivered
