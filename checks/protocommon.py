"""Shared drivers for the pairing-protocol checks (C01-C04): a message pipe between the real
protocol generators and the reference responders, with in-flight corruption."""

from __future__ import annotations

from refimpl import hap, tlv8

ERROR_CLASS = {2: "AuthenticationError", 3: "BackoffError", 4: "MaxPeersError", 5: "MaxTriesError", 6: "UnavailableError", 7: "BusyError"}


def expected_error_class(code: int) -> str:
    return ERROR_CLASS.get(code, "InvalidError")


def lib_items(req) -> list[tuple[int, bytes]]:
    """request items as yielded by the library generators -> plain (type, bytes) list"""
    return [(int(t), bytes(v)) for t, v in req]


class Pipe:
    """Drives a protocol generator against a responder the way a transport does: the request list is
    encoded by the library codec, decoded by the reference codec (strict: canonical TLV8 expected),
    the reply list is encoded by the reference codec, optionally corrupted in flight, and decoded by
    the library codec - with the `expected` filter (IP/CoAP style) or without (BLE style)."""

    def __init__(self, style: str = "ip") -> None:
        self.style = style
        self.requests: list[list[tuple[int, bytes]]] = []
        self.replies: list[list[tuple[int, bytes]]] = []
        self.delivered: list[bytes] = []
        self.noncanonical_requests = 0
        self.wire_hook = None  # callable(step_index, reply_bytes) -> reply_bytes

    def run(self, gen, responder):
        from aiohomekit.protocol.tlv import TLV

        req, expected = gen.send(None)
        step = 0
        while True:
            wire = bytes(TLV.encode_list(req))
            if not tlv8.is_canonical(wire):
                self.noncanonical_requests += 1
            items = tlv8.decode(wire, strict=False)
            self.requests.append(items)
            reply = responder(items)
            self.replies.append(reply)
            rb = tlv8.encode(reply)
            if self.wire_hook:
                rb = self.wire_hook(step, rb)
            self.delivered.append(rb)
            if self.style == "ip":
                decoded = TLV.decode_bytes(rb, expected=expected)
            else:
                decoded = dict(TLV.decode_bytes(rb))
            step += 1
            try:
                req, expected = gen.send(decoded)
            except StopIteration as r:
                return r.value


def delivered_items(rb: bytes):
    try:
        return tlv8.decode(rb, strict=False)
    except tlv8.TLVError:
        return None
