"""C13 - reads and writes report per-characteristic outcomes faithfully (IP, CoAP, BLE).

The accessory (reference peer) decides per characteristic whether a read/write succeeds and with
which status, and may garble the reply in the ways the property names.  Oracle = the peer's
ground truth (which writes it applied, which status it sent for which id).
"""

from __future__ import annotations

import asyncio
import json
import random

from simkit.core import Chooser, Ctx, result_of
from simkit.loop import SimDeadlock, SimLoop

PROP = "C13"
LEVEL = "exploration"
RULE = (
    "one run = a secure session (transport chosen by seed: IP over simulated TCP, CoAP over the simulated aiocoap context, BLE over "
    "simulated GATT) and 3-8 sequential requests; each request = 1-4 characteristics over 1-2 accessory ids with readable / "
    "write-only / timed-write permissions; the accessory draws a status vector per request (0, each defined HAP code, positive-signed, "
    "unknown codes), 204 vs 207 (incl. all-zero 207), request-wide status with partial lists, and reply garbling: duplicated, non-dict, "
    "id-less, missing entries. Oracles on the peer's ground truth: read -> every id the reply mentions has the accessory's value or status, "
    "unmentioned ids get the request-wide status; write -> every rejected id reported non-zero or call raises, no accepted id reported "
    "non-zero, listener notifications == accepted AND readable; garbled entries never raise. Non-trivial = a request with a mixed status "
    "vector or garbling; distinct by event-log digest."
)
REAL = ["aiohomekit.controller.ip.pairing (get/put_characteristics, format_characteristic_list)", "aiohomekit.protocol.statuscodes",
        "aiohomekit.controller.coap.pairing/connection (read/write result mapping)", "aiohomekit.controller.ble.pairing put/get", "full IP stack as in C08"]
STUB = ["TCP / aiocoap message layer / bleak backend (simulated)", "accessories (reference peers)"]
ASSUMPTIONS = [
    "entries that carry ids but no status are outside the stated quantifier: generated only as a non-deciding probe",
    "a reply that omits the entry of a rejected characteristic cannot be reported faithfully by any controller; garbling never removes entries of rejected ids",
]
TIERS = {"quick": {"runs": 30000, "wall": 55}, "thorough": {"runs": 300000, "wall": 1500}}

CODES = [-70401, -70402, -70403, -70404, -70405, -70406, -70407, -70408, -70409, -70410, -70411, -70412]


def gen_plan(seed: int, tier: str) -> dict:
    r = random.Random(seed)
    transport = r.choice(["ip"] * 6 + ["coap"] * 2 + ["ble"] * 2)
    if transport != "ip":
        n = r.choice([1, 2, 3, 4])
        reqs = []
        for _ in range(r.randint(2, 5)):
            kind = r.choice(["get", "put", "put"])
            reqs.append({"kind": kind, "pick": r.sample(range(8), n), "status": [r.choice([0, 0, 0, r.choice([1, 2, 3, 4, 5, 6])]) for _ in range(n)]})
            if transport == "ble" and r.random() < 0.25:
                # the link drops at the k-th GATT operation of this request (between the write and the read of one characteristic,
                # between two characteristics ...): bleak raises a retryable error and the library reconnects and retries on its own
                reqs[-1]["drop_after"] = r.randrange(1, 14)
            if kind == "get" and not any(reqs[-1]["status"]) and r.random() < 0.3:
                # a caller may name one characteristic twice: every requested characteristic must still be answered
                reqs[-1]["pick"].insert(1, reqs[-1]["pick"][0])
                reqs[-1]["status"].insert(1, 0)
        return {"transport": transport, "reqs": reqs, "ops": list(range(len(reqs)))}
    reqs = []
    for _ in range(r.randint(3, 8)):
        kind = r.choice(["get", "put", "put"])
        n = r.choice([1, 2, 2, 3, 4])
        pool = [(a, 10 + k) for a in (1, 2) for k in range(12)]
        ids = r.sample(pool, n)
        vec = []
        mode = r.choice(["all_ok", "mixed", "mixed", "all_fail", "global"])
        for _i in ids:
            if mode == "all_ok":
                st = 0
            elif mode == "all_fail":
                st = r.choice(CODES)
            else:
                st = r.choice([0, 0, r.choice(CODES), r.choice([70402, 70410]), r.choice([-70499, -1, 12345, -7])])
            vec.append(st)
        garble = r.choice([None, None, None, "dup", "nondict", "idless", "missing_ok", "zero207", "reorder", "float_status", "float_status"])
        req = {"kind": kind, "ids": [list(i) for i in ids], "status": vec, "garble": garble, "gseed": r.randrange(10**6)}
        if mode == "global":
            req["global"] = r.choice(CODES + [-70499])
            req["global_keep"] = r.randrange(0, n + 1)
            req["global_form"] = r.choice(["list", "list", "nolist", "empty", "empty_nolength"]) if req["global_keep"] == 0 else "list"
            req["global_http"] = r.choice([207, 207, 500, 503])
            if req["global_form"].startswith("empty"):
                # the whole write refused with a bare error reply: 5xx (or 4xx) status line, no body at all
                req["global_http"] = r.choice([500, 503, 500, 507, 400, 422])
        if kind == "put":
            req["values"] = [r.choice([True, False, 0, 1, 55, "s"]) for _ in ids]
        reqs.append(req)
    return {"transport": transport, "reqs": reqs, "ops": list(range(len(reqs))), "seg": r.choice(["whole", "random", "halves"]),
            "frame": r.choice(["max", "mixed"])}


def execute(plan: dict, ch: Chooser) -> dict:
    if plan["transport"] == "ip":
        return execute_ip(plan, ch)
    if plan["transport"] == "coap":
        return execute_coap(plan, ch)
    return execute_ble(plan, ch)


def _garble(kind, gseed, entries: list, statuses: dict) -> list:
    r = random.Random(gseed)
    out = list(entries)
    if kind == "dup" and out:
        e = r.choice(out)
        out.insert(r.randrange(len(out) + 1), dict(e))
    elif kind == "nondict":
        out.insert(r.randrange(len(out) + 1), r.choice([True, False, None, 7, "x", [1]]))
    elif kind == "idless":
        out.insert(r.randrange(len(out) + 1), r.choice([{"status": -70402}, {"aid": 1, "status": -70402}, {"iid": 10, "value": 3}, {}]))
    elif kind == "missing_ok":
        oks = [e for e in out if isinstance(e, dict) and statuses.get((e.get("aid"), e.get("iid")), 0) == 0]
        if oks and len(out) > 1:
            out.remove(r.choice(oks))
    elif kind == "reorder":
        r.shuffle(out)
    elif kind == "float_status":
        # the same numbers written as JSON float literals (-70402.0): a JSON stack that keeps one number type does that, and the
        # decoder hands the library a float
        out = [dict(e, status=float(e["status"])) if isinstance(e, dict) and isinstance(e.get("status"), int) and not isinstance(e.get("status"), bool) else e for e in out]
    return out


def execute_ip(plan: dict, ch: Chooser) -> dict:
    from worlds.ip import IpWorld

    ctx = Ctx(ch)
    loop = SimLoop(max_iterations=100_000)
    w = IpWorld(ctx, loop, {"hosts": [["10.0.0.1", "genuine"]], "seg": plan["seg"], "frame": plan["frame"], "n_chars": 12})
    nontrivial = False

    async def main():
        nonlocal nontrivial
        p = w.make_pairing()
        notes: list = []
        p.dispatcher_connect(lambda ev: notes.append(dict(ev)))
        for idx in plan["ops"]:
            req = plan["reqs"][idx]
            ids = [tuple(i) for i in req["ids"]]
            st = {i: s for i, s in zip(ids, req["status"])}
            readable = {i for i in ids if "pr" in w.acc.perms[i]}
            writable = {i for i in ids if "pw" in w.acc.perms[i]}
            kind = req["kind"]
            if "global" in req and kind == "put":
                # a request-wide failure: the accessory rejects (does not apply) every item its reply will not mention
                for pos, i in enumerate(ids):
                    if pos >= req["global_keep"]:
                        st[i] = st[i] or req["global"]
            w.status_plan = {("r" if kind == "get" else "w", a, i): s for (a, i), s in st.items() if s}
            sent: dict = {}

            def mut(k, code, obj, req=req, st=st, sent=sent):
                entries = obj["characteristics"]
                eff = {(e["aid"], e["iid"]): e.get("status", 0) for e in entries}
                sent["eff"] = eff
                if "global" in req:
                    keep = entries[: req["global_keep"]]
                    sent["eff"] = {(e["aid"], e["iid"]): e.get("status", 0) for e in keep}
                    sent["global"] = req["global"]
                    sent["mentioned"] = set(sent["eff"])
                    for e in keep:
                        e.setdefault("status", 0)
                    if kind == "put" and req.get("global_form", "").startswith("empty"):
                        del sent["global"]  # no status is conveyed at all; the write must still not be presented as done
                        return (req["global_http"], None if req["global_form"] == "empty" else "nolength")
                    if kind == "put" and req.get("global_form") == "nolist":
                        return (req.get("global_http", 207), {"status": req["global"]})
                    return (req.get("global_http", 207) if kind == "put" else 207, {"status": req["global"], "characteristics": keep})
                g = req["garble"]
                if g == "zero207" and code == 204:
                    return 207, obj
                if g and code != 204:
                    obj = {"characteristics": _garble(g, req["gseed"], entries, eff)}
                sent["mentioned"] = {(e.get("aid"), e.get("iid")) for e in obj["characteristics"] if isinstance(e, dict) and "aid" in e and "iid" in e}
                return code, obj

            w.reply_mut = mut
            applied_before = len(w.acc.writes_applied)
            notes.clear()
            ctx.obligations += 1
            mixed = len(set(1 if s else 0 for s in req["status"])) > 1 or req["garble"] or "global" in req
            nontrivial = nontrivial or bool(mixed)
            try:
                if kind == "get":
                    res = await p.get_characteristics(ids)
                else:
                    res = await p.put_characteristics([(a, i, v) for (a, i), v in zip(ids, req["values"])])
            except Exception as e:  # noqa: BLE001
                garb = req["garble"] or ("global" if "global" in req else "plain")
                if kind == "put":
                    applied_x = {(a, i) for (_, a, i, _) in w.acc.writes_applied[applied_before:]}
                    told = set()
                    for ev in notes:
                        told |= set(ev.keys())
                    if set(ids) - applied_x and not (told - applied_x):
                        # "(or the call fails)": a write with a rejected characteristic may fail as a whole, as long as no
                        # listener was told of a value the accessory did not accept
                        ctx.probe("put_failed_as_a_whole")
                        ctx.event("req", idx, "put failed as a whole", type(e).__name__)
                        # the library may have abandoned the connection (an unparseable reply): let it reconnect before the next
                        # request - what happens on a dropped connection is C08/C10's subject, not this property's
                        await asyncio.sleep(5.0)
                        continue
                ctx.violate(f"{kind}-raises", f"ip/{type(e).__name__}/{garb}", f"ip {kind} {ids} with statuses {req['status']} garble={req['garble']} raised {e!r}")
                ctx.event("req", idx, "raised", type(e).__name__)
                # the connection may have been dropped by the library; carry on with the next request
                continue
            eff = sent.get("eff", {})
            ctx.event("req", idx, kind, sorted(res.items(), key=str)[:4].__repr__()[:80])
            if kind == "get":
                for i in ids:
                    e = eff.get(i)
                    mentioned = i in sent.get("mentioned", set(ids))
                    got = res.get(i)
                    if mentioned:
                        if got is None:
                            ctx.violate("get-missing", "ip", f"ip get: {i} mentioned in the reply but absent from the result {res}")
                        elif e:  # accessory reported an error status
                            if got.get("status") != e:
                                ctx.violate("get-status", "ip", f"ip get: {i} accessory status {e}, reported {got}")
                        else:
                            if "value" not in got or got["value"] != w.acc.values[i] or got.get("status", 0) != 0:
                                ctx.violate("get-value", "ip", f"ip get: {i} accessory value {w.acc.values[i]!r}, reported {got}")
                    elif "global" in sent:
                        if got is None or got.get("status") != sent["global"]:
                            ctx.violate("get-global", "ip", f"ip get: {i} not mentioned, request-wide status {sent['global']} expected, got {got}")
            else:
                applied = {(a, i) for (_, a, i, _) in w.acc.writes_applied[applied_before:]}
                rejected = set(ids) - applied
                for i in rejected:
                    got = res.get(i)
                    true_status = eff.get(i, st.get(i))
                    if "global" in sent and i not in sent.get("mentioned", set()):
                        true_status = sent["global"]  # the only status the reply conveys for it is the request-wide one
                    if got is None or not got.get("status"):
                        ctx.violate("put-rejected-presented-as-written", "ip", f"ip put: {i} was rejected by the accessory (status {true_status}) but reported as {got}")
                    elif true_status and got.get("status") != true_status:
                        ctx.violate("put-status", "ip", f"ip put: {i} accessory status {true_status}, reported {got}")
                for i in applied:
                    got = res.get(i)
                    if got is not None and got.get("status"):
                        ctx.violate("put-accepted-reported-failed", "ip", f"ip put: {i} was applied by the accessory but reported {got}")
                notified = set()
                for ev in notes:
                    notified |= set(ev.keys())
                want = {i for i in applied if i in readable}
                if notified != want:
                    ctx.violate("put-listener-notifications", "ip/" + ("missing" if want - notified else "extra"),
                                f"ip put {ids}: accessory accepted {sorted(applied)} (readable {sorted(want)}), listeners were notified for {sorted(notified)}; "
                                f"reply code {'207' if eff and any(eff.values()) or req['garble'] == 'zero207' else '204'}")
                else:
                    for ev in notes:
                        for k, v in ev.items():
                            if v.get("value") != w.acc.values[k]:
                                ctx.violate("put-listener-value", "ip", f"listener told {k}={v} but accessory holds {w.acc.values[k]!r}")
            ctx.state(kind, tuple(sorted(set(1 if s else 0 for s in req["status"]))), req["garble"], "global" in req)
        await p.shutdown()

    try:
        loop.run_sim(main())
    except SimDeadlock as e:
        ctx.violate("deadlock", "", str(e))
    finally:
        w.finish()
    sample = {"transport": "ip", "reqs": [(q["kind"], q["ids"], q["status"], q["garble"], q.get("global")) for q in plan["reqs"]][:5]}
    return result_of(ctx, nontrivial=nontrivial, sim_time=loop.time(), sample=sample, units=len(plan["ops"]))


def _newval(c):
    if c.fmt == "bool":
        return not c.value
    if c.fmt == "string":
        return str(c.value) + "x"
    if c.fmt == "data":
        return "0c0d"
    if c.fmt == "float":
        return float(c.value) + 1.0
    return c.value + 1


def execute_coap(plan: dict, ch: Chooser) -> dict:
    from worlds import coap as wcoap

    ctx = Ctx(ch)
    from simkit import seams

    seams.begin(ctx)
    loop = SimLoop(max_iterations=200_000)
    ctx.loop = loop
    acc, rec = wcoap.standard_accessory(ch)
    wcoap.CoapWorld(ctx, loop, acc)
    nontrivial = False

    async def main():
        nonlocal nontrivial
        p = wcoap.make_pairing(rec)
        await p.list_accessories_and_characteristics()
        notes: list = []
        p.dispatcher_connect(lambda ev: notes.append(dict(ev)))
        pool = [c for c in acc.all_chars() if c.iid >= 0x100 + 50]
        for idx in plan["ops"]:
            req = plan["reqs"][idx]
            chars = [pool[i % len(pool)] for i in req["pick"]]
            st = req["status"]
            armed = {"on": True}

            def item_plan(i, opcode, iid, st=st, armed=armed):
                if armed["on"] and i < len(st) and st[i]:
                    return {"status": st[i]}
                return None

            acc.item_plan = item_plan
            notes.clear()
            applied0 = len(acc.writes_applied)
            before = {c.iid: c.value for c in chars}
            ctx.obligations += 1
            nontrivial = nontrivial or len(set(bool(x) for x in st)) > 1
            try:
                if req["kind"] == "get":
                    res = await p.get_characteristics([(1, c.iid) for c in chars])
                else:
                    res = await p.put_characteristics([(1, c.iid, _newval(c)) for c in chars])
            except Exception as e:  # noqa: BLE001
                ctx.violate(f"{req['kind']}-raises", f"coap/{type(e).__name__}", f"coap {req['kind']} with statuses {st} raised {e!r}")
                return
            finally:
                armed["on"] = False
            ctx.event("coap-req", idx, req["kind"], st)
            if req["kind"] == "get":
                for c, s_ in zip(chars, st):
                    got = res.get((1, c.iid))
                    err = s_ or ("pr" not in c.perms)
                    if err:
                        if got is None or not got.get("status"):
                            ctx.violate("get-status", "coap", f"coap get: iid {c.iid} failed on the accessory (status {s_}, perms {c.perms}) but reported {got}")
                    elif got is None or got.get("value") != before[c.iid]:
                        ctx.violate("get-value", "coap", f"coap get: iid {c.iid} accessory value {before[c.iid]!r}, reported {got}")
            else:
                applied = {iid for iid, _ in acc.writes_applied[applied0:]}
                for c in chars:
                    got = res.get((1, c.iid))
                    if c.iid not in applied and (got is None or not got.get("status")):
                        ctx.violate("put-rejected-presented-as-written", "coap", f"coap put: iid {c.iid} (perms {c.perms}) was rejected but reported {got}")
                    if c.iid in applied and got is not None and got.get("status"):
                        ctx.violate("put-accepted-reported-failed", "coap", f"coap put: iid {c.iid} was applied but reported {got}")
                notified = set()
                for ev in notes:
                    notified |= {k[1] for k in ev}
                want = {c.iid for c in chars if c.iid in applied and "pr" in c.perms}
                if notified != want:
                    ctx.violate("put-listener-notifications", "coap/" + ("missing" if want - notified else "extra"),
                                f"coap put statuses {st}: accessory accepted {sorted(applied)} (readable {sorted(want)}), listeners notified for {sorted(notified)}")
            ctx.state("coap", req["kind"], tuple(bool(x) for x in st))

    try:
        loop.run_sim(main())
    except SimDeadlock as e:
        ctx.violate("deadlock", "coap", str(e))
    finally:
        seams.end()
    return result_of(ctx, nontrivial=nontrivial, sim_time=loop.time(), sample={"transport": "coap", "reqs": plan["reqs"][:4]}, units=len(plan["ops"]))


def execute_ble(plan: dict, ch: Chooser) -> dict:
    import bleak  # noqa: F401

    from refimpl import ble_accessory as ba
    from refimpl import crypto as RC
    from refimpl import hap
    from simkit import seams
    from worlds import ble as wble
    from worlds import disc

    ctx = Ctx(ch)
    seams.begin(ctx)
    seams.install_ble()
    disc.install()
    wble.install()
    loop = SimLoop(max_iterations=400_000)
    ctx.loop = loop
    ident = hap.AccessoryIdentity("aa:bb:cc:dd:ee:13", ch.nbytes("ltsk", 32))
    ios_ltsk = ch.nbytes("ios", 32)
    fmts = ["bool", "uint8", "int", "float", "string", "uint16", "uint32", "data"]
    chars = []
    for k in range(8):
        perms = ("pr", "pw", "ev") if k % 4 != 3 else (("pw",) if k == 3 else ("pr", "ev"))
        if k == 5:
            perms = ("pr", "pw", "tw")
        val = {"bool": True, "uint8": 10, "int": 100, "float": 0.5, "string": "s", "uint16": 300, "uint32": 70000, "data": "0a0b"}[fmts[k]]
        chars.append(ba.GChar(f"000002{0xA0 + k:02X}" + ba.BASE, 50 + k, fmts[k], perms=perms, value=val))
    svc = ba.GService("00000043" + ba.BASE, 48, chars)
    acc = ba.BleAccessory(ident, {"ios-1": RC.ed_pub(ios_ltsk)}, ba.standard_services([svc]), eph=lambda w, n: ch.nbytes("acc." + w, n))
    link = wble.SimLink(ctx, "00:11:22:33:44:13", acc, {"mtu": 247})
    acc.frag_size = 244
    nontrivial = False

    async def main():
        nonlocal nontrivial
        from aiohomekit.characteristic_cache import CharacteristicCacheMemory
        from aiohomekit.controller.ble.controller import BleController

        c = BleController(char_cache=CharacteristicCacheMemory())
        await c.async_start()
        dev, adv = disc.ble_objects("00:11:22:33:44:13", "SimBLE", {76: disc.regular_advert("aa:bb:cc:dd:ee:13", gsn=1, cn=1)})
        c._device_detected(dev, adv)
        rec = {"AccessoryPairingID": "aa:bb:cc:dd:ee:13", "AccessoryLTPK": ident.ltpk.hex(), "iOSPairingId": "ios-1", "iOSDeviceLTSK": ios_ltsk.hex(),
               "iOSDeviceLTPK": RC.ed_pub(ios_ltsk).hex(), "Connection": "BLE", "AccessoryAddress": "00:11:22:33:44:13"}
        p = c.load_pairing("alias", rec)
        await p.list_accessories_and_characteristics()
        notes: list = []
        p.dispatcher_connect(lambda ev: notes.append(dict(ev)))
        for idx in plan["ops"]:
            req = plan["reqs"][idx]
            cs = [chars[i % len(chars)] for i in req["pick"]]
            st = req["status"]
            acc.status_plan = {((ba.OP_READ if req["kind"] == "get" else ba.OP_WRITE), c_.iid): s_ for c_, s_ in zip(cs, st) if s_}
            for c_, s_ in zip(cs, st):
                if s_ and "tw" in c_.perms:
                    acc.status_plan[(ba.OP_TIMED_WRITE, c_.iid)] = s_
            notes.clear()
            applied0 = len(acc.writes_applied)
            before = {c_.iid: c_.value for c_ in cs}
            ctx.obligations += 1
            nontrivial = nontrivial or len(set(bool(x) for x in st)) > 1
            res, exc = None, None
            drops0 = link.drops
            if req.get("drop_after"):
                link.drop_at_op = link.ops + req["drop_after"]
            try:
                if req["kind"] == "get":
                    res = await p.get_characteristics([(1, c_.iid) for c_ in cs])
                else:
                    res = await p.put_characteristics([(1, c_.iid, _newval(c_)) for c_ in cs])
            except Exception as e:  # noqa: BLE001
                exc = e
            link.drop_at_op = None
            dropped = link.drops > drops0
            if dropped:
                ctx.probe("ble_link_dropped_inside_request")
                if exc is None:
                    ctx.probe("ble_request_retried_transparently_after_drop")
            acc.status_plan = {}
            if dropped and exc is not None:
                # the request failed as a whole because of the injected link loss: nothing to compare (a later request still must
                # not present anything wrongly); make sure the pairing can carry on
                ctx.event("ble-req", idx, req["kind"], st, "failed-after-drop", type(exc).__name__)
                told = set()
                for ev in notes:
                    told |= {k[1] for k in ev}
                extra = told - {iid for iid, _ in acc.writes_applied[applied0:]}
                if extra:
                    ctx.violate("put-listener-notifications", "ble/extra", f"ble put failed after a link loss ({exc!r}) but listeners were told of {sorted(extra)}, which the accessory never accepted")
                continue
            ctx.event("ble-req", idx, req["kind"], st, type(exc).__name__ if exc else None)
            applied = {iid for iid, _ in acc.writes_applied[applied0:]}
            if req["kind"] == "get":
                if exc is not None:
                    ctx.violate("get-raises", f"ble/{type(exc).__name__}", f"ble get with statuses {st} raised {exc!r}")
                    return
                for c_, s_ in zip(cs, st):
                    got = res.get((1, c_.iid))
                    if s_ or "pr" not in c_.perms:
                        if got is not None and "value" in got:
                            ctx.violate("get-status", "ble", f"ble get: iid {c_.iid} failed on the accessory (status {s_}) but a value was reported: {got}")
                        elif got is None:
                            ctx.probe("ble_failed_read_omitted_from_result")
                            if s_:
                                ctx.violate("get-omitted", "ble", f"ble get: the accessory rejected the read of iid {c_.iid} with PDU status {s_}; the result {res} carries neither "
                                                                  f"a value nor a status for it")
                    elif got is None or got.get("value") != before[c_.iid]:
                        if c_.fmt != "float":
                            ctx.violate("get-value", "ble", f"ble get: iid {c_.iid} accessory value {before[c_.iid]!r}, reported {got}")
            else:
                for c_ in cs:
                    got = (res or {}).get((1, c_.iid))
                    if c_.iid not in applied and exc is None and (got is None or not got.get("status")):
                        ctx.violate("put-rejected-presented-as-written", "ble", f"ble put: iid {c_.iid} (perms {c_.perms}) was not applied but the call returned {res} without raising")
                    if c_.iid in applied and got is not None and got.get("status"):
                        ctx.violate("put-accepted-reported-failed", "ble", f"ble put: iid {c_.iid} was applied but reported {got}")
                notified = set()
                for ev in notes:
                    notified |= {k[1] for k in ev}
                want = {c_.iid for c_ in cs if c_.iid in applied and "pr" in c_.perms}
                if notified != want:
                    ctx.violate("put-listener-notifications", "ble/" + ("missing" if want - notified else "extra"),
                                f"ble put statuses {st}: accessory accepted {sorted(applied)} (readable {sorted(want)}), listeners notified for {sorted(notified)}; exception {exc!r}")
                if exc is not None:
                    ctx.probe("ble_put_raised_" + type(exc).__name__)
            ctx.state("ble", req["kind"], tuple(bool(x) for x in st))
        await p.shutdown()

    try:
        loop.run_sim(main())
    except SimDeadlock as e:
        ctx.violate("deadlock", "ble", str(e))
    finally:
        seams.end()
    return result_of(ctx, nontrivial=nontrivial, sim_time=loop.time(), sample={"transport": "ble", "reqs": plan["reqs"][:4]}, units=len(plan["ops"]))
