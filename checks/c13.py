"""C13 - reads and writes report per-characteristic outcomes faithfully (IP, CoAP, BLE).

The accessory (reference peer) decides per characteristic whether a read/write succeeds and with
which status, and may garble the reply in the ways the property names.  Oracle = the peer's
ground truth (which writes it applied, which status it sent for which id).
"""

from __future__ import annotations

import asyncio
import json
import random

from simkit.core import Chooser, Ctx, result_of
from simkit.loop import SimDeadlock, SimLoop

PROP = "C13"
LEVEL = "exploration"
RULE = (
    "one run = a secure session (transport chosen by seed: IP over simulated TCP, CoAP over the simulated aiocoap context, BLE over "
    "simulated GATT) and 3-8 sequential requests; each request = 1-4 characteristics over 1-2 accessory ids with readable / "
    "write-only / timed-write permissions; the accessory draws a status vector per request (0, each defined HAP code, positive-signed, "
    "unknown codes), 204 vs 207 (incl. all-zero 207), request-wide status with partial lists, and reply garbling: duplicated, non-dict, "
    "id-less, missing entries. Oracles on the peer's ground truth: read -> every id the reply mentions has the accessory's value or status, "
    "unmentioned ids get the request-wide status; write -> every rejected id reported non-zero or call raises, no accepted id reported "
    "non-zero, listener notifications == accepted AND readable; garbled entries never raise. Non-trivial = a request with a mixed status "
    "vector or garbling; distinct by event-log digest."
)
REAL = ["aiohomekit.controller.ip.pairing (get/put_characteristics, format_characteristic_list)", "aiohomekit.protocol.statuscodes",
        "aiohomekit.controller.coap.pairing/connection (read/write result mapping)", "aiohomekit.controller.ble.pairing put/get", "full IP stack as in C08"]
STUB = ["TCP / aiocoap message layer / bleak backend (simulated)", "accessories (reference peers)"]
ASSUMPTIONS = [
    "entries that carry ids but no status are outside the stated quantifier: generated only as a non-deciding probe",
    "a reply that omits the entry of a rejected characteristic cannot be reported faithfully by any controller; garbling never removes entries of rejected ids",
]
TIERS = {"quick": {"runs": 30000, "wall": 55}, "thorough": {"runs": 300000, "wall": 1500}}

CODES = [-70401, -70402, -70403, -70404, -70405, -70406, -70407, -70408, -70409, -70410, -70411, -70412]


def gen_plan(seed: int, tier: str) -> dict:
    r = random.Random(seed)
    transport = "ip"
    reqs = []
    for _ in range(r.randint(3, 8)):
        kind = r.choice(["get", "put", "put"])
        n = r.choice([1, 2, 2, 3, 4])
        pool = [(a, 10 + k) for a in (1, 2) for k in range(12)]
        ids = r.sample(pool, n)
        vec = []
        mode = r.choice(["all_ok", "mixed", "mixed", "all_fail", "global"])
        for _i in ids:
            if mode == "all_ok":
                st = 0
            elif mode == "all_fail":
                st = r.choice(CODES)
            else:
                st = r.choice([0, 0, r.choice(CODES), r.choice([70402, 70410]), r.choice([-70499, -1, 12345, -7])])
            vec.append(st)
        garble = r.choice([None, None, None, "dup", "nondict", "idless", "missing_ok", "zero207", "reorder"])
        req = {"kind": kind, "ids": [list(i) for i in ids], "status": vec, "garble": garble, "gseed": r.randrange(10**6)}
        if mode == "global":
            req["global"] = r.choice(CODES + [-70499])
            req["global_keep"] = r.randrange(0, n + 1)
        if kind == "put":
            req["values"] = [r.choice([True, False, 0, 1, 55, "s"]) for _ in ids]
        reqs.append(req)
    return {"transport": transport, "reqs": reqs, "ops": list(range(len(reqs))), "seg": r.choice(["whole", "random", "halves"]),
            "frame": r.choice(["max", "mixed"])}


def execute(plan: dict, ch: Chooser) -> dict:
    if plan["transport"] == "ip":
        return execute_ip(plan, ch)
    raise ValueError(plan["transport"])


def _garble(kind, gseed, entries: list, statuses: dict) -> list:
    r = random.Random(gseed)
    out = list(entries)
    if kind == "dup" and out:
        e = r.choice(out)
        out.insert(r.randrange(len(out) + 1), dict(e))
    elif kind == "nondict":
        out.insert(r.randrange(len(out) + 1), r.choice([True, False, None, 7, "x", [1]]))
    elif kind == "idless":
        out.insert(r.randrange(len(out) + 1), r.choice([{"status": -70402}, {"aid": 1, "status": -70402}, {"iid": 10, "value": 3}, {}]))
    elif kind == "missing_ok":
        oks = [e for e in out if isinstance(e, dict) and statuses.get((e.get("aid"), e.get("iid")), 0) == 0]
        if oks and len(out) > 1:
            out.remove(r.choice(oks))
    elif kind == "reorder":
        r.shuffle(out)
    return out


def execute_ip(plan: dict, ch: Chooser) -> dict:
    from worlds.ip import IpWorld

    ctx = Ctx(ch)
    loop = SimLoop(max_iterations=100_000)
    w = IpWorld(ctx, loop, {"hosts": [["10.0.0.1", "genuine"]], "seg": plan["seg"], "frame": plan["frame"], "n_chars": 12})
    nontrivial = False

    async def main():
        nonlocal nontrivial
        p = w.make_pairing()
        notes: list = []
        p.dispatcher_connect(lambda ev: notes.append(dict(ev)))
        for idx in plan["ops"]:
            req = plan["reqs"][idx]
            ids = [tuple(i) for i in req["ids"]]
            st = {i: s for i, s in zip(ids, req["status"])}
            readable = {i for i in ids if "pr" in w.acc.perms[i]}
            writable = {i for i in ids if "pw" in w.acc.perms[i]}
            kind = req["kind"]
            w.status_plan = {("r" if kind == "get" else "w", a, i): s for (a, i), s in st.items() if s}
            sent: dict = {}

            def mut(k, code, obj, req=req, st=st, sent=sent):
                entries = obj["characteristics"]
                eff = {(e["aid"], e["iid"]): e.get("status", 0) for e in entries}
                sent["eff"] = eff
                if "global" in req:
                    keep = entries[: req["global_keep"]]
                    sent["eff"] = {(e["aid"], e["iid"]): e.get("status", 0) for e in keep}
                    sent["global"] = req["global"]
                    sent["mentioned"] = set(sent["eff"])
                    for e in keep:
                        e.setdefault("status", 0)
                    return (207, {"status": req["global"], "characteristics": keep})
                g = req["garble"]
                if g == "zero207" and code == 204:
                    return 207, obj
                if g and code != 204:
                    obj = {"characteristics": _garble(g, req["gseed"], entries, eff)}
                sent["mentioned"] = {(e.get("aid"), e.get("iid")) for e in obj["characteristics"] if isinstance(e, dict) and "aid" in e and "iid" in e}
                return code, obj

            w.reply_mut = mut
            applied_before = len(w.acc.writes_applied)
            notes.clear()
            ctx.obligations += 1
            mixed = len(set(1 if s else 0 for s in req["status"])) > 1 or req["garble"] or "global" in req
            nontrivial = nontrivial or bool(mixed)
            try:
                if kind == "get":
                    res = await p.get_characteristics(ids)
                else:
                    res = await p.put_characteristics([(a, i, v) for (a, i), v in zip(ids, req["values"])])
            except Exception as e:  # noqa: BLE001
                garb = req["garble"] or ("global" if "global" in req else "plain")
                ctx.violate(f"{kind}-raises", f"ip/{type(e).__name__}/{garb}", f"ip {kind} {ids} with statuses {req['status']} garble={req['garble']} raised {e!r}")
                ctx.event("req", idx, "raised", type(e).__name__)
                # the connection may have been dropped by the library; carry on with the next request
                continue
            eff = sent.get("eff", {})
            ctx.event("req", idx, kind, sorted(res.items(), key=str)[:4].__repr__()[:80])
            if kind == "get":
                for i in ids:
                    e = eff.get(i)
                    mentioned = i in sent.get("mentioned", set(ids))
                    got = res.get(i)
                    if mentioned:
                        if got is None:
                            ctx.violate("get-missing", "ip", f"ip get: {i} mentioned in the reply but absent from the result {res}")
                        elif e:  # accessory reported an error status
                            if got.get("status") != e:
                                ctx.violate("get-status", "ip", f"ip get: {i} accessory status {e}, reported {got}")
                        else:
                            if "value" not in got or got["value"] != w.acc.values[i] or got.get("status", 0) != 0:
                                ctx.violate("get-value", "ip", f"ip get: {i} accessory value {w.acc.values[i]!r}, reported {got}")
                    elif "global" in sent:
                        if got is None or got.get("status") != sent["global"]:
                            ctx.violate("get-global", "ip", f"ip get: {i} not mentioned, request-wide status {sent['global']} expected, got {got}")
            else:
                applied = {(a, i) for (_, a, i, _) in w.acc.writes_applied[applied_before:]}
                rejected = set(ids) - applied
                for i in rejected:
                    got = res.get(i)
                    true_status = eff.get(i, st.get(i))
                    if "global" in sent and i not in sent.get("mentioned", set()):
                        continue  # reply does not mention it; request-wide status on writes is not specified by the property
                    if got is None or not got.get("status"):
                        ctx.violate("put-rejected-presented-as-written", "ip", f"ip put: {i} was rejected by the accessory (status {true_status}) but reported as {got}")
                    elif true_status and got.get("status") != true_status:
                        ctx.violate("put-status", "ip", f"ip put: {i} accessory status {true_status}, reported {got}")
                for i in applied:
                    got = res.get(i)
                    if got is not None and got.get("status"):
                        ctx.violate("put-accepted-reported-failed", "ip", f"ip put: {i} was applied by the accessory but reported {got}")
                notified = set()
                for ev in notes:
                    notified |= set(ev.keys())
                want = {i for i in applied if i in readable}
                if "global" in sent:
                    pass
                elif notified != want:
                    ctx.violate("put-listener-notifications", "ip/" + ("missing" if want - notified else "extra"),
                                f"ip put {ids}: accessory accepted {sorted(applied)} (readable {sorted(want)}), listeners were notified for {sorted(notified)}; "
                                f"reply code {'207' if eff and any(eff.values()) or req['garble'] == 'zero207' else '204'}")
                else:
                    for ev in notes:
                        for k, v in ev.items():
                            if v.get("value") != w.acc.values[k]:
                                ctx.violate("put-listener-value", "ip", f"listener told {k}={v} but accessory holds {w.acc.values[k]!r}")
            ctx.state(kind, tuple(sorted(set(1 if s else 0 for s in req["status"]))), req["garble"], "global" in req)
        await p.shutdown()

    try:
        loop.run_sim(main())
    except SimDeadlock as e:
        ctx.violate("deadlock", "", str(e))
    finally:
        w.finish()
    sample = {"transport": "ip", "reqs": [(q["kind"], q["ids"], q["status"], q["garble"], q.get("global")) for q in plan["reqs"]][:5]}
    return result_of(ctx, nontrivial=nontrivial, sim_time=loop.time(), sample=sample, units=len(plan["ops"]))
