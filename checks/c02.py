"""C02 - SRP-6a client values equal those of a spec-conformant accessory.

Narrow simulation target (no scheduling dimension): a two-party exchange whose only simulator
contributions are the entropy seam (os.urandom inside aiohomekit.crypto.srp) and an in-flight
corruption injector.  The real perform_pair_setup_part1/part2 (hence SrpClient through its byte-level
API) talk to the reference SRP server over the message pipe; a directed entropy source picks secrets
for which A, B, S, K, M1 or M2 start with 0x00, and leading-zero / all-zero salts.
"""

from __future__ import annotations

import json
import os
import random

from checks import c03
from refimpl import crypto as RC
from refimpl import hap, tlv8
from simkit import seams
from simkit.core import Chooser, Ctx, result_of

PROP = "C02"
LEVEL = "exploration"
RULE = (
    "one run = one SRP exchange (setup code, 16-byte salt, client secret a via the os.urandom seam, server secret b from the seed) through the "
    "real pair-setup generators against the reference SRP-6a server. Directed entropy per run: none / A starts with 0x00 (rejection sampling "
    "over a) / B starts with 0x00 (over b) / S, K, M1 or M2 start with 0x00 (committed table refimpl/srp_vectors.json found by reference-side "
    "search, plus online search in the thorough tier) / all-zero salt / leading-zero salt. Fault per run: none, single-bit corruption of the "
    "accessory proof in flight, or a wrong setup code on the controller. Oracles: controller A (384 bytes) and M1 byte-equal to the reference "
    "values for the same (I,P,s,a,B); reference accepts M1; K equal (the reference decrypts M5 under its own K); controller accepts the "
    "accessory proof iff uncorrupted; wrong code => reference rejects M1 and pairing fails. Non-trivial = directed leading-zero case or a "
    "fault; distinct by event-log digest. probes count the leading-zero cases actually hit per kind."
)
REAL = ["aiohomekit.crypto.srp.SrpClient (via perform_pair_setup_part1/2)", "aiohomekit.protocol.tlv", "aiohomekit.crypto.hkdf/chacha20poly1305 (M5)"]
STUB = ["accessory SRP server (reference, RFC 5054 + HomeKit fixed-width padding)", "entropy seam", "message pipe"]
ASSUMPTIONS = [
    "RFC 5054 fixes k=H(N|PAD(g)), u=H(PAD(A)|PAD(B)); the widths of A,B,S inside M1 and K=H(S) follow the HomeKit rule (fixed 384 bytes) - cannot be cross-checked against Apple's implementation offline",
    "no scheduling dimension: the simulator contributes entropy control and in-flight corruption only",
]
TIERS = {"quick": {"runs": 1500, "wall": 55}, "thorough": {"runs": 150000, "wall": 1500}}

_VEC = None


def vectors():
    global _VEC
    if _VEC is None:
        p = os.path.join(os.path.dirname(os.path.dirname(os.path.abspath(__file__))), "refimpl", "srp_vectors.json")
        _VEC = {}
        for v in json.load(open(p)):
            _VEC.setdefault(v["kind"], []).append(v)
    return _VEC


def gen_plan(seed: int, tier: str) -> dict:
    r = random.Random(seed)
    kind = r.choice(["none", "none", "A0", "A0", "B0", "salt_zero", "salt_lead0", "S0", "S0", "M1_0", "M2_0", "K0"])
    fault = r.choice([None, None, None, "proof_bit", "wrong_code"])
    plan = {"driver": "pipe-ip" if r.random() < 0.7 else "pipe-ble", "code": "%03d-%02d-%03d" % (r.randrange(1000), r.randrange(100), r.randrange(1000)),
            "mut": None, "mseed": r.randrange(10**9), "acc_id": "AA:BB:CC:00:11:22", "with_auth": False, "directed": kind, "fault": fault,
            "bit": r.randrange(512), "ops": []}
    if kind in ("S0", "M1_0", "M2_0", "K0"):
        v = r.choice(vectors()[kind])
        plan.update(code=v["code"], salt_hex=v["salt"], b_hex=v["b"], a_hex=v["a"])
    elif kind == "salt_zero":
        plan["salt_hex"] = "00" * 16
    elif kind == "salt_lead0":
        plan["salt_hex"] = "00" * r.choice([1, 2, 15]) + bytes(r.randrange(1, 256) for _ in range(16)).hex()[: 32 - 2 * 1]
        plan["salt_hex"] = plan["salt_hex"][:32].ljust(32, "7")
    return plan


def execute(plan: dict, ch: Chooser) -> dict:
    ctx = Ctx(ch)
    seams.begin(ctx)
    try:
        kind = plan["directed"]
        code = plan["code"]
        # ---- directed entropy ---------------------------------------------------------
        if plan.get("a_hex"):
            a_bytes = bytes.fromhex(plan["a_hex"])
        else:
            a_bytes = ch.nbytes("a", 16)
            if kind == "A0":
                for i in range(3000):
                    cand = ch.nbytes("a.search", 16)
                    if RC.PAD(pow(RC.G, int.from_bytes(cand, "big"), RC.N))[0] == 0:
                        a_bytes = cand
                        break
        if kind == "B0" and not plan.get("b_hex"):
            salt = bytes.fromhex(plan["salt_hex"]) if plan.get("salt_hex") else None
            # the salt drawn inside run_exchange is ch.nbytes("srp_salt"): fix it here so v is known
            if salt is None:
                salt = ch.nbytes("srp_salt.fixed", 16)
                plan = dict(plan, salt_hex=salt.hex())
            v = pow(RC.G, RC.srp_x(salt, b"Pair-Setup", code.encode()), RC.N)
            for i in range(3000):
                b = int.from_bytes(ch.nbytes("b.search", 32), "big")
                if RC.PAD((RC.K_MULT * v + pow(RC.G, b, RC.N)) % RC.N)[0] == 0:
                    plan = dict(plan, b_hex=hex(b))
                    break
        calls = []

        def urandom_hook(n):
            calls.append(n)
            return a_bytes if (n == 16 and len(calls) == 1) else None

        fault = plan["fault"]
        controller_code = None
        if fault == "wrong_code":
            controller_code = "000-00-001" if code != "000-00-001" else "000-00-002"
        p = dict(plan)
        if fault == "proof_bit":
            p["mut"] = "m4_bit_proof"
        out = c03.run_exchange(p, ch, ctx, urandom_hook=urandom_hook, controller_code=controller_code)
        setup: hap.SetupResponder = out["setup"]
        # ---- oracle -------------------------------------------------------------------------
        ctx.obligations += 1
        delivered = out["delivered"]
        # what the controller sent in M3
        sent_A = sent_M1 = None
        if setup.srp is not None and hasattr(setup.srp, "A_bytes_raw"):
            sent_A = setup.srp.A_bytes_raw
        ref = RC.srp_client_values(controller_code or code, setup.salt, int.from_bytes(a_bytes, "big"), setup.srp.B_bytes if setup.srp else b"")
        ref_A, ref_S, ref_K, ref_M1, ref_M2 = ref
        lead = [n for n, v in (("A", ref_A), ("B", setup.srp.B_bytes if setup.srp else b"\x01"), ("S", ref_S), ("K", ref_K), ("M1", ref_M1), ("M2", ref_M2)) if v[0] == 0]
        if setup.salt[0] == 0:
            lead.append("salt")
        for n in lead:
            ctx.probe("leading_zero_" + n)
        m3 = getattr(setup, "_last_m3", None)
        if sent_A is None:
            ctx.violate("no-m3", "", f"controller never sent M3 ({out['exc']!r})")
        else:
            if sent_A != ref_A:
                ctx.violate("A-differs", "len%d" % len(sent_A), f"controller A ({len(sent_A)} bytes) != reference A for the same a (leading zeros: {lead})")
            # the accessory computed M1 from the delivered A; with a correct code it must verify
            if fault != "wrong_code":
                if not setup.m3_ok:
                    ctx.violate("M1-rejected", "+".join(lead) or "plain",
                                f"reference accessory rejects the controller proof M1 (leading-zero values: {lead}; driver {plan['driver']})")
            else:
                if setup.m3_ok:
                    ctx.violate("wrong-code-accepted", "", "a controller using a wrong setup code produced a proof the reference accessory accepts")
        if fault is None:
            if out["result"] is None:
                ctx.violate("honest-exchange-failed", type(out["exc"]).__name__ + ":" + ("+".join(lead) or "plain"),
                            f"honest SRP exchange failed: {out['exc']!r}; leading zeros {lead}; accessory m3_ok={setup.m3_ok} m5_ok={setup.m5_ok} {setup.m5_reason}")
            elif not setup.m5_ok:
                ctx.violate("K-differs", "+".join(lead) or "plain", f"reference cannot open M5 under its K: {setup.m5_reason}")
        elif fault == "proof_bit":
            if out["result"] is not None:
                ctx.violate("corrupted-proof-accepted", "", f"controller accepted an accessory proof with bit {plan['bit']} flipped")
            elif type(out["exc"]).__name__ != "AuthenticationError":
                ctx.probe("proof_bit_other_exception_" + type(out["exc"]).__name__)
        else:
            if out["result"] is not None:
                ctx.violate("wrong-code-paired", "", "pairing completed with a wrong setup code")
        ctx.event("wire", __import__("hashlib").blake2b(b"|".join(out["delivered"]), digest_size=8).hexdigest())
        ctx.event("srp", kind, fault, lead, out["result"] is not None, type(out["exc"]).__name__ if out["exc"] else None)
        ctx.state(kind, fault, tuple(lead))
    finally:
        seams.end()
    sample = {"directed": plan["directed"], "fault": plan["fault"], "leading_zero": lead, "outcome": "paired" if out["result"] is not None else repr(out["exc"])[:60]}
    return result_of(ctx, nontrivial=bool(lead) or plan["fault"] is not None, sample=sample)
