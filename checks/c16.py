"""C16 - structured TLV8 messages: structures received from accessories + BLE/Thread send path.

Claimed scope (see MANIFEST level_note): the second sentence of the property - BLE characteristic and
service signatures (incl. the packed list of 16-bit linked-service ids) and the CoAP accessory
database as decoded by the real controllers from messages produced by conformant (reference)
accessories over simulated fragmenting links - plus the BleRequest structure on the send path.
The reflection over every TLVStruct subclass is a pure codec property and is not claimed.
"""

from __future__ import annotations

import random

from refimpl import ble_accessory as ba
from refimpl import crypto as RC
from refimpl import hap
from simkit import seams
from simkit.core import Chooser, Ctx, result_of
from simkit.loop import SimDeadlock, SimLoop

PROP = "C16"
LEVEL = "exploration"
RULE = (
    "seeded modes. ble: the real BlePairing fetches the GATT database (service instance ids, characteristic instance id descriptors, "
    "characteristic and service signature reads) from a reference accessory with 1-4 extra services whose instance ids are arbitrary 16-bit "
    "values (every byte value incl. 0x00/0xFF positions), 0-6 linked services each, service properties, 1-6 characteristics per service with "
    "every format, units, ranges, steps, user descriptions up to >255 bytes, over a link with seeded MTU and response fragmentation; then reads "
    "values. coap: the real CoAPPairing connects and lists accessories from a reference-encoded database (1-3 accessories x services x "
    "characteristics, containers crossing 255/510 bytes, 00 00 separated lists, linked services). Oracle: the entity map the controller builds "
    "(types, iids, perms, format, unit, min/max/step, links, values) equals the accessory's ground truth; every BleRequest body the accessory "
    "received is canonical TLV8. Non-trivial = >=2 linked services somewhere, a description >= 100 bytes, or a container > 255 bytes."
)
REAL = ["aiohomekit.tlv8 (tlv_iterator, tlv_array, (de)serialisers, TLVStruct.decode/encode)", "aiohomekit.controller.ble.structs (Characteristic, Service, BleRequest)",
        "aiohomekit.controller.ble.pairing._async_fetch_gatt_database/_read_signature + client.py + pdu.py", "aiohomekit.controller.coap.structs (Pdu09Database ...) + connection/pairing (coap)",
        "aiohomekit.model (Accessories/Service/Characteristic)"]
STUB = ["GATT link / bleak backend (SimGATT)", "aiocoap message layer (SimCoAP)", "accessories (reference encoders)"]
ASSUMPTIONS = ["claimed for structures received from accessories and BleRequest only; reflection over every TLVStruct subclass / camera structures (pure codec) is not claimed",
               "CoAP database layout is known only from what the library expects (Apple's Thread transport is not publicly specified): the reference cannot expose a symmetric misunderstanding"]
TIERS = {"quick": {"runs": 12000, "wall": 55}, "thorough": {"runs": 100000, "wall": 1500}}

FMT = ["bool", "uint8", "uint16", "uint32", "uint64", "int", "float", "string", "data"]
IID_POOL = [2, 255, 256, 257, 0x1000, 0x7F00, 0xFF00, 0xFFFE, 1000, 4660, 0x0A0D, 300, 511, 512, 0x00C8, 0x1001]
TYPES = ["00000043", "00000049", "0000008A", "00000080", "000000B7", "00000040"]
CTYPES = ["00000025", "00000008", "00000013", "0000002F", "00000011", "000000CE", "0000000A", "00000023", "00000033", "000000F3"]


def gen_plan(seed: int, tier: str) -> dict:
    r = random.Random(seed)
    if r.random() < 0.35:
        return gen_coap(r)
    n_svc = r.choice([1, 2, 3, 4])
    iids = r.sample(IID_POOL, n_svc)
    services = []
    next_char_iid = 0x40
    for k in range(n_svc):
        chars = []
        for _ in range(r.choice([1, 2, 3, 6])):
            fmt = r.choice(FMT)
            c = {"type": r.choice(CTYPES), "iid": next_char_iid, "fmt": fmt, "perms": r.sample(["pr", "pw", "ev", "tw", "hd", "aa"], r.choice([1, 2, 3, 4])),
                 "unit": r.choice([None, None, "celsius", "percentage", "lux", "seconds", "arcdegrees"]) if fmt in ("uint8", "int", "float", "uint16", "uint32") else None,
                 "disconnected": r.random() < 0.2, "broadcast": r.random() < 0.2, "desc": r.choice([None, None, "Brightness", "d" * 19, "x" * 100, "y" * 254, "z" * 255, "w" * 256, "v" * 300])}
            if fmt in ("uint8", "uint16", "uint32", "uint64", "int", "float") and r.random() < 0.6:
                lo, hi = {"uint8": (0, 200), "uint16": (10, 60000), "uint32": (0, 2**31), "uint64": (1, 2**40), "int": (-100, 100), "float": (0.5, 360.0)}[fmt]
                c["min"], c["max"] = lo, hi
                if r.random() < 0.6:
                    c["step"] = {"float": 0.5}.get(fmt, 1)
            c["value"] = {"bool": True, "uint8": 7, "uint16": 300, "uint32": 70000, "uint64": 2**33, "int": -5, "float": 1.5, "string": r.choice(["", "name", "ü" * 10]), "data": "0a0b"}[fmt]
            chars.append(c)
            next_char_iid += r.choice([1, 1, 3, 0x100])
        others = [i for i in iids if i != iids[k]] + [1, 16]
        n_link = r.choice([0, 0, 1, 2, 3, min(6, len(others))])
        services.append({"type": TYPES[k % len(TYPES)], "iid": iids[k], "chars": chars, "linked": r.sample(others, min(n_link, len(others))),
                         "primary": r.random() < 0.3, "hidden": r.random() < 0.2, "sig_iid": next_char_iid})
        next_char_iid += 1
    return {"mode": "ble", "services": services, "mtu": r.choice([23, 100, 158, 247, 512]), "policy": r.choice(["max", "max", "header_only_first", "random"]), "ops": [],
            "write_lens": r.sample([0, 1, 254, 255, 256, 509, 510, 511, 765, 766], r.choice([0, 1, 2, 3]))}


def gen_coap(r: random.Random) -> dict:
    accs = []
    for aid in range(1, r.choice([1, 1, 2, 3]) + 1):
        n_svc = r.choice([1, 2, 3, 4])
        iids = r.sample([x for x in IID_POOL if x > 40], n_svc)
        svcs = []
        nxt = 0x40 + 0x1000 * (aid - 1)
        for k in range(n_svc):
            chars = []
            for _ in range(r.choice([1, 2, 3, 6])):
                fmt = r.choice(["bool", "uint8", "uint16", "uint32", "int", "float", "string", "data"])
                c = {"type": r.choice(CTYPES), "iid": nxt, "fmt": fmt, "perms": r.sample(["pr", "pw", "ev", "tw", "hd", "aa"], r.choice([1, 2, 3])),
                     "unit": r.choice([None, "celsius", "percentage", "lux"]) if fmt in ("uint8", "int", "float") else None,
                     "desc": r.choice([None, None, "Brightness", "x" * 100, "y" * 254, "z" * 255, "w" * 256, "v" * 300])}
                if fmt in ("uint8", "uint16", "uint32", "int", "float") and r.random() < 0.5:
                    c["min"], c["max"] = {"uint8": (0, 200), "uint16": (10, 60000), "uint32": (0, 2**31), "int": (-100, 100), "float": (0.5, 360.0)}[fmt]
                    if r.random() < 0.5:
                        c["step"] = {"float": 0.5}.get(fmt, 1)
                c["value"] = {"bool": True, "uint8": 7, "uint16": 300, "uint32": 70000, "int": -5, "float": 1.5, "string": r.choice(["n", "name", "ü" * 10]), "data": "0a0b"}[fmt]
                chars.append(c)
                nxt += r.choice([1, 1, 3, 0x100])
            others = [i for i in iids if i != iids[k]]
            svcs.append({"type": TYPES[k % len(TYPES)], "iid": iids[k], "chars": chars, "linked": r.sample(others, min(r.choice([0, 0, 1, 2, 3]), len(others))), "props": r.choice([0, 0, 1, 2])})
        accs.append({"aid": aid, "services": svcs})
    return {"mode": "coap", "accessories": accs, "ops": []}


def build_services(plan) -> list[ba.GService]:
    extra = []
    for s in plan["services"]:
        chars = [ba.GChar(ba.CH_SERVICE_SIGNATURE, s["sig_iid"], "data", perms=("pr",), value=b"")]
        for c in s["chars"]:
            chars.append(ba.GChar(c["type"] + ba.BASE, c["iid"], c["fmt"], perms=tuple(c["perms"]), value=c["value"], unit=c["unit"], minv=c.get("min"), maxv=c.get("max"),
                                  step=c.get("step"), description=c["desc"], disconnected=c["disconnected"], broadcast=c["broadcast"]))
        extra.append(ba.GService(s["type"] + ba.BASE, s["iid"], chars, linked=list(s["linked"]), primary=s["primary"], hidden=s["hidden"]))
    # one writable string characteristic for BleRequest bodies whose value field has a boundary length
    extra.append(ba.GService("000000F8" + ba.BASE, 9000, [ba.GChar("000000F9" + ba.BASE, 9001, "string", perms=("pr", "pw"), value="w")]))
    return ba.standard_services(extra)


def execute(plan: dict, ch: Chooser) -> dict:
    import bleak  # noqa: F401

    if plan["mode"] == "coap":
        return execute_coap(plan, ch)
    from worlds import ble as wble
    from worlds import disc

    ctx = Ctx(ch)
    seams.begin(ctx)
    seams.install_ble()
    disc.install()
    wble.install()
    loop = SimLoop(max_iterations=600_000)
    ctx.loop = loop
    ident = hap.AccessoryIdentity("aa:bb:cc:dd:ee:16", ch.nbytes("ltsk", 32))
    ios_ltsk = ch.nbytes("ios", 32)
    services = build_services(plan)
    acc = ba.BleAccessory(ident, {"ios-1": RC.ed_pub(ios_ltsk)}, services, eph=lambda w, n: ch.nbytes("acc." + w, n), frag=ba.FragPolicy(plan["policy"], chooser=ch))
    link = wble.SimLink(ctx, "00:11:22:33:44:16", acc, {"mtu": plan["mtu"]})
    acc.frag_size = max(plan["mtu"], 100) - 3
    nontrivial = any(len(s["linked"]) >= 2 for s in plan["services"]) or any((c["desc"] or "") and len(c["desc"]) >= 100 for s in plan["services"] for c in s["chars"])

    async def main():
        from aiohomekit.characteristic_cache import CharacteristicCacheMemory
        from aiohomekit.controller.ble.controller import BleController

        c = BleController(char_cache=CharacteristicCacheMemory())
        await c.async_start()
        dev, adv = disc.ble_objects("00:11:22:33:44:16", "SimBLE", {76: disc.regular_advert("aa:bb:cc:dd:ee:16", gsn=1, cn=1)})
        c._device_detected(dev, adv)
        rec = {"AccessoryPairingID": "aa:bb:cc:dd:ee:16", "AccessoryLTPK": ident.ltpk.hex(), "iOSPairingId": "ios-1", "iOSDeviceLTSK": ios_ltsk.hex(),
               "iOSDeviceLTPK": RC.ed_pub(ios_ltsk).hex(), "Connection": "BLE", "AccessoryAddress": "00:11:22:33:44:16"}
        p = c.load_pairing("alias", rec)
        decoded_sigs: dict[int, dict] = {}
        orig_read_sig = p._read_signature

        async def read_sig_spy(char, op_code, iid, tlv_struct):  # harness-side view of what the signature structs decoded to
            out = await orig_read_sig(char, op_code, iid, tlv_struct)
            decoded_sigs[iid] = dict(out)
            return out

        p._read_signature = read_sig_spy
        try:
            await p.list_accessories_and_characteristics()
        except Exception as e:  # noqa: BLE001
            links = [len(s["linked"]) for s in plan["services"]]
            ctx.violate("database-fetch-failed", f"{type(e).__name__}/max_links={min(max(links), 2)}",
                        f"GATT database fetch from a conformant accessory failed: {e!r}; linked-service counts {links}, mtu {plan['mtu']}, policy {plan['policy']}; accessory errors {acc.protocol_errors[:2]}")
            await p.shutdown()
            return
        ctx.obligations += 1
        got_acc = p.accessories.aid(1)
        for s in services:
            gs = None
            for cand in got_acc.services:
                if cand.iid == s.iid:
                    gs = cand
            if gs is None:
                ctx.violate("entity-map-differs", "service-missing", f"service iid {s.iid} ({s.uuid[:8]}) missing from the entity map")
                continue
            if gs.type.upper() != s.uuid.upper():
                ctx.violate("entity-map-differs", "service-type", f"service iid {s.iid}: type {gs.type} != {s.uuid}")
            want_links = sorted(s.linked)
            got_links = sorted(x.iid for x in gs.linked)
            if s.uuid != ba.SVC_PAIRING and got_links != want_links and any(c.uuid == ba.CH_SERVICE_SIGNATURE for c in s.chars):
                ctx.violate("entity-map-differs", f"links/{min(len(want_links), 3)}", f"service iid {s.iid}: linked services decoded as {got_links}, accessory encoded {want_links}")
            for ch_ in s.chars:
                if s.uuid == ba.SVC_PAIRING:
                    continue
                gc = next((x for x in gs.characteristics if x.iid == ch_.iid), None)
                if gc is None:
                    ctx.violate("entity-map-differs", "char-missing", f"characteristic iid {ch_.iid} missing")
                    continue
                want = ch_.expected_dict()
                got = {"iid": gc.iid, "type": gc.type.upper(), "perms": [x for x in ("pr", "pw", "ev", "aa", "tw", "hd") if x in gc.perms], "format": str(gc.format)}
                if gc.unit and str(gc.unit) not in ("unitless",):
                    got["unit"] = str(gc.unit)
                if gc.minValue is not None or gc.maxValue is not None:
                    got["minValue"], got["maxValue"] = gc.minValue, gc.maxValue
                if gc.minStep is not None:
                    got["minStep"] = gc.minStep
                if gc.disconnected_events:
                    got["disconnected_events"] = True
                if gc.broadcast_events:
                    got["broadcast_events"] = True
                want.pop("unit", None) if "unit" in want and "unit" not in got and False else None
                if ch_.uuid == ba.CH_IDENTIFY:
                    want["format"] = "bool"
                # the decoded signature struct itself (what Characteristic.decode(...).to_dict() returned): unit included
                dec = decoded_sigs.get(ch_.iid)
                if dec is not None and ch_.uuid != ba.CH_IDENTIFY:
                    ctx.obligations += 1
                    ctx.probe("signature_structs_compared")
                    if (dec.get("unit") or None) != (ch_.unit or None):
                        ctx.violate("signature-decoded-differs", "unit", f"characteristic iid {ch_.iid} ({ch_.fmt}): signature unit decoded as {dec.get('unit')!r}, accessory encoded {ch_.unit!r}")
                    elif dec.get("format") != want.get("format"):
                        ctx.violate("signature-decoded-differs", "format", f"characteristic iid {ch_.iid}: signature format decoded as {dec.get('format')!r}, accessory encoded {want.get('format')!r}")
                    elif sorted(dec.get("perms", [])) != sorted(want.get("perms", [])):
                        ctx.violate("signature-decoded-differs", "perms", f"characteristic iid {ch_.iid}: signature permissions decoded as {dec.get('perms')!r}, accessory encoded {want.get('perms')!r}")
                for k in sorted(set(want) | set(got)):
                    if k == "unit":
                        continue  # the entity map built from BLE signatures does not carry the unit; the decoded struct is compared above
                    if k in ("minValue", "maxValue", "minStep") and k not in want:
                        continue  # not in the signature: the model may fill in the defaults of the characteristic type
                    if want.get(k) != got.get(k):
                        ctx.violate("entity-map-differs", f"char-{k}", f"characteristic iid {ch_.iid} ({ch_.fmt}, description {len(ch_.description or '')} B): {k} decoded as {got.get(k)!r}, accessory encoded {want.get(k)!r}")
                        break
                if "pr" in ch_.perms and ch_.uuid not in (ba.CH_SERVICE_SIGNATURE,) and ch_.fmt != "float":
                    if gc.value != ch_.value and not (ch_.fmt == "data"):
                        ctx.violate("entity-map-differs", "char-value", f"characteristic iid {ch_.iid} ({ch_.fmt}): value {gc.value!r} != {ch_.value!r}")
        if acc.protocol_errors:
            ctx.violate("request-not-canonical", "", f"reference accessory: {acc.protocol_errors[:2]}")
        # BleRequest structs on the send path: a value field of a boundary length must reach the strict peer decoder canonically
        for vlen in plan.get("write_lens", []):
            n0 = len(acc.protocol_errors)
            try:
                # twice: through put_characteristics (plain value TLV) and through client.char_write, which wraps the body in the
                # BleRequest struct (return-response flag + value field of exactly vlen bytes)
                await p.put_characteristics([(1, 9001, "u" * vlen)])
                from aiohomekit.controller.ble.client import char_write

                await p._populate_accessories_and_characteristics()
                if vlen:  # (an empty value field is omitted by the struct encoder; char_write is never used with one)
                    async with p._ble_request_lock:
                        handle = await p.client.get_characteristic("000000F8" + ba.BASE, "000000F9" + ba.BASE, 9001)
                        await char_write(p.client, p._encryption_key, p._decryption_key, handle, 9001, b"v" * vlen)
            except Exception as e:  # noqa: BLE001
                ctx.violate("ble-request-failed", type(e).__name__, f"writing a {vlen}-byte string failed: {e!r}; accessory says {acc.protocol_errors[n0:n0 + 2]}")
                break
            ctx.obligations += 1
            ctx.probe("ble_requests_with_boundary_value")
            if acc.protocol_errors[n0:]:
                ctx.violate("request-not-canonical", "ble-request-value", f"BleRequest with a {vlen}-byte value: reference accessory: {acc.protocol_errors[n0:n0 + 2]}")
                break
            if acc.find_char(9001).value != ("v" if vlen else "u") * vlen:
                ctx.violate("ble-request-value-differs", "", f"accessory holds {len(str(acc.find_char(9001).value))} bytes after a {vlen}-byte write")
                break
        ctx.event("fetched", len(services), sum(len(s.chars) for s in services), [len(s.linked) for s in services])
        ctx.state(plan["mtu"], plan["policy"], max(len(s["linked"]) for s in plan["services"]))
        await p.shutdown()

    try:
        loop.run_sim(main())
    except SimDeadlock as e:
        ctx.violate("deadlock", "ble", str(e))
    finally:
        seams.end()
    sample = {"mode": "ble", "mtu": plan["mtu"], "policy": plan["policy"], "services": [(hex(s["iid"]), s["linked"], [(c["fmt"], len(c["desc"] or "")) for c in s["chars"]]) for s in plan["services"]]}
    return result_of(ctx, nontrivial=nontrivial, sim_time=loop.time(), sample=sample)


def execute_coap(plan: dict, ch: Chooser) -> dict:
    from refimpl import coap_accessory as ca
    from worlds import coap as wcoap

    ctx = Ctx(ch)
    seams.begin(ctx)
    loop = SimLoop(max_iterations=300_000)
    ctx.loop = loop
    acc, rec = wcoap.standard_accessory(ch, n_chars=1)
    accessories = []
    for a in plan["accessories"]:
        svcs = [ca.CService("0000003E", 1 + 0x2000 * (a["aid"] - 1), [ca.CChar("00000023", 2 + 0x2000 * (a["aid"] - 1), "string", ("pr",), f"Acc{a['aid']}")])]
        if a["aid"] == 1:
            svcs.append(ca.CService("00000055", 32, [ca.CChar("00000050", 36, "data", ("pr", "pw"), b"")]))
        for s_ in a["services"]:
            # like real accessories every service carries a readable service-signature characteristic
            sig = ca.CChar("000000A5", (s_["iid"] + 0x6000 + 0x33 * a["aid"]) & 0xFFFF or 0x6001, "data", ("pr",), "")
            svcs.append(ca.CService(s_["type"], s_["iid"], [sig] + [ca.CChar(c["type"], c["iid"], c["fmt"], c["perms"], c["value"], c["unit"], c.get("min"), c.get("max"), c.get("step"), c["desc"])
                                                                    for c in s_["chars"]], linked=list(s_["linked"]), props=s_["props"]))
        accessories.append((a["aid"], svcs))
    acc.accessories = accessories
    wcoap.CoapWorld(ctx, loop, acc)
    big = len(acc.database()) > 255
    links2 = any(len(s_["linked"]) >= 1 for a in plan["accessories"] for s_ in a["services"])

    async def main():
        p = wcoap.make_pairing(rec)
        try:
            got = await p.list_accessories_and_characteristics()
        except Exception as e:  # noqa: BLE001
            implicated = any(len(s_["linked"]) >= 2 or any(i & 0xFF == 0 or i >> 8 == 0 and False for i in s_["linked"]) for a in plan["accessories"] for s_ in a["services"])
            ctx.violate("database-fetch-failed", f"coap/{type(e).__name__}/{'links-implicated' if implicated else 'other'}",
                        f"CoAP accessory database from a conformant accessory could not be listed: {e!r}; linked services {[s_['linked'] for a in plan['accessories'] for s_ in a['services']]}; errors {acc.protocol_errors[:2]}")
            return
        ctx.obligations += 1
        by_aid = {a["aid"]: a for a in got}
        for aid, svcs in accessories:
            ga = by_aid.get(aid)
            if ga is None:
                ctx.violate("entity-map-differs", "coap-accessory-missing", f"accessory {aid} missing ({sorted(by_aid)})")
                continue
            gs_by = {s_["iid"]: s_ for s_ in ga["services"]}
            for s_ in svcs:
                gs = gs_by.get(s_.iid)
                if gs is None:
                    ctx.violate("entity-map-differs", "coap-service-missing", f"aid {aid}: service iid {s_.iid} missing")
                    continue
                if int(gs["type"][:8], 16) != int(s_.type_hex, 16):
                    ctx.violate("entity-map-differs", "coap-service-type", f"service {s_.iid}: type {gs['type']} != {s_.type_hex}")
                if sorted(gs.get("linked", [])) != sorted(s_.linked):
                    zero_low = any(i & 0xFF == 0 for i in s_.linked)
                    ctx.violate("entity-map-differs", f"coap-links/{'zero-low-byte' if zero_low and len(s_.linked) == 1 else 'n=' + str(min(len(s_.linked), 2))}",
                                f"aid {aid} service iid {s_.iid}: linked services decoded as {gs.get('linked', [])}, accessory encoded {s_.linked}")
                gc_by = {c["iid"]: c for c in gs["characteristics"]}
                for c in s_.chars:
                    gc = gc_by.get(c.iid)
                    if gc is None:
                        ctx.violate("entity-map-differs", "coap-char-missing", f"characteristic iid {c.iid} missing")
                        continue
                    want = {"perms": [x for x in ("pr", "pw", "ev", "aa", "tw", "hd") if x in c.perms], "format": {"uint8": "int", "uint16": "int", "uint32": "int", "uint64": "int"}.get(c.fmt, c.fmt)}
                    if c.minv is not None and c.fmt not in ("bool", "string", "data"):
                        want["minValue"], want["maxValue"] = ba.unpack_value(c.fmt, ba.pack_value(c.fmt, c.minv)), ba.unpack_value(c.fmt, ba.pack_value(c.fmt, c.maxv))
                    if c.step is not None and c.fmt not in ("bool", "string", "data"):
                        want["minStep"] = ba.unpack_value(c.fmt, ba.pack_value(c.fmt, c.step))
                    if int(gc["type"][:8], 16) != int(c.type_hex, 16):
                        ctx.violate("entity-map-differs", "coap-char-type", f"char {c.iid}: type {gc['type']} != {c.type_hex}")
                    for k, v in want.items():
                        g = gc.get(k)
                        if k == "perms":
                            g = [x for x in ("pr", "pw", "ev", "aa", "tw", "hd") if x in (g or [])]
                        if g != v:
                            ctx.violate("entity-map-differs", f"coap-char-{k}", f"char iid {c.iid} ({c.fmt}, description {len(c.description or '')} B): {k} decoded as {g!r}, accessory encoded {v!r}")
                            break
                    if "pr" in c.perms and c.fmt not in ("float", "data") and gc.get("value") != c.value:
                        ctx.violate("entity-map-differs", "coap-char-value", f"char iid {c.iid} ({c.fmt}): value {gc.get('value')!r} != {c.value!r}")
        if acc.protocol_errors:
            ctx.violate("request-not-canonical", "coap", f"reference accessory: {acc.protocol_errors[:2]}")
        ctx.event("coap-db", len(acc.database()), [len(s_.linked) for _, sv in accessories for s_ in sv])
        ctx.state("coap", len(accessories), big)

    try:
        loop.run_sim(main())
    except SimDeadlock as e:
        ctx.violate("deadlock", "coap", str(e))
    finally:
        seams.end()
    sample = {"mode": "coap", "database_bytes": len(acc.database()), "accessories": [(a["aid"], [(hex(s_["iid"]), s_["linked"], len(s_["chars"])) for s_ in a["services"]]) for a in plan["accessories"]]}
    return result_of(ctx, nontrivial=big or links2, sim_time=loop.time(), sample=sample)
