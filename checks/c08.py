"""C08 - every request gets its own response or a prompt disconnection error (IP)."""
from __future__ import annotations

import random

from checks.ipcommon import REAL_IP, STUB_IP, execute_filtered, rnd_time

PROP = "C08"
LEVEL = "exploration"
RULE = (
    "first, every interleaving word of depth <= 3 (quick, 1110 words) / <= 4 (thorough, 11110) over {request, two concurrent requests, event burst, cancelled "
    "request, 30 s time-out, peer FIN, peer RST, unsolicited response, response delivered byte by byte, EVENT in the same read as a response}, letters 0.4 s apart so that each lands inside the "
    "effects of the previous ones, is executed once; then seeded runs: one run = real IpPairing on the simulated network; 1-4 concurrent callers issue get/put/list with unique id sets "
    "(reads are tagged by the accessory with the serial number of the request they answer); per-run swarm profile picks "
    "latency, segmentation style, response delays around the 30 s timer, stalls, truncation-by-close, EVENT bursts "
    "interleaved anywhere, caller cancellations / own timeouts at chosen instants, peer FIN/RST, unsolicited responses "
    "while idle; then faults stop and the run is judged after a quiescence interval. Non-trivial = at least one fault or "
    "non-default schedule decision fired and at least one oracle obligation was evaluated; distinct = distinct event-log digest."
)
REAL = REAL_IP
STUB = STUB_IP
ASSUMPTIONS = [
    "SimTransport reproduces CPython selector-transport semantics (DESIGN appendix B)",
    "attribution is not asserted for a connection on which an unsolicited response was injected while a request was in flight (indistinguishable in HTTP/1.1); such injections happen only while idle",
]
TIERS = {"quick": {"runs": 20000, "wall": 55}, "thorough": {"runs": 400000, "wall": 1500}}


# ---- enumerated short interleavings: every word of depth <= 3 (quick) / <= 4 (thorough) over the property's alphabet ------------
ALPHA = ["request", "two_requests", "event", "cancel", "timeout", "peer_fin", "peer_rst", "unsolicited", "request_pieces", "event_in_response_read"]


def _words(depth):
    import itertools

    return [w for d in range(1, depth + 1) for w in itertools.product(ALPHA, repeat=d)]


ENUM3 = _words(3)
ENUM4 = ENUM3 + [w for w in _words(4) if len(w) == 4]


def enum_plan(word) -> dict:
    """letters are 0.4 s apart, so a letter lands while the effects of the previous ones (a stalled request, a pending
    close, a reconnect) are still in progress; 'timeout' stalls the accessory for 31 s after its request"""
    ops = [{"op": "get", "ids": [[1, 10]], "t": 0.0}]
    t = 1.0
    k = 0
    for a in word:
        k += 1
        ids = [[1, 10 + k]]
        if a == "request":
            ops.append({"op": "get", "ids": ids, "t": t})
        elif a == "two_requests":
            ops.append({"op": "get", "ids": ids, "t": t})
            ops.append({"op": "put", "items": [[2, 12 + k, k]], "t": t})
        elif a == "event":
            ops.append({"op": "event", "n": 2, "ids": [[1, 10]], "raw": None, "t": t})
        elif a == "cancel":
            ops.append({"op": "get", "ids": ids, "t": t, "cancel_after": 0.001})
        elif a == "timeout":
            ops.append({"op": "stall", "on": True, "t": t})
            ops.append({"op": "get", "ids": ids, "t": round(t + 0.001, 3)})
            ops.append({"op": "stall", "on": False, "t": round(t + 31.0, 3)})
        elif a in ("peer_fin", "peer_rst"):
            ops.append({"op": a[5:], "t": t})
        elif a == "unsolicited":
            ops.append({"op": "unsolicited", "t": t})
        elif a == "request_pieces":
            ops.append({"op": "get", "ids": ids + [[2, 20 + k]], "t": t})
        elif a == "event_in_response_read":
            # the accessory sends an EVENT right behind the response; both arrive in one read (one data_received call)
            ops.append({"op": "event", "n": 1, "ids": [[1, 10]], "raw": None, "after_response": True, "t": t})
            ops.append({"op": "get", "ids": ids, "t": round(t + 0.001, 3)})
        t = round(t + 0.4, 3)
    profile = {"hosts": [["10.0.0.1", "genuine"]], "lat": [0.002, 0.002], "seg": "bytes" if "request_pieces" in word else "whole", "gap": 0.001 if "request_pieces" in word else 0.0,
               "frame": "max", "n_chars": 24}
    heal_at = t + 70.0
    return {"profile": profile, "ops": sorted(ops, key=lambda o: o["t"]), "listeners": {"L0": {}}, "heal_at": heal_at, "end_at": heal_at + 80.0, "heal_probe": 2, "enumerated": list(word)}


def gen_plan(seed: int, tier: str, enumerate_first: bool = True) -> dict:
    from simkit.harness import SEED_STRIDE

    idx = seed % SEED_STRIDE
    enum = ENUM3 if tier == "quick" else ENUM4
    if enumerate_first and idx < len(enum):
        return enum_plan(enum[idx])
    r = random.Random(seed)
    faulty = r.random() < 0.85
    profile = {
        "hosts": [["10.0.0.1", "genuine"]],
        "lat": [0.0005, r.choice([0.0005, 0.01, 0.2, 2.0])],
        "seg": r.choice(["whole", "whole", "random", "bytes", "halves", "prefix"]),
        "gap": r.choice([0.0, 0.0, 0.05, 1.0, 20.0]),
        "frame": r.choice(["max", "mixed", 1, 16, 1023]),
        "zero_latency": r.choice([0, 0, 0.3]),
        "n_chars": 24,
        "rst_window_hops": r.choice([0, 0, 1, 3]),
        "coalesce": r.choice([0, 0, 0.3, 1.0]),  # sends still in flight may share one read with the next send
    }
    if faulty:
        profile["resp_delay"] = [r.choice([0.0, 0.2, 0.5]), r.choice([0.0, 5.0, 29.0, 29.9]), r.choice([10.0, 30.0, 30.1, 31.0, 45.0])]
        profile["resp_stall_p"] = r.choice([0.0, 0.0, 0.1, 0.3])
        profile["truncate_p"] = r.choice([0.0, 0.0, 0.1, 0.3])
        profile["slow_drain"] = r.choice([0.0, 0.0, 0.3, 0.7])
        profile["slow_drain_max"] = r.choice([5.0, 40.0])
    horizon = r.choice([2.0, 10.0, 40.0, 90.0])
    nops = r.randint(3, 22)
    ops = []
    readable = [(a, 10 + k) for a in (1, 2) for k in range(24) if k % 6 != 4]
    writable = [(a, 10 + k) for a in (1, 2) for k in range(24) if k % 6 != 3]
    r.shuffle(readable)
    r.shuffle(writable)
    for _ in range(nops):
        t = rnd_time(r, horizon)
        x = r.random()
        op = None
        if x < 0.45 and readable:
            n = min(len(readable), r.choice([1, 1, 2, 3]))
            ids = [list(readable.pop()) for _ in range(n)]
            op = {"op": "get", "ids": ids}
        elif x < 0.55 and writable:
            a, i = writable.pop()
            op = {"op": "put", "items": [[a, i, r.randrange(1000)]]}
        elif x < 0.58:
            op = {"op": "list"}
        elif x < 0.72:
            op = {"op": "event", "n": r.choice([1, 1, 2, 5]), "ids": [[1, 10 + r.randrange(3)]], "raw": r.choice([None, None, None, "empty", "nonjson"])}
            if r.random() < 0.3:
                op["after_response"] = True  # goes out right behind the next secure response, in the same read
        elif faulty and x < 0.80:
            op = {"op": r.choice(["rst", "fin"])}
            if op["op"] == "rst" and profile.get("rst_window_hops"):
                op["then"] = r.choice([{"op": "cancel_call"}, {"op": "cancel_call"}, {"op": "get", "ids": [[1, 10]]}, {"op": "close"}])
                op["then_ticks"] = r.choice([0, 0, 1, 2])
        elif faulty and x < 0.84:
            op = {"op": "unsolicited"}
        elif faulty and x < 0.88:
            op = {"op": "stall", "on": r.random() < 0.6}
        else:
            continue
        if op["op"] in ("get", "put", "list") and faulty:
            y = r.random()
            if y < 0.2:
                op["cancel_after"] = r.choice([0.0, 0.0005, 0.001, 0.002, 0.5, 5.0, 29.999, 30.0])
            elif y < 0.3:
                op["own_timeout"] = r.choice([0.001, 0.5, 5.0, 12.0, 30.0])
        op["t"] = t
        ops.append(op)
    ops.sort(key=lambda o: o["t"])
    heal_at = horizon + 35.0
    return {"profile": profile, "ops": ops, "listeners": {"L0": {}}, "heal_at": heal_at, "end_at": heal_at + 80.0, "heal_probe": 2}


def execute(plan, ch):
    return execute_filtered(plan, ch, ("C08.",))
