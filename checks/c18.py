"""C18 - BLE broadcast notifications are accepted only if authentic and fresh.

World ble (advert path): real BleController._device_detected -> BlePairing._async_notification with a
pairing restored from the characteristic cache (broadcast key, state number) and listeners attached;
a seeded history of encrypted advertisements from an independent broadcast encryptor / forger.
Oracle: an independent executable model of the acceptance rule evaluated on the delivered bytes.
"""

from __future__ import annotations

import asyncio
import random
import struct

from cryptography.hazmat.primitives.ciphers import Cipher, algorithms
from cryptography.hazmat.primitives.ciphers.aead import ChaCha20Poly1305

from simkit import seams
from simkit.core import Chooser, Ctx, result_of
from simkit.loop import SimLoop
from worlds import disc

PROP = "C18"
LEVEL = "exploration"
RULE = (
    "one run = a BLE pairing restored from the cache (broadcast key from the seed) whose last accepted state number g0 is set by a regular "
    "advertisement (g0 from {0,1,2,99,100,65434..65535, random}); then a seeded history of 3-30 encrypted advertisements over {genuine g+1, g+k "
    "(k<100), g (replay), g-k, g+100.., exact replay of an earlier accepted advert, wrong key, wrong advertising id (own pairing's key), single-bit "
    "flip anywhere in payload or 4-byte tag, inner counter != nonce counter, truncated / extended payload, duplicate delivery, regular adverts "
    "in between}, characteristic formats bool/uint8/uint16/uint32/uint64/int/float/data with seeded values. Oracle = independent model "
    "(own ChaCha20 + Poly1305 via `cryptography`) evaluated on the delivered bytes: accept iff the 4-byte tag authenticates under the pairing's "
    "key and this advertising id for the first n in (g+1, g, g+2..g+99) and n != g and inner counter == n; accepted => each listener called exactly "
    "once with {(1,iid): decoded value} and description.state_num == n; otherwise no listener call and no state change; callback never raises. "
    "Non-trivial = history contains an accepted and a rejected non-genuine advert; distinct by event-log digest."
)
REAL = ["aiohomekit.controller.ble.controller.BleController._device_detected", "aiohomekit.controller.ble.manufacturer_data.HomeKitEncryptedNotification",
        "aiohomekit.controller.ble.pairing.BlePairing (_async_notification, cache restore)", "aiohomekit.controller.ble.key.BroadcastDecryptionKey",
        "aiohomekit.crypto.chacha20poly1305.ChaCha20Poly1305PartialTag", "aiohomekit.controller.ble.values.from_bytes"]
STUB = ["BleakScanner (adverts are delivered by calling the detection callback)", "accessory broadcast encryptor / forger (independent)"]
ASSUMPTIONS = ["state numbers are compared as integers without wrap-around (what the code implements; the property does not specify wrap)",
               "string-format characteristics are not broadcast in the deciding profile (8-byte padding convention unspecified)"]
TIERS = {"quick": {"runs": 2200, "wall": 55}, "thorough": {"runs": 400000, "wall": 1500}}

FORMATS = ["bool", "uint8", "uint16", "uint32", "uint64", "int", "float", "data"]
DEV = "aa:bb:cc:dd:ee:18"


def db():
    chars = []
    for k, f in enumerate(FORMATS):
        chars.append({"iid": 20 + k, "type": "00000025-0000-1000-8000-0026BB765291" if k == 0 else f"0000010{k}-0000-1000-8000-0026BB765291",
                      "perms": ["pr", "ev"], "format": f, "value": None})
    proto = {"iid": 5, "type": "000000A2-0000-1000-8000-0026BB765291", "characteristics": [
        {"iid": 6, "type": "00000037-0000-1000-8000-0026BB765291", "perms": ["pr"], "format": "string", "value": "2.2.0"},
        {"iid": 7, "type": "000000A5-0000-1000-8000-0026BB765291", "perms": ["pr"], "format": "data", "value": None}]}
    return [{"aid": 1, "services": [proto, {"iid": 10, "type": "00000043-0000-1000-8000-0026BB765291", "characteristics": chars}]}]


def gen_plan(seed: int, tier: str) -> dict:
    r = random.Random(seed)
    g0 = r.choice([0, 1, 2, 99, 100, 65434, 65435, 65500, 65534, 65535, r.randrange(65536), r.randrange(65536)])
    ops = []
    for _ in range(r.randint(3, 30)):
        kind = r.choice(["next", "next", "next", "skip", "skip", "current", "older", "beyond", "replay_exact", "wrong_key", "wrong_adv_id", "bitflip", "bitflip",
                         "inner_mismatch", "truncate", "extend", "duplicate", "duplicate_skip", "regular", "other_device", "rekey", "superseded_key", "superseded_key"])
        op = {"kind": kind, "k": r.randrange(2, 100), "far": r.choice([100, 101, 150, 1000, 40000]), "back": r.randrange(1, 50), "fmt": r.randrange(len(FORMATS)),
              "val": r.randrange(2**63), "bit": r.randrange(16 * 8), "n": r.randrange(0, 16), "delta": r.choice([1, -1, 2, 255, 256])}
        ops.append(op)
    return {"g0": g0, "ops": ops, "listeners": r.choice([1, 2, 3]), "raising": r.random() < 0.3}


def value_bytes(fmt: str, val: int) -> tuple[bytes, object]:
    """8-byte broadcast value field + the value a listener must see"""
    if fmt == "bool":
        return bytes([val & 1]) + bytes(7), bool(val & 1)
    if fmt == "uint8":
        return struct.pack("<B", val & 0xFF) + bytes(7), val & 0xFF
    if fmt == "uint16":
        return struct.pack("<H", val & 0xFFFF) + bytes(6), val & 0xFFFF
    if fmt == "uint32":
        return struct.pack("<I", val & 0xFFFFFFFF) + bytes(4), val & 0xFFFFFFFF
    if fmt == "uint64":
        return struct.pack("<Q", val), val
    if fmt == "int":
        v = (val & 0xFFFFFFFF) - (1 << 32 if val & 0x80000000 else 0)
        return struct.pack("<i", v) + bytes(4), v
    if fmt == "float":
        f = struct.unpack("<f", struct.pack("<f", (val % 100000) / 8.0))[0]
        return struct.pack("<f", f) + bytes(4), f
    raw = struct.pack("<Q", val)
    return raw, raw.hex()


def seal_broadcast(key: bytes, adv_id: bytes, nonce_gsn: int, inner_gsn: int, iid: int, value8: bytes) -> bytes:
    pt = struct.pack("<HH", inner_gsn & 0xFFFF, iid) + value8
    nonce = b"\x00\x00\x00\x00" + struct.pack("<Q", nonce_gsn)
    full = ChaCha20Poly1305(key).encrypt(nonce, pt, adv_id)
    return full[: len(pt)] + full[len(pt) : len(pt) + 4]


def model_open(key: bytes, adv_id: bytes, n: int, payload: bytes):
    """independent partial-tag open: plaintext if the first 4 tag bytes match, else None"""
    if len(payload) < 4:
        ct, tag = b"", payload
    else:
        ct, tag = payload[:-4], payload[-4:]
    nonce = b"\x00\x00\x00\x00" + struct.pack("<Q", n)
    dec = Cipher(algorithms.ChaCha20(key, struct.pack("<I", 1) + nonce), mode=None).decryptor()
    pt = dec.update(ct)
    full_tag = ChaCha20Poly1305(key).encrypt(nonce, pt, adv_id)[-16:]
    if len(tag) == 4 and full_tag[:4] == tag:
        return pt
    if len(tag) < 4 and full_tag.startswith(tag):  # what a prefix comparison of a shorter tag would accept
        return pt
    return None


def execute(plan: dict, ch: Chooser) -> dict:
    import bleak  # noqa: F401

    from aiohomekit.characteristic_cache import CharacteristicCacheMemory

    ctx = Ctx(ch)
    seams.begin(ctx)
    seams.install_ble()
    disc.install()
    loop = SimLoop(max_iterations=50_000)
    ctx.loop = loop
    key = ch.nbytes("broadcast_key", 32)
    other_key = ch.nbytes("other_key", 32)
    adv_id = bytes.fromhex(DEV.replace(":", ""))
    other_id = bytes.fromhex("aabbccddee99")
    accepted_any = rejected_any = False

    async def main():
        nonlocal accepted_any, rejected_any, key
        from aiohomekit.controller.ble.controller import BleController

        cache = CharacteristicCacheMemory()
        cache.async_create_or_update_map(DEV, 1, db(), key.hex(), 7)
        c = BleController(char_cache=cache)
        rec = {"AccessoryPairingID": DEV, "AccessoryLTPK": "11" * 32, "iOSPairingId": "x", "iOSDeviceLTSK": "22" * 32, "iOSDeviceLTPK": "33" * 32,
               "Connection": "BLE", "AccessoryAddress": "00:11:22:33:44:18"}
        p = c.load_pairing("alias", rec)
        logs = []
        for li in range(plan["listeners"]):
            log: list = []
            logs.append(log)

            def listener(ev, log=log, li=li):
                log.append(dict(ev))
                if plan["raising"] and li == 0:
                    raise RuntimeError("listener failure injected")

            p.dispatcher_connect(listener)

        seen_dev: list = []

        def deliver(mfr: bytes, what: str):
            dev, ad = disc.ble_objects("00:11:22:33:44:18", "Dev", {76: mfr})
            if seen_dev:
                dev = seen_dev[0]  # as bleak's scanner does: one BLEDevice object per address for every advertisement
            else:
                seen_dev.append(dev)
            try:
                c._device_detected(dev, ad)
            except Exception as e:  # noqa: BLE001
                ctx.violate("callback-raises", f"{what}/{type(e).__name__}", f"{what} advert made the scanner callback raise {e!r}")

        # last accepted state number set by a regular advertisement
        g = plan["g0"]
        deliver(disc.regular_advert(DEV, gsn=g, cn=1), "regular")
        if p.description is None or p.description.state_num != g:
            ctx.violate("setup", "", f"regular advert did not set state number {g}: {p.description}")
            return
        history: list[tuple[bytes, int]] = []  # accepted genuine adverts (payload, n)
        old_keys: list[bytes] = []  # broadcast keys superseded by a re-key
        for i, op in enumerate(plan["ops"]):
            kind = op["kind"]
            fmt = FORMATS[op["fmt"]]
            iid = 20 + op["fmt"]
            v8, want_val = value_bytes(fmt, op["val"])
            use_key, use_id, n_nonce = key, adv_id, g + 1
            inner = None
            if kind == "rekey":
                # a new session re-derives the broadcast key (real _async_set_broadcast_encryption_key; the GATT request it makes and
                # the session's derive function are harness stubs): from now on only the new key is valid
                new_key = ch.nbytes("rekey", 32)

                async def no_request(*a, **k):
                    return b""

                p._async_request_under_lock = no_request
                p._derive = lambda salt, info, length=32, _k=new_key: _k
                try:
                    async with p._operation_lock:
                        await p._async_set_broadcast_encryption_key()
                except Exception as e:  # noqa: BLE001
                    ctx.violate("rekey-raises", type(e).__name__, f"setting a new broadcast key raised {e!r}")
                    return
                old_keys.append(key)
                key = new_key
                ctx.probe("rekeyed")
                ctx.event("rekey", i)
                if p.broadcast_key != new_key:
                    ctx.violate("rekey-not-stored", "", "pairing.broadcast_key is not the newly derived key")
                continue
            if kind == "regular":
                # a regular advert with the same numbers must not disturb anything
                before = [len(x) for x in logs]
                deliver(disc.regular_advert(DEV, gsn=p.description.state_num, cn=1), "regular")
                if [len(x) for x in logs] != before:
                    ctx.violate("regular-advert-notifies", "", "a regular advertisement produced a listener call")
                continue
            if kind in ("skip", "duplicate_skip"):
                n_nonce = g + op["k"]
            elif kind == "current":
                n_nonce = g
            elif kind == "older":
                n_nonce = max(0, g - op["back"])
            elif kind == "beyond":
                n_nonce = g + op["far"]
            elif kind == "wrong_key":
                use_key = other_key
            elif kind == "superseded_key":
                use_key = old_keys[op["n"] % len(old_keys)] if old_keys else other_key
            elif kind in ("wrong_adv_id", "other_device"):
                use_id = other_id
            elif kind == "inner_mismatch":
                inner = (n_nonce + op["delta"]) & 0xFFFF
                if inner == (n_nonce & 0xFFFF):
                    inner = (inner + 1) & 0xFFFF
            payload = seal_broadcast(use_key, use_id, n_nonce, n_nonce if inner is None else inner, iid, v8)
            if kind == "replay_exact" and history:
                payload = history[op["n"] % len(history)][0]
            if kind == "bitflip":
                ba = bytearray(payload)
                ba[(op["bit"] // 8) % len(ba)] ^= 1 << (op["bit"] % 8)
                payload = bytes(ba)
            elif kind == "truncate":
                payload = payload[: op["n"] % len(payload)]
            elif kind == "extend":
                payload = payload + bytes([op["n"]])
            # manufacturer data: 11 | len | advertising id (6) | payload.  'wrong_adv_id': sealed for another id but sent under ours;
            # 'other_device': sent under the other id (no pairing loaded for it)
            wire_id = other_id if kind == "other_device" else adv_id
            mfr = bytes([0x11, 0x20 | ((6 + len(payload)) & 0x1F)]) + wire_id + payload
            # ---- model on the delivered bytes ----------------------------------------------------
            expect = None
            if wire_id == adv_id:
                for n in [g + 1, g] + list(range(g + 2, g + 100)):
                    pt = model_open(key, adv_id, n, payload)
                    if pt is None:
                        continue
                    if n == g:
                        break
                    if len(pt) >= 2 and int.from_bytes(pt[0:2], "little") == n and len(pt) >= 12:
                        expect = (n, int.from_bytes(pt[2:4], "little"), pt[4:12])
                    elif len(pt) >= 2 and int.from_bytes(pt[0:2], "little") == n:
                        expect = ("short", n)
                    break
            before = [len(x) for x in logs]
            state_before = p.description.state_num
            for rep in range(2 if kind in ("duplicate", "duplicate_skip") else 1):
                deliver(mfr, kind)  # both copies inside one callback of the loop: several reports buffered when the scanner's reader runs
            # judged once the loop is idle again, not inside the scanner callback: an implementation may finish the work in later
            # loop iterations (call_soon) as long as the outcome is right
            for _ in range(12):
                await asyncio.sleep(0)
            ctx.obligations += 1
            after = [len(x) for x in logs]
            ctx.event("adv", i, kind, expect is not None and expect[0] != "short", p.description.state_num)
            if expect is not None and expect[0] == "short":
                ctx.probe("authentic_but_short_plaintext")
                g = p.description.state_num
                continue
            if expect is None:
                if kind not in ("next", "skip", "duplicate_skip"):
                    rejected_any = True
                if after != before or p.description.state_num != state_before:
                    ctx.violate("forged-or-stale-accepted", kind,
                                f"advert #{i} ({kind}, nonce counter {n_nonce}, last accepted {g}) must be ignored but listeners got {[a - b for a, b in zip(after, before)]} "
                                f"call(s) and state number went {state_before} -> {p.description.state_num}")
                    g = p.description.state_num
            else:
                n, eiid, ev8 = expect
                accepted_any = True
                efmt = FORMATS[eiid - 20] if 20 <= eiid < 20 + len(FORMATS) else None
                if efmt is None:
                    ctx.probe("authentic_unknown_iid")
                    g = p.description.state_num
                    continue
                _, ewant = value_bytes(efmt, int.from_bytes(ev8, "little")) if efmt not in ("float",) else (None, struct.unpack("<f", ev8[:4])[0])
                if efmt == "bool":
                    ewant = ev8[0] != 0
                elif efmt == "data":
                    ewant = ev8.hex()
                elif efmt == "int":
                    ewant = struct.unpack("<i", ev8[:4])[0]
                if p.description.state_num != n:
                    ctx.violate("genuine-not-accepted" if p.description.state_num == state_before else "state-number-wrong", kind,
                                f"advert #{i} ({kind}) authentic for state number {n} (last accepted {g}) but description.state_num is {p.description.state_num}")
                for li, log in enumerate(logs):
                    new = log[before[li]:]
                    if len(new) != 1:
                        ctx.violate("listener-calls", f"{kind}/{len(new)}", f"advert #{i} ({kind}) accepted: listener {li} got {len(new)} calls (expected exactly 1)")
                    elif list(new[0].keys()) != [(1, eiid)] or new[0][(1, eiid)].get("value") != ewant:
                        ctx.violate("listener-value", efmt, f"advert #{i} ({kind}, {efmt}): listener {li} got {new[0]} expected {{(1, {eiid}): {{'value': {ewant!r}}}}}")
                if kind in ("next", "skip", "duplicate_skip"):
                    history.append((payload, n))
                g = p.description.state_num
        ctx.state(plan["g0"] > 65400, accepted_any, rejected_any, plan["listeners"])

    try:
        loop.run_sim(main())
    finally:
        seams.end()
    sample = {"g0": plan["g0"], "history": [(o["kind"], o["k"] if o["kind"] == "skip" else None, FORMATS[o["fmt"]]) for o in plan["ops"]][:12], "listeners": plan["listeners"]}
    return result_of(ctx, nontrivial=accepted_any and rejected_any, sample=sample, units=len(plan["ops"]))
