"""C12 - subscriptions survive reconnects and every event reaches every listener once (IP)."""
from __future__ import annotations

import random

from checks.ipcommon import REAL_IP, STUB_IP, execute_filtered, rnd_time

PROP = "C12"
LEVEL = "exploration"
RULE = (
    "one run = real IpPairing on the simulated network with 1-4 listeners (some raise on every event, some are added/removed "
    "during the run, at low weight one unregisters itself from inside its callback); history of subscribe/unsubscribe calls over "
    "overlapping id sets on 2 accessory ids, peer FIN/RST and failing verifies forcing reconnect cycles at any point, event bursts "
    "(1-6 events per send, several per read or split across reads by the segmentation style, empty and non-JSON bodies). "
    "Oracles: when the background connector finishes a successful secure (re)connection the accessory's per-session registration "
    "set covers (ids of started subscribe calls) minus (ids of started unsubscribe calls) unless a subscribe request was cut off by a "
    "disconnection (polling fallback) and every listener got the connection-is-back notification; for every event whose bytes were "
    "completely delivered each listener registered at that instant was called exactly once, in send order, keyed aid.iid. "
    "Non-trivial = a fault/non-default decision fired and obligations evaluated; distinct by event-log digest."
)
REAL = REAL_IP + ["aiohomekit.controller.abstract.AbstractPairing listeners/subscriptions"]
STUB = STUB_IP
ASSUMPTIONS = [
    "'cut off by a disconnection' is recognised on the wire: a subscribe request written on a connection that ended before its response; the deciding profile never answers subscription requests with HTTP 4xx",
    "events on a connection after an injected corruption are out of scope here (C05)",
]
TIERS = {"quick": {"runs": 12000, "wall": 55}, "thorough": {"runs": 300000, "wall": 1500}}


def gen_plan(seed: int, tier: str) -> dict:
    r = random.Random(seed)
    faulty = r.random() < 0.8
    profile = {
        "hosts": [["10.0.0.1", "genuine"]],
        "lat": [0.0005, r.choice([0.0005, 0.01, 0.1])],
        "seg": r.choice(["whole", "whole", "random", "bytes", "halves", "prefix"]),
        "gap": r.choice([0.0, 0.0, 0.02]),
        "frame": r.choice(["max", "mixed", 16]),
        "zero_latency": r.choice([0, 0, 0.3]),
        "n_chars": 12,
        "coalesce": r.choice([0, 0, 0.3, 1.0]),  # a send may share one read with the previous send still in flight
    }
    if faulty:
        fw = r.choice([0.1, 0.3, 1.0])
        profile["conn_behaviour"] = {"honest": 1.0, "rst_m1": fw / 4, "close_m3": fw / 4, "bad_sig": fw / 4, "rst_after_verify": fw / 2, "fin_after_verify": fw / 2,
                                     "silent_m3": fw / 8}
        profile["slow_drain"] = r.choice([0, 0, 0.3])
    listeners = {"L0": {}}
    if r.random() < 0.6:
        listeners["L1"] = {"raises": r.random() < 0.5}
    if r.random() < 0.3:
        listeners["L2"] = {"raises": r.random() < 0.3}
    if r.random() < 0.12:
        listeners["S"] = {"self_remove": True}
    if r.random() < 0.15:
        listeners["A"] = {"adds": "A2"}
    subs_pool = [(1, 10), (1, 11), (1, 12), (2, 10), (2, 11), (2, 13), (1, 15)]
    if r.random() < 0.25:
        # a listener that answers "the connection is back" with an API call of its own - a subscription to something new, an
        # unsubscribe, a read - landing while the connector is re-subscribing on the fresh connection
        ids = sorted(r.sample(subs_pool, r.choice([1, 1, 2])))
        listeners["B"] = {"on_back": {"op": {"op": r.choice(["subscribe", "subscribe", "unsubscribe", "get"]), "ids": [list(i) for i in ids]},
                                      "ticks": r.choice([0, 0, 1, 2, 4]), "from": r.choice([1, 2, 2]), "times": r.choice([1, 1, 3])}}
    horizon = r.choice([5.0, 20.0, 60.0, 200.0])
    ops = []
    for _ in range(r.randint(4, 24)):
        t = rnd_time(r, horizon)
        x = r.random()
        if x < 0.2:
            ids = sorted(r.sample(subs_pool, r.choice([1, 2, 3, 5])))
            op = {"op": "subscribe", "ids": [list(i) for i in ids]}
        elif x < 0.27:
            ids = sorted(r.sample(subs_pool, r.choice([1, 2])))
            op = {"op": "unsubscribe", "ids": [list(i) for i in ids]}
        elif x < 0.62:
            ids = r.sample(subs_pool, r.choice([1, 1, 2]))
            op = {"op": "event", "n": r.choice([1, 1, 2, 3, 6]), "ids": [list(i) for i in ids], "raw": r.choice([None] * 6 + ["empty", "nonjson"])}
            if r.random() < 0.3:
                # right behind the next secure response (a subscription acknowledgement after a reconnect, a read), same read
                op["after_response"] = True
        elif faulty and x < 0.78:
            op = {"op": r.choice(["rst", "fin"])}
        elif x < 0.84:
            op = {"op": "add_listener", "name": r.choice(["L3", "L4"]), "raises": r.random() < 0.3}
        elif x < 0.89:
            op = {"op": "remove_listener", "name": r.choice(["L1", "L2", "L3", "L4"])}
        elif x < 0.93:
            op = {"op": "get", "ids": [[1, 10]]}
        elif x < 0.95:
            ids = sorted(r.sample(subs_pool, r.choice([1, 2])))
            op = {"op": "refuse_ev", "ids": [list(i) for i in ids], "on": r.random() < 0.65, "status": r.choice([-70402, -70403, -70412])}
        else:
            op = {"op": "desc_update", "addrs": ["10.0.0.1"], "s": r.randrange(1, 5)}
        op["t"] = t
        ops.append(op)
        if op["op"] in ("subscribe", "unsubscribe") and r.random() < 0.45:
            # a second caller changing the subscriptions while this request is still in flight (same instant, a few
            # event-loop iterations later), on other ids so that the outcome is unambiguous; later a reconnect cycle
            mine = {tuple(i) for i in op["ids"]}
            rest = [i for i in subs_pool if i not in mine]
            if rest:
                other = sorted(r.sample(rest, min(len(rest), r.choice([1, 2]))))
                ops.append({"op": "subscribe" if op["op"] == "unsubscribe" or r.random() < 0.5 else "unsubscribe", "ids": [list(i) for i in other], "t": t, "ticks": r.choice([0, 1, 2, 3, 5, 8])})
                if r.random() < 0.7:
                    ops.append({"op": r.choice(["rst", "fin"]), "t": round(t + r.choice([1.0, 3.0, 11.0]), 3)})
    ops.sort(key=lambda o: o["t"])
    if not any(o["op"] in ("subscribe", "get") for o in ops[:2]):
        ops.insert(0, {"op": "subscribe", "ids": [[1, 10], [2, 11]], "t": 0.0})
    heal_at = horizon + 12.0
    # after faults stop: one more event round on the healthy connection
    tail = [{"op": "event", "n": 2, "ids": [[1, 10]], "t": heal_at + 70.0}]
    return {"profile": profile, "ops": ops + tail, "listeners": listeners, "heal_at": heal_at, "end_at": heal_at + 80.0, "heal_probe": 1,
            "tag_reads": True, "allow_other_exceptions": True}


def execute(plan, ch):
    def sample(sc, ctx):
        return {"ops": plan["ops"][:10], "listeners": plan["listeners"], "profile": {k: plan["profile"][k] for k in ("seg", "frame", "lat")},
                "events": [(e["token"], e["delivered"], e["listeners"]) for e in sc.events][:8],
                "secure_connections": len(sc.secure_marks)}

    return execute_filtered(plan, ch, ("C12.",), sample_fn=sample)
