"""C05 - encrypted IP session framing is exact outbound and segmentation-proof inbound.

Two modes, chosen per seed:
  session : full simulated session through IpPairing (real pair-verify); requests and responses of
            boundary sizes; accessory frame-size policy; network segmentation style; single-bit
            corruption of a length prefix / ciphertext / tag injected into a response or event.
  direct  : the real SecureHomeKitProtocol is fed a reference-encrypted stream of HTTP/EVENT
            messages under EVERY single cut and chosen double / multi cuts (like C07, one layer down).
"""
from __future__ import annotations

import asyncio
import random

from checks import c07
from checks.ipcommon import REAL_IP, STUB_IP, execute_filtered
from refimpl import crypto as RC
from simkit.core import Ctx, result_of
from simkit.loop import SimLoop

PROP = "C05"
LEVEL = "exploration"
RULE = (
    "two seeded modes. session: a real secure session over the simulated network; put requests whose total size is "
    "stratified over {..1023,1024,1025,2047,2048,2049,4096,4097..} and random, reads/events whose encrypted size crosses "
    "1..5 frames; accessory frame-size policy (1024, 1, 16, 1023, mixed); segmentation style (whole, halves, byte-by-byte, "
    "cut inside the length prefix, random); optional single-bit corruption of a length prefix, ciphertext or tag. Oracles: the "
    "reference deframer decodes every transport call to exactly one request with frames <= 1024 B and the accessory applies "
    "exactly the written value; reads/events deliver exactly the accessory's values; after a corrupted frame nothing from that "
    "frame or later is delivered and (ciphertext/tag) the controller closes at once. direct: the real SecureHomeKitProtocol "
    "decodes a reference-encrypted stream identically under every single cut, interesting/random double cuts and multi-cuts "
    "(work_units = segmentations + session runs). Non-trivial = >=2 frames or >=1 cut; distinct by event-log digest."
)
REAL = REAL_IP + ["aiohomekit.controller.ip.connection.SecureHomeKitProtocol (direct mode)", "aiohomekit.crypto.chacha20poly1305"]
STUB = STUB_IP
ASSUMPTIONS = ["a corrupted length prefix cannot be detected before enough bytes arrive; only 'nothing delivered' is asserted for it"]
TIERS = {"quick": {"runs": 1000, "wall": 55}, "thorough": {"runs": 200000, "wall": 1500}}

SIZES = [1, 100, 900, 1000, 1023, 1024, 1025, 1500, 2047, 2048, 2049, 3000, 3071, 3072, 3073, 4096, 4097, 5000]


def gen_plan(seed: int, tier: str) -> dict:
    r = random.Random(seed)
    if r.random() < 0.45:
        return gen_direct(seed, r, tier)
    profile = {
        "hosts": [["10.0.0.1", "genuine"]], "lat": [0.0005, r.choice([0.0005, 0.01])], "coalesce": r.choice([0, 0, 0.3, 1.0]),
        "seg": r.choice(["whole", "halves", "bytes", "prefix", "random", "random"]),
        "gap": r.choice([0.0, 0.0, 0.01]), "frame": r.choice(["max", "mixed", "mixed", 1, 16, 1023]), "n_chars": 24,
        "slow_drain": r.choice([0.0, 0.0, 0.6]), "slow_drain_max": 40.0,
    }
    ops = []
    t = 0.0
    readable = [(a, 10 + k) for a in (1, 2) for k in range(12) if k % 6 != 4]
    wo = [(a, 10 + k) for a in (1, 2) for k in range(12, 24) if k % 6 != 3]
    corrupt = r.random() < 0.35
    n = r.randint(3, 10)
    corrupt_at = r.randrange(n) if corrupt else -1
    for k in range(n):
        t = round(t + r.choice([0.05, 0.2, 1.0]), 3)
        if k == corrupt_at:
            ops.append({"op": "corrupt", "where": r.choice(["len", "ct", "tag"]), "frame": r.randrange(4), "pos": r.randrange(2000), "bit": r.randrange(8), "t": t})
            t = round(t + 0.001, 3)
        x = r.random()
        if x < 0.35:
            a, i = r.choice(readable)
            size = r.choice(SIZES + [r.randrange(1, 5200)])
            ops.append({"op": "big_value", "aid": a, "iid": i, "n": size, "t": t})
            ops.append({"op": "get", "ids": [[a, i]] + ([list(r.choice(readable))] if r.random() < 0.3 else []), "t": round(t + 0.001, 3)})
            ops[-1]["ids"] = [list(x) for x in {tuple(y) for y in ops[-1]["ids"]}]
        elif x < 0.7:
            a, i = r.choice(wo)
            target = r.choice(SIZES + [r.randrange(1, 5200)])
            # aim the TOTAL serialized request (request line + headers + JSON) exactly at / one off the boundary
            want = target + r.choice([-1, 0, 0, 0, 1])
            strlen = max(0, want - put_request_len(a, i, 0))
            for _ in range(4):  # the Content-Length digits move with the body length
                strlen = max(0, strlen + want - put_request_len(a, i, strlen))
            ops.append({"op": "put", "items": [[a, i, "w" * strlen]], "t": t})
        else:
            ops.append({"op": "event", "n": r.choice([1, 1, 2, 3]), "ids": [[1, 10]], "pad": r.choice([0, 0, 900, 1024, 2048, 3000]), "t": t})
    return {"mode": "session", "profile": profile, "ops": ops, "listeners": {"L0": {}, "L1": {}}, "heal_at": t + 35.0, "end_at": t + 45.0,
            "tag_reads": False, "check_values": True, "allow_other_exceptions": False, "no_liveness": True}


def put_request_len(aid: int, iid: int, strlen: int, host: str = "10.0.0.1") -> int:
    """length of the canonical PUT /characteristics request writing one string of strlen ASCII characters"""
    body = len('{"characteristics":[{"aid":%d,"iid":%d,"value":""}]}' % (aid, iid)) + strlen
    head = f"PUT /characteristics HTTP/1.1\r\nHost: {host}\r\nContent-Length: {body}\r\nContent-Type: application/hap+json\r\n\r\n"
    return len(head) + body


def gen_direct(seed: int, r: random.Random, tier: str) -> dict:
    base = c07.gen_plan(seed, "quick")
    msgs = base["msgs"][:4]
    # frame sizes used by the reference accessory for this stream
    pol = r.choice(["max", "one", "small", "mixed", "mixed"])
    plan = {"mode": "direct", "msgs": msgs, "frame_policy": pol, "ops": []}
    stream = build_encrypted(seed, plan)[0]
    n = len(stream)
    ops = [[], [n // 2]]
    if n <= 700:
        ops += [[c] for c in range(1, n)]
    else:
        ops += [[c] for c in sorted(r.sample(range(1, n), 500))]
    # structurally interesting: around every frame boundary, inside length prefixes and tags
    inter = sorted(frame_positions(stream))
    pairs = [(a, b) for i, a in enumerate(inter) for b in inter[i + 1:]]
    r.shuffle(pairs)
    k = 200 if tier == "quick" else 1500
    ops += [list(p) for p in pairs[:k]]
    for _ in range(k // 2):
        a, b = sorted(r.sample(range(1, n), 2))
        ops.append([a, b])
    for _ in range(40):
        ops.append(sorted(r.sample(range(1, n), min(n - 1, r.randrange(3, 30)))))
    if n <= 1200:
        ops.append(list(range(1, n)))
    plan["ops"] = ops
    return plan


def frame_positions(stream: bytes) -> set[int]:
    pos = set()
    i = 0
    while i + 2 <= len(stream):
        n = int.from_bytes(stream[i:i + 2], "little")
        for d in (i - 1, i, i + 1, i + 2, i + 3, i + 2 + n - 1, i + 2 + n, i + 2 + n + 1, i + 2 + n + 15):
            if 0 < d < len(stream):
                pos.add(d)
        i += 2 + n + 16
    return pos


def _sizes(seed: int, pol: str):
    r = random.Random(seed * 13 + 5)
    while True:
        if pol == "max":
            yield 1024
        elif pol == "one":
            yield 1
        elif pol == "small":
            yield r.choice([1, 2, 3, 7, 16])
        else:
            yield r.choice([1, 2, 15, 16, 17, 255, 256, 1023, 1024, 1024, 300])


def build_encrypted(seed: int, plan: dict):
    plain, expected = c07.build_stream(seed, plan["msgs"])
    key = RC.H(f"c05|{seed}".encode())[:32]
    codec = RC.FrameCodec(key)
    frames = codec.seal_stream(plain, _sizes(seed, plan["frame_policy"]))
    return b"".join(frames), expected, key, len(frames)


def execute(plan: dict, ch):
    if plan.get("mode") == "direct":
        return execute_direct(plan, ch)

    def nontrivial(sc, ctx):
        return any(w["secure"] and w["raw_len"] > 1024 for w in sc.wire) or bool(sc.corrupted) or plan["profile"]["seg"] != "whole"

    def sample(sc, ctx):
        return {"mode": "session", "profile": plan["profile"], "requests": [(w["method"], w["raw_len"], w["secure"]) for w in sc.wire][:10],
                "corruptions": [(c["where"], c["t_full"]) for c in sc.corrupted], "events": len(sc.events)}

    return execute_filtered(plan, ch, ("C05.",), sample_fn=sample, nontrivial_fn=nontrivial)


def execute_direct(plan: dict, ch):
    from aiohomekit.controller.ip.connection import SecureHomeKitProtocol

    ctx = Ctx(ch)
    loop = SimLoop()
    ctx.loop = loop
    stream, expected, key, nframes = build_encrypted(ch.seed, plan)
    n_http = sum(1 for e in expected if e[0] == "HTTP")

    async def main():
        for cuts in plan["ops"]:
            cuts = sorted({c for c in cuts if 0 < c < len(stream)})
            sink = c07._Sink()  # responses are looked at when the awaiting task would run: after the read that completed them
            proto = SecureHomeKitProtocol(c07._ConnStub(sink), key, bytes(32))
            proto.result_cbs.extend(c07._RecFuture(sink, loop) for _ in range(n_http))
            prev = 0
            err = None
            try:
                for c in cuts + [len(stream)]:
                    if c > prev:
                        proto.data_received(stream[prev:c])
                        sink.after_read()
                    prev = c
            except Exception as e:  # noqa: BLE001
                err = e
            sink.after_read()
            ctx.obligations += 1
            got = sink.items
            if err is not None:
                ctx.violate("C05.inbound-raises", type(err).__name__, f"direct: cuts={cuts[:6]} raised {err!r} on an authentic stream ({nframes} frames, {len(stream)} B)")
            elif got != expected:
                ctx.violate("C05.inbound-content", "direct", f"direct: cuts={cuts[:8]} decoded {len(got)} messages, expected {len(expected)} ({nframes} frames)")
            ctx.event("seg", len(cuts), len(got))

    # ---- outbound, same mode: a sequence of payloads of boundary lengths on ONE session, decoded in order ---------
    r = random.Random(ch.seed ^ 0x5EED)
    lengths = [r.choice(SIZES + [0, 2, 1022, 1026, 2046, 2050, 6144, r.randrange(1, 7000)]) for _ in range(r.randint(3, 9))]

    class _Tr:
        def __init__(self):
            self.calls: list[bytes] = []

        def is_closing(self):
            return False

        def writelines(self, datas):
            self.calls.append(b"".join(bytes(d) for d in datas))

        def write(self, d):
            self.calls.append(bytes(d))

        def write_eof(self):
            pass

        def close(self):
            pass

    async def outbound():
        from refimpl import crypto as RC

        c2a = ch.nbytes("direct.c2a", 32)
        proto = SecureHomeKitProtocol(c07._ConnStub(c07._Sink()), bytes(32), c2a)
        tr = _Tr()
        proto.transport = tr
        proto.loop = loop
        dec = RC.FrameCodec(c2a)
        for n in lengths:
            payload = ch.nbytes("direct.payload", n)
            k0 = len(tr.calls)
            task = loop.create_task(proto.send_bytes(payload))
            await asyncio.sleep(0)
            await asyncio.sleep(0)
            task.cancel()
            try:
                await task
            except BaseException:  # noqa: BLE001
                pass
            wire = b"".join(tr.calls[k0:])
            ctx.obligations += 1
            try:
                frames = dec.feed(wire)
            except ValueError as e:
                ctx.violate("C05.outbound-undecodable", "direct", f"payload lengths so far {lengths}: frames of the {n}-byte payload rejected by the in-order reference deframer: {e}")
                return
            if dec.buf:
                ctx.violate("C05.outbound-undecodable", "direct-partial", f"{n}-byte payload: {len(dec.buf)} stray bytes after the last complete frame")
                return
            sizes = [len(f) for f in frames]
            if b"".join(frames) != payload:
                ctx.violate("C05.outbound-content", "direct", f"{n}-byte payload: frames {sizes} do not carry the payload")
            elif any(z > 1024 or z == 0 for z in sizes):
                ctx.violate("C05.frame-size", "direct", f"{n}-byte payload sent as frames of {sizes[:8]} plaintext bytes (allowed: 1..1024)")
            elif len(tr.calls) - k0 > 1:
                ctx.violate("C09.single-call", "direct", f"{n}-byte payload written with {len(tr.calls) - k0} transport calls")
        ctx.probe("direct_outbound_payloads", len(lengths))

    loop.run_sim(main())
    loop2 = SimLoop()
    ctx.loop = loop2
    loop = loop2
    loop2.run_sim(outbound())
    ctx.probe("direct_segmentations", len(plan["ops"]))
    ctx.probe("direct_frames", nframes)
    ctx.state("direct", plan["frame_policy"], min(nframes, 8))
    sample = {"mode": "direct", "msgs": [m["kind"] for m in plan["msgs"]], "frame_policy": plan["frame_policy"], "frames": nframes,
              "stream_len": len(stream), "segmentations": len(plan["ops"]), "example_cuts": plan["ops"][-2][:8]}
    return result_of(ctx, nontrivial=nframes >= 2 or len(plan["ops"]) > 1, sample=sample, units=len(plan["ops"]))
