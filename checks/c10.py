"""C10 - reconnection keeps trying with bounded back-off and a single connector (IP).
C11 shares this workload generator (checks/c11.py)."""
from __future__ import annotations

import random

from checks.ipcommon import REAL_IP, STUB_IP, execute_filtered, rnd_time

PROP = "C10"
LEVEL = "exploration"
RULE = (
    "one run = an open IpPairing with 1-3 advertised addresses (IPv4/IPv6; each genuine, another accessory, refusing, "
    "black-holed, accept-then-close, changing over time); every connection attempt draws its outcome "
    "(connect: ok/refuse/black-hole/unreachable/slow; accessory during verify: honest, FIN/RST at M1/M3, HTTP 4xx, bad signature, "
    "wrong pairing id, authentication/busy error TLV, 31-byte key (unexpected exception), garbage TLV, silence, drop right after verify) "
    "from the seed; actors: zeroconf description updates (same/changed address sets), callers with/without own timeout or "
    "cancellation, close()/shutdown(), peer FIN/RST, peer closing abandoned connections; horizons 30 s .. 2 h virtual; then "
    "faults stop, every address reaches the genuine accessory, and the run is judged after 150 s (an attempt in flight may take 70 s, plus one 60 s back-off). "
    "Non-trivial = a fault/non-default decision fired and oracle obligations were evaluated; distinct = distinct event-log digest."
)
REAL = REAL_IP
STUB = STUB_IP
ASSUMPTIONS = [
    "attempt boundaries are observed by wrapping the connection object's _connect_once from the harness (no repo change)",
    "back-off lower bound asserted is 0.5 s (the implementation's first delay is 0.75 s); growth = non-decreasing untriggered gaps",
    "an address excluded for a wrong pairing id is only required to be retried once every address is excluded or the advertised set changes (what the code documents)",
]
TIERS = {"quick": {"runs": 20000, "wall": 60}, "thorough": {"runs": 300000, "wall": 1500}}

BEHAVIOURS = ["close_m1", "close_m3", "rst_m1", "rst_m3", "http4xx_m1", "http4xx_m3", "bad_sig", "wrong_id", "auth_m2", "auth_m4",
              "busy_m2", "short_key", "silent_m1", "silent_m3", "garbage", "rst_after_verify", "fin_after_verify", "unknown_http", "sub_reply_no_status"]
ADDRS = ["10.0.0.1", "10.0.0.2", "fd00::3", "10.0.0.4", "fe80::5%eth0"]


def gen_plan(seed: int, tier: str, focus: str = "c10") -> dict:
    r = random.Random(seed * 7 + (1 if focus == "c11" else 0))
    n_hosts = r.choice([1, 1, 2, 2, 3])
    addrs = r.sample(ADDRS[:4], n_hosts)
    kinds = []
    for _ in addrs:
        kinds.append(r.choice(["genuine", "genuine", "genuine", "other", "refuse", "blackhole", "acceptclose", "unreachable"]))
    if "genuine" not in kinds and r.random() < 0.7:
        kinds[r.randrange(n_hosts)] = "genuine"
    enabled = r.sample(BEHAVIOURS, r.choice([0, 1, 2, 3, 5, len(BEHAVIOURS)]))
    if focus == "c11" and r.random() < 0.7:
        enabled = list(set(enabled) | set(r.sample(["bad_sig", "auth_m4", "busy_m2", "short_key", "garbage", "http4xx_m3", "silent_m3", "auth_m2", "sub_reply_no_status"], 3)))
    fault_w = r.choice([0.2, 0.5, 1.0, 3.0])
    beh = {"honest": 1.0}
    for b in enabled:
        beh[b] = fault_w / max(1, len(enabled))
    profile = {
        "hosts": [[a, k] for a, k in zip(addrs, kinds)],
        "lat": [0.0005, r.choice([0.0005, 0.02, 0.3])], "coalesce": r.choice([0, 0, 0.3, 1.0]),
        "seg": r.choice(["whole", "whole", "random", "halves"]),
        "conn_behaviour": beh,
        "connect": {"ok": 1.0, "refuse": r.choice([0, 0.2, 1.0]), "blackhole": r.choice([0, 0, 0.3]), "unreachable": r.choice([0, 0.2]),
                    "slow": r.choice([0, 0, 0.3])},
        "slow_drain": r.choice([0.0, 0.0, 0.3, 0.8]),
        "slow_drain_max": r.choice([0.5, 5.0, 40.0]),
        "zero_latency": r.choice([0, 0, 0.3]),
        "rst_window_hops": r.choice([0, 0, 1, 3]),
    }
    horizon = r.choice([30.0, 30.0, 120.0, 600.0, 3000.0, 7200.0])
    ops = [{"op": "get", "ids": [[1, 10]], "t": 0.0}] if r.random() < 0.8 else [{"op": "desc_update", "addrs": addrs, "t": 0.0}]
    if r.random() < 0.5:
        ops.append({"op": "subscribe", "ids": [[1, 10], [1, 11], [2, 12]], "t": round(r.choice([0.0, 0.001, 0.5]), 3)})
    nops = r.randint(2, 16)
    for _ in range(nops):
        t = rnd_time(r, horizon)
        x = r.random()
        if x < 0.22:
            op = {"op": "get", "ids": [[1, 10 + r.randrange(3)]]}
            y = r.random()
            if y < 0.25:
                op["own_timeout"] = r.choice([0.5, 3.0, 9.999, 10.0, 15.0])
            elif y < 0.4:
                op["cancel_after"] = r.choice([0.0, 0.001, 1.0, 9.0, 11.0])
        elif x < 0.40:
            new = addrs if r.random() < 0.5 else r.sample(ADDRS[:4], r.choice([1, 2, 3]))
            op = {"op": "desc_update", "addrs": list(new), "s": r.randrange(1, 4)}
        elif x < 0.55:
            op = {"op": "set_host", "host": r.choice(ADDRS[:4]), "kind": r.choice(["genuine", "genuine", "other", "refuse", "blackhole", "acceptclose", "unreachable"])}
        elif x < 0.68:
            op = {"op": r.choice(["rst", "fin"])}
            if op["op"] == "rst" and profile.get("rst_window_hops"):
                op["then"] = r.choice([{"op": "close"}, {"op": "shutdown"}, {"op": "cancel_call"}, {"op": "get", "ids": [[1, 10]]}, {"op": "desc_update", "addrs": addrs, "s": 2}])
                op["then_ticks"] = r.choice([0, 0, 1, 2])
        elif x < 0.76:
            op = {"op": "close_old", "which": r.randrange(4), "how": r.choice(["fin", "rst"])}
        elif x < 0.82:
            op = {"op": "stall", "on": r.random() < 0.5}
        elif x < 0.90:
            op = {"op": "close"}
            if focus == "c11" and r.random() < 0.3:
                op["cancel_ticks"] = r.choice([0, 0, 1, 2, 3])  # the caller gives up on close() n loop iterations in
        elif x < 0.93:
            op = {"op": "shutdown"}
            if focus == "c11" and r.random() < 0.3:
                op["cancel_ticks"] = r.choice([0, 0, 1, 2, 3])
        elif x < 0.97:
            op = {"op": "subscribe", "ids": [[1, 10], [1, 11], [2, 12]]}
        else:
            op = {"op": "event", "n": 1, "ids": [[1, 10]]}
        op["t"] = t
        ops.append(op)
        if op["op"] in ("close", "shutdown") and r.random() < 0.6:
            # a trigger in the very ticks in which close()/shutdown() is suspended (same virtual instant, n loop iterations later)
            comp = r.choice([{"op": "desc_update", "addrs": addrs, "s": r.randrange(1, 4)}, {"op": "get", "ids": [[1, 10]]}, {"op": "subscribe", "ids": [[1, 10]]}])
            comp.update(t=t, ticks=r.choice([0, 1, 1, 2, 3, 4, 5, 8]))
            ops.append(comp)
    if n_hosts >= 2 and r.random() < (0.25 if focus == "c11" else 0.1):
        # aimed at the staggered (happy-eyeballs) connect: the first address hangs, a later one answers, and a close / trigger lands
        # in the few loop iterations right after that socket connected - while the race is still cancelling its losers
        kinds[0] = r.choice(["blackhole", "blackhole", "unreachable"])
        kinds[1] = "genuine"
        profile["hosts"] = [[a, k] for a, k in zip(addrs, kinds)]
        profile["connect"] = {"ok": 1.0, "refuse": 0, "blackhole": 0, "unreachable": 0, "slow": 0}
        for _ in range(r.choice([1, 1, 2])):
            aimed = r.choice([{"op": "close"}, {"op": "close"}, {"op": "shutdown"}, {"op": "desc_update", "addrs": addrs, "s": 2}, {"op": "cancel_call"}])
            aimed.update(on_accept=True, ticks=r.randrange(0, 10), t=r.choice([0.0, 0.0, 0.1, rnd_time(r, horizon)]))
            ops.append(aimed)
    ops.sort(key=lambda o: o["t"])
    # make sure advertised addresses that the workload switches to exist on the network
    for a in ADDRS[:4]:
        if a not in addrs:
            profile["hosts"].append([a, r.choice(["genuine", "refuse", "other", "unreachable"])])
    heal_at = horizon + 5.0
    return {"profile": profile, "ops": ops, "listeners": {"L0": {}}, "heal_at": heal_at, "end_at": heal_at + 150.0,
            "heal_probe": r.choice([0, 0, 1, 2]), "tag_reads": True, "allow_other_exceptions": True}


def execute(plan, ch):
    return execute_filtered(plan, ch, ("C10.",))
