"""C15 (wire half) - pairing TLV lists survive the pairing channels byte-exactly and the decoder is total.

Scope (DESIGN section 7, C15): the "for all item lists" round trip is a pure function; what is decided
here is what a simulator can decide - the lists travel through the real transports to an independent
strict TLV8 peer and back, across PDU/TLV-level fragmentation and TCP segmentation, and the reply is
truncated, corrupted, or loses/duplicates a fragment in flight.
"""

from __future__ import annotations

import random
import traceback

from refimpl import ble_accessory as ba
from refimpl import hap, tlv8
from simkit import seams
from simkit.core import Chooser, Ctx, result_of
from simkit.loop import SimDeadlock, SimLoop

PROP = "C15"
LEVEL = "exploration"
RULE = (
    "seeded exchanges of item lists (1-5 items, types from the pairing set plus random 0..255, value lengths from {0,1,2,254,255,256,257,509,510,511,765,766} "
    "and random <= 2000, separators between equal-typed neighbours) through the real pairing channels to an independent strict TLV8 peer and back: "
    "ble = aiohomekit.controller.ble.client._pairing_char_write over the reference GATT accessory (PDU fragment sizes 20..512, reply split into "
    "FragmentData/FragmentLast pieces of seeded size); ip = HomeKitConnection.post_tlv on a verified session over simulated TCP (seeded segmentation, "
    "with and without the expected-types filter); coap = list_pairings' inner TLV over the encrypted CoAP session. Faults on the reply in flight: "
    "truncation at a seeded byte offset, single-byte corruption, lone trailing type byte, dropped / duplicated / endless TLV fragments. Oracles: the peer's "
    "strict decode of the request equals the list passed in and the bytes are canonical; fault-free, the caller gets exactly the peer's list; under a fault "
    "the call returns what a conformant decoder returns for the delivered bytes or raises - and an exception raised from inside aiohomekit/protocol/tlv.py "
    "is TlvParseException, never another class; no returned value is shorter than its declared length. Non-trivial = a value > 255 bytes, a separator, "
    "a zero-length value, fragmentation or a fault was involved; distinct by event-log digest."
)
REAL = ["aiohomekit.protocol.tlv.TLV (encode_list, decode_bytes, decode_bytearray, expected filter)", "aiohomekit.controller.ble.client._pairing_char_write / char_write / ble_request",
        "aiohomekit.controller.ip.connection.HomeKitConnection.post_tlv + secure session", "aiohomekit.controller.coap.connection list_pairings path"]
STUB = ["accessories (reference peers with the independent codec refimpl/tlv8.py)", "GATT link / TCP / CoAP message layer (simulated)"]
ASSUMPTIONS = ["round trip of item lists that never meet a transport (pure function of the input) is not decided by simulation; only the lists generated here are covered",
               "reply types 0x0C/0x0D (FragmentData/FragmentLast) are excluded from BLE replies: _pairing_char_write gives them protocol meaning"]
TIERS = {"quick": {"runs": 60000, "wall": 55}, "thorough": {"runs": 3000000, "wall": 1500}}

LENS = [0, 1, 2, 254, 255, 256, 257, 509, 510, 511, 765, 766,
        253, 506, 759]  # the last three make a single-item list exactly 255 / 510 / 765 bytes long on the wire (the BleRequest value field)
HARMLESS = ("frag_empty_last", "frag_empty_middle", "ff_data_after_separator")  # legal peer behaviour, not damage: the reply must still be accepted
PAIRING_TYPES = [0, 1, 2, 3, 4, 5, 6, 7, 8, 9, 10, 11, 14, 19]


def gen_items(r: random.Random, avoid=()) -> list:
    items: list = []
    for _ in range(r.randint(1, 5)):
        t = r.choice(PAIRING_TYPES) if r.random() < 0.7 else r.randrange(255)
        if t in avoid:
            t = 6
        ln = r.choice(LENS) if r.random() < 0.75 else r.randrange(2000)
        if t == 7:
            ln = max(ln, 1) if r.random() < 0.5 else ln  # Error items are usually one byte; zero-length ones are legal too
        if r.random() < 0.35 and items and items[-1][0] != 255:
            t = items[-1][0]  # equal-typed neighbours, kept apart by a separator
        if items and items[-1][0] == t:
            items.append([255, 0])
        items.append([t, ln])
    return items


def gen_plan(seed: int, tier: str) -> dict:
    r = random.Random(seed)
    mode = r.choice(["ble"] * 6 + ["ip"] * 3 + ["coap"] * 2)
    fault = r.choice([None] * 4 + ["truncate", "truncate", "corrupt", "lone_type", "frag_drop", "frag_dup", "frag_endless", "frag_empty_last", "frag_empty_middle", "ff_data_after_separator"])
    if mode != "ble" and fault and fault.startswith("frag_"):
        fault = "truncate"
    plan = {"mode": mode, "req": gen_items(r), "reply": gen_items(r, avoid=(0x0C, 0x0D) if mode == "ble" else ()), "fault": fault, "pos": r.random(), "bit": r.randrange(8), "idx": r.randrange(8),
            "fsize": r.choice([20, 23, 64, 100, 180, 244, 512]), "tlv_frag": r.choice([None, 64, 200, 255, 256, 700]), "seg": r.choice(["whole", "random", "bytes"]),
            "expected": r.choice([None, None, "all", "some"])}
    if mode == "coap":
        plan["req"] = []
    plan["second"] = r.random() < 0.3
    if mode == "ble" and r.random() < 0.12:
        # one write of the request loses its acknowledgement (link stays up); the request is sized so that its LAST fragment is
        # exactly full - a fragment sent twice would then be reassembled into a different request of the announced length
        fs = plan["fsize"]
        k = r.choice([1, 2, 3])
        body = (fs - 7) + k * (fs - 2)  # BleRequest struct: 09 01 01 | 01 <list>, value TLV header 2 bytes per 255-byte piece
        for n_pieces in (1, 2, 3, 4, 5, 6, 7, 8):
            lst = body - 3 - 2 * n_pieces
            if lst > 0 and (lst + 254) // 255 == n_pieces:
                # the list itself: one item, 2 header bytes per 255-byte piece of its value
                for m in (1, 2, 3, 4, 5, 6, 7, 8):
                    v = lst - 2 * m
                    if v > 0 and (v + 254) // 255 == m:
                        plan["req"] = [[9, v]]
                        plan["fault"] = "ack_lost"
                        plan["idx"] = r.choice([1, 2, 2, 3])
                        plan["second"] = False
                        break
                break
    if fault in ("frag_empty_last", "frag_empty_middle") and not plan["tlv_frag"]:
        plan["tlv_frag"] = r.choice([16, 64, 200])
    return plan


def _well_formed(items) -> bool:
    """the property's input space: equal-typed neighbours are kept apart by a separator; separators do not touch"""
    return all(a[0] != b[0] for a, b in zip(items, items[1:])) and not (items and (items[0][0] == 255 or items[-1][0] == 255))


def simplify(plan: dict):
    for key in ("req", "reply"):
        items = plan[key]
        for i in range(len(items)):
            for cand in (items[:i] + items[i + 1 :], items[:i] + items[i + 2 :]):
                if _well_formed(cand) and (cand or key == "reply"):
                    yield dict(plan, **{key: cand})
        for i, (t, ln) in enumerate(items):
            for smaller in (0, 1, 255, 256):
                if smaller < ln:
                    yield dict(plan, **{key: items[:i] + [[t, smaller]] + items[i + 1 :]})
    if plan["fault"]:
        yield dict(plan, fault=None)
    if plan["tlv_frag"]:
        yield dict(plan, tlv_frag=None)


def materialise(spec, ch, tag):
    return [(t, ch.nbytes(f"{tag}.{i}", ln) if t != 255 else b"") for i, (t, ln) in enumerate(spec)]


def lib_items(items):
    return [[t, bytearray(v)] for t, v in items]


def merged(items):
    """what any conformant decoder makes of a list: equal-typed neighbours are one item"""
    out: list = []
    for t, v in items:
        if out and out[-1][0] == t:
            out[-1] = (t, out[-1][1] + bytes(v))
        else:
            out.append((t, bytes(v)))
    return out


def faulted(rb: bytes, plan) -> bytes:
    f = plan["fault"]
    if f == "truncate" and len(rb) > 1:
        return rb[: max(1, int(plan["pos"] * len(rb)))]
    if f == "corrupt" and rb:
        b = bytearray(rb)
        b[int(plan["pos"] * len(b)) % len(b)] ^= 1 << plan["bit"]
        return bytes(b)
    if f == "lone_type":
        return rb + b"\x06"
    if f == "ff_data_after_separator":
        # legal TLV8 that no encoder of this library produces: a separator directly followed by a type-0xFF item with data
        return rb + b"\xff\x00\xff\x01A"
    return rb


def codec_exception(e: BaseException) -> bool:
    """did the exception come out of aiohomekit/protocol/tlv.py itself?"""
    tb = traceback.extract_tb(e.__traceback__)
    return bool(tb) and tb[-1].filename.endswith("aiohomekit/protocol/tlv.py")


def judge_request(ctx, plan, sent, got_raw: bytes | None) -> None:
    ctx.obligations += 1
    if got_raw is None:
        ctx.violate("request-not-seen", plan["mode"], "the peer never received the pairing request")
        return
    try:
        got = tlv8.decode(got_raw, strict=True)
    except tlv8.TLVError as e:
        ctx.violate("request-not-conformant", plan["mode"], f"strict TLV8 peer cannot decode the request ({e}); lengths sent {[(t, len(v)) for t, v in sent]}; bytes {got_raw[:40].hex()}...")
        return
    if got != [(t, bytes(v)) for t, v in sent]:
        zero = any(len(v) == 0 and t != 255 for t, v in sent)
        ctx.violate("request-differs", "zero-length-value-dropped" if zero and [x for x in sent if len(x[1]) or x[0] == 255] == got else plan["mode"],
                    f"peer decoded {[(t, len(v)) for t, v in got]} but the caller passed {[(t, len(v)) for t, v in sent]}")
    elif not tlv8.is_canonical(got_raw):
        ctx.violate("request-not-canonical", plan["mode"], f"request bytes are not the canonical TLV8 encoding of {[(t, len(v)) for t, v in sent]}")


def judge_reply(ctx, plan, delivered: bytes, result, exc, expected=None, as_dict=False) -> None:
    """delivered = the inner pairing TLV bytes that reached the controller (after reassembly of undamaged fragments)"""
    ctx.obligations += 1
    if expected:
        # the filter stops at the first item whose type is not expected, before looking at its length: only the
        # bytes in front of that item are decoded at all
        i = 0
        while i < len(delivered) and delivered[i] in expected and i + 1 < len(delivered) and i + 2 + delivered[i + 1] <= len(delivered):
            i += 2 + delivered[i + 1]
        if i < len(delivered) and delivered[i] not in expected:
            delivered = delivered[:i]
    try:
        ref = tlv8.decode(delivered, strict=False)
        ref_err = None
    except tlv8.TLVError as e:
        ref, ref_err = None, e
    if exc is not None:
        name = type(exc).__name__
        if codec_exception(exc) and name != "TlvParseException":
            ctx.violate("codec-raised", name, f"decoding {len(delivered)} delivered bytes ({delivered[:24].hex()}...) raised {name}: {exc} from inside protocol/tlv.py (reference: {ref_err or 'decodes fine'})")
        elif ref is not None and (plan["fault"] is None or plan["fault"] in HARMLESS):
            ctx.violate("reply-rejected", name, f"fault-free reply {[(t, len(v)) for t, v in ref]} raised {exc!r}")
        return
    if ref is None:
        ctx.violate("malformed-accepted", plan["fault"] or "", f"delivered bytes are not TLV8 ({ref_err}) but the call returned {summ(result)}")
        return
    want = merged(ref)
    if expected:
        cut = []
        for t, v in want:
            if t not in expected:
                break
            cut.append((t, v))
        want = cut
    if as_dict:
        wd: dict = {}
        for t, v in want:
            wd[t] = v  # dict(list) keeps the last of equal keys
        got = {int(k): bytes(v) for k, v in result.items()}
        if got != wd:
            ctx.violate("reply-differs", plan["mode"], f"peer sent {[(t, len(v)) for t, v in want]}; caller got {summ(result)} (fault {plan['fault']})")
    else:
        got = [(int(t), bytes(v)) for t, v in result]
        if got != want:
            ctx.violate("reply-differs", plan["mode"], f"peer sent {[(t, len(v)) for t, v in want]}; caller got {summ(result)} (fault {plan['fault']}, expected filter {expected})")


def summ(result):
    if isinstance(result, dict):
        return {int(k): len(v) for k, v in result.items()}
    return [(int(t), len(v)) for t, v in result]


def execute(plan: dict, ch: Chooser) -> dict:
    import bleak  # noqa: F401

    if plan["mode"] == "ble":
        return execute_ble(plan, ch)
    if plan["mode"] == "ip":
        return execute_ip(plan, ch)
    return execute_coap(plan, ch)


def _nontrivial(plan, *lists) -> bool:
    return bool(plan["fault"]) or any(t == 255 or len(v) > 255 or len(v) == 0 for l in lists for t, v in l)


def execute_ble(plan, ch):
    from aiohomekit.controller.ble.client import _pairing_char_write
    from worlds.ble import LinkClient

    ctx = Ctx(ch)
    seams.begin(ctx)
    seams.install_ble()
    loop = SimLoop(max_iterations=300_000)
    ctx.loop = loop
    ident = hap.AccessoryIdentity("aa:bb:cc:dd:ee:15", ch.nbytes("ltsk", 32))
    acc = ba.BleAccessory(ident, {}, ba.standard_services([]), frag=ba.FragPolicy("max", chooser=ch))
    req = materialise(plan["req"], ch, "req")
    reply = materialise(plan["reply"], ch, "reply")
    rb = faulted(tlv8.encode(reply), plan)
    seen = {"raw": None, "n": 0}

    def echo(items, raw):
        seen["n"] += 1
        if seen["raw"] is None:
            seen["raw"] = bytes(raw)
        return rb

    acc.pairing_echo = echo
    acc.tlv_frag_size = plan["tlv_frag"]
    if plan["fault"] in ("frag_drop", "frag_dup", "frag_endless", "frag_empty_last", "frag_empty_middle"):
        acc.tlv_frag_fault = {"kind": plan["fault"][5:], "idx": plan["idx"]}
    out = {"res": None, "exc": None}

    second = {"res": None, "exc": None, "sent": None}

    async def main():
        client = LinkClient(ctx, acc, plan["fsize"])
        if plan["fault"] == "ack_lost":
            client.ack_lost_at = plan["idx"]
        try:
            out["res"] = await _pairing_char_write(client, client.handle_for(34), 34, lib_items(req))
        except Exception as e:  # noqa: BLE001
            out["exc"] = e
        out["pieces"] = getattr(acc, "tlv_pieces_sent", None)
        out["errors"] = list(acc.protocol_errors)
        if plan.get("second") and client.is_connected:
            # a second, undamaged exchange on the same link: decoding is a function of the bytes alone, whatever came before
            reply2 = [(6, b"\x02"), (3, b"k" * 300), (255, b""), (3, b"q"), (255, b""), (3, b"z" * 2)]
            second["sent"] = reply2
            rb2 = tlv8.encode(reply2)
            acc.pairing_echo = lambda items, raw: rb2
            acc.tlv_frag_fault = None
            acc.pending_tlv_frags = []
            try:
                second["res"] = await _pairing_char_write(client, client.handle_for(34), 34, lib_items([(6, b"\x01")]))
            except Exception as e:  # noqa: BLE001
                second["exc"] = e

    try:
        loop.run_sim(main())
    except SimDeadlock as e:
        ctx.violate("deadlock", "ble", str(e))
    finally:
        seams.end()
    ctx.event("ble", type(out["exc"]).__name__ if out["exc"] else "ok", seen["n"], len(rb))
    if plan["fault"] == "ack_lost" and seen["raw"] is None:
        ctx.probe("c15_ack_lost_request_not_completed")  # the peer never completed a request: fine, the caller got an error
    else:
        judge_request(ctx, plan, req, seen["raw"])
    if out.get("errors"):
        # the BleRequest struct that carries the list (09 01 01 | 01 <list>) as the strict reference decoder saw it
        ctx.violate("request-not-canonical", "ble-request-struct", f"request list of {len(seen['raw'] or b'')} bytes: reference accessory: {out['errors'][:2]}")
    pieces = out.get("pieces")
    fragmented = bool(pieces and len(pieces) > 1)
    delivered = b"".join(pieces) if fragmented else rb
    if fragmented and len(pieces) > 50 and plan["fault"] != "frag_endless":
        ctx.probe("c15_reassembly_limit")  # MAX_REASSEMBLY (50) is a documented limit of the library: a ValueError is the specified outcome
        ctx.obligations += 1
        if out["exc"] is None or codec_exception(out["exc"]) and type(out["exc"]).__name__ != "TlvParseException":
            ctx.violate("reassembly-limit", "", f"{len(pieces)} fragments: {out['exc']!r} / {out['res'] and summ(out['res'])}")
    elif plan["fault"] == "frag_endless" and fragmented:
        ctx.obligations += 1
        if out["exc"] is None:
            ctx.violate("endless-fragments-accepted", "", f"{len(pieces)} fragments were reassembled without complaint: {summ(out['res'])}")
        elif codec_exception(out["exc"]) and type(out["exc"]).__name__ != "TlvParseException":
            ctx.violate("codec-raised", type(out["exc"]).__name__, f"endless fragments: {out['exc']!r} from inside protocol/tlv.py")
    elif fragmented or not (plan["fault"] or "").startswith("frag_"):
        if fragmented or not (set(t for t, _ in tlv8.decode(rb, strict=False)) & {0x0C, 0x0D} if _decodes(rb) else False):
            judge_reply(ctx, plan, delivered, out["res"], out["exc"], as_dict=True)
    if second["sent"] is not None:
        ctx.obligations += 1
        ctx.probe("c15_second_exchange")
        want2 = {3: b"z" * 2, 6: b"\x02", 255: b""}  # dict(list) keeps the last of equal keys
        if second["exc"] is not None:
            ctx.violate("reply-rejected", f"second-exchange/{type(second['exc']).__name__}", f"an undamaged reply after a first exchange ({plan['fault']}) raised {second['exc']!r}")
        elif {int(k): bytes(v) for k, v in second["res"].items()} != want2:
            ctx.violate("reply-differs", "second-exchange", f"after a first exchange ({plan['fault']}) an undamaged reply decoded to {summ(second['res'])}, peer sent {[(t, len(v)) for t, v in second['sent']]}")
    ctx.state("ble", plan["fault"], fragmented, min(len(rb) // 256, 4), out["exc"] is None)
    ctx.probe("c15_fragmented_reply" if fragmented else "c15_single_reply")
    sample = {"mode": "ble", "req": plan["req"], "reply": plan["reply"], "fault": plan["fault"], "tlv_frag": plan["tlv_frag"], "fsize": plan["fsize"], "outcome": type(out["exc"]).__name__ if out["exc"] else "ok"}
    return result_of(ctx, nontrivial=_nontrivial(plan, req, reply) or fragmented, sim_time=loop.time(), sample=sample)


def _decodes(b: bytes) -> bool:
    try:
        tlv8.decode(b, strict=False)
        return True
    except tlv8.TLVError:
        return False


def execute_ip(plan, ch):
    from refimpl import http as rhttp
    from worlds.ip import IpWorld

    ctx = Ctx(ch)
    loop = SimLoop(max_iterations=200_000)
    w = IpWorld(ctx, loop, {"hosts": [["10.0.0.1", "genuine"]], "seg": plan["seg"]})
    req = materialise(plan["req"], ch, "req")
    reply = materialise(plan["reply"], ch, "reply")
    rb = faulted(tlv8.encode(reply), plan)
    expected = None
    if plan["expected"] == "all":
        expected = sorted({t for t, _ in reply})
    elif plan["expected"] == "some":
        expected = sorted({t for t, _ in reply[: max(1, len(reply) // 2)]})
    out = {"res": None, "exc": None, "connected": False}

    async def main():
        p = w.make_pairing()
        try:
            await p._ensure_connected()
            out["connected"] = True
            w.forced_http.append(rhttp.response(200, rb, "application/pairing+tlv8"))
            out["res"] = await p.connection.post_tlv("/pairings", lib_items(req), expected=expected)
        except Exception as e:  # noqa: BLE001
            out["exc"] = e
        try:
            await p.shutdown()
        except Exception:  # noqa: BLE001
            pass

    try:
        loop.run_sim(main())
    except SimDeadlock as e:
        ctx.violate("deadlock", "ip", str(e))
    finally:
        seams.end()
    if not out["connected"]:
        ctx.violate("harness", "ip-connect", f"could not connect in a fault-free world: {out['exc']!r}")
        return result_of(ctx, nontrivial=False, sim_time=loop.time(), sample={"mode": "ip"})
    posted = [e for e in w.acc.request_log if e["target"] == "/pairings"]
    ctx.event("ip", type(out["exc"]).__name__ if out["exc"] else "ok", len(rb), len(posted))
    judge_request(ctx, plan, req, posted[0]["body"] if posted else None)
    judge_reply(ctx, plan, rb, out["res"], out["exc"], expected=expected)
    ctx.state("ip", plan["fault"], plan["expected"], min(len(rb) // 256, 4), out["exc"] is None)
    sample = {"mode": "ip", "req": plan["req"], "reply": plan["reply"], "fault": plan["fault"], "expected": plan["expected"], "outcome": type(out["exc"]).__name__ if out["exc"] else "ok"}
    return result_of(ctx, nontrivial=_nontrivial(plan, req, reply), sim_time=loop.time(), sample=sample)


def execute_coap(plan, ch):
    from aiohomekit.controller.coap.connection import decode_list_pairings_response  # noqa: F401
    from worlds import coap as wcoap

    ctx = Ctx(ch)
    seams.begin(ctx)
    loop = SimLoop(max_iterations=300_000)
    ctx.loop = loop
    acc, rec = wcoap.standard_accessory(ch)
    wcoap.CoapWorld(ctx, loop, acc)
    # list_pairings interprets State/Error/Identifier/PublicKey/Permissions; the decoder below it sees arbitrary lists
    reply = materialise(plan["reply"], ch, "reply")
    rb = faulted(tlv8.encode(reply), plan)
    acc.pairings_raw = rb
    out = {"res": None, "exc": None, "connected": False}

    async def main():
        p = wcoap.make_pairing(rec)
        try:
            await p._ensure_connected()
            out["connected"] = True
            out["res"] = await _raw_list(p)
        except Exception as e:  # noqa: BLE001
            out["exc"] = e

    async def _raw_list(p):
        # the decoding step of CoAPHomeKitConnection.list_pairings, without its interpretation of the items
        from aiohomekit.controller.coap import connection as cc

        orig = cc.decode_list_pairings_response
        box = {}

        def spy(buf):
            box["items"] = orig(buf)
            return box["items"]

        cc.decode_list_pairings_response = spy
        try:
            try:
                await p.connection.list_pairings()
            except Exception as e:  # noqa: BLE001
                if "items" not in box:
                    raise
                ctx.event("interpretation_failed", type(e).__name__)
        finally:
            cc.decode_list_pairings_response = orig
        return box["items"]

    try:
        loop.run_sim(main())
    except SimDeadlock as e:
        ctx.violate("deadlock", "coap", str(e))
    finally:
        seams.end()
    if not out["connected"]:
        ctx.violate("harness", "coap-connect", f"could not connect in a fault-free world: {out['exc']!r}")
        return result_of(ctx, nontrivial=False, sim_time=loop.time(), sample={"mode": "coap"})
    ctx.event("coap", type(out["exc"]).__name__ if out["exc"] else "ok", len(rb))
    judge_reply(ctx, plan, rb, out["res"], out["exc"])
    ctx.state("coap", plan["fault"], min(len(rb) // 256, 4), out["exc"] is None)
    sample = {"mode": "coap", "reply": plan["reply"], "fault": plan["fault"], "outcome": type(out["exc"]).__name__ if out["exc"] else "ok"}
    return result_of(ctx, nontrivial=_nontrivial(plan, reply), sim_time=loop.time(), sample=sample)
