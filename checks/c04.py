"""C04 - an accessory error or out-of-sequence reply never completes as success.

Fault enumeration: grid of (protocol step) x (error code | none) x (state: expected | absent | each
wrong value) x (other legitimate fields kept | dropped) x (error TLV first | after state) x (driver).
Every cell is executed on the real code through a real driver; consecutive seeds walk the grid so
the quick tier visits every cell at least once.
"""

from __future__ import annotations

import random

from checks import c01, c03
from checks.protocommon import Pipe, expected_error_class
from refimpl import crypto as RC
from refimpl import hap, tlv8
from simkit import seams
from simkit.core import Chooser, Ctx, result_of
from simkit.loop import SimDeadlock, SimLoop

PROP = "C04"
LEVEL = "fault_enumeration"
STEPS = ["setup_m2", "setup_m4", "setup_m6", "verify_m2", "verify_m4", "resume_m2", "add_m2", "remove_m2"]
CODES = [None, 0, 1, 2, 3, 4, 5, 6, 7, 8, 255]
EXPECTED_STATE = {"setup_m2": 2, "setup_m4": 4, "setup_m6": 6, "verify_m2": 2, "verify_m4": 4, "resume_m2": 2, "add_m2": 2, "remove_m2": 2}


def build_grid() -> list[dict]:
    cells = []
    for step in STEPS:
        drivers = ["ip", "ble"] if step in ("add_m2", "remove_m2") else ["pipe-ble"] if step == "resume_m2" else ["pipe-ip", "pipe-ble", "ip", "ble-link", "coap"]
        exp = EXPECTED_STATE[step]
        states = ["expected", "absent"] + [s for s in (exp - 1, exp + 1, exp + 2, 0, 255) if s != exp]
        for driver in drivers:
            for code in CODES:
                for state in states:
                    for keep in (True, False):
                        for first in (False, True):
                            if first and code is None:
                                continue
                            cells.append({"step": step, "driver": driver, "code": code, "state": state, "keep": keep, "first": first})
                            if step in ("add_m2", "remove_m2") and keep:
                                # management replies carry no other fields of their own: "whichever other fields the reply carries" is
                                # exercised with a foreign item placed ahead of the state / error items
                                cells.append({"step": step, "driver": driver, "code": code, "state": state, "keep": keep, "first": first, "foreign": True})
                            elif keep and (code is not None or state not in ("expected", "absent")):
                                # setup / verify steps: the same foreign item (a type the step's `expected` list does not name) ahead of
                                # the state / error items of an ERROR or wrong-step reply. Only the error half is judged with it: whether
                                # an otherwise honest reply with a foreign item must be accepted is not what the property says.
                                cells.append({"step": step, "driver": driver, "code": code, "state": state, "keep": keep, "first": first, "foreign": True})
    return cells


GRID = build_grid()
RULE = (
    f"grid of {len(GRID)} cells = step {STEPS} x error code {CODES} x state (expected, absent, 5 wrong values) x other fields kept/dropped x "
    "error TLV before/after the state TLV x driver (bare generator with IP-style `expected` filter, BLE-style without, the full IP stack: "
    "SecureHomeKitConnection._connect_once / IpDiscovery pairing / IpPairing.add_pairing / remove_pairing on the simulated network, the real BLE pairing "
    "channel drive_pairing_state_machine over the reference GATT accessory, or the real CoAP do_pair_setup / do_pair_verify over the simulated aiocoap "
    "context; session resume on the BLE-style generator); cell index = "
    "seed mod grid size, so consecutive seeds enumerate the grid (coverage.grid_cells_visited is measured). Oracle per cell: error code with "
    "expected-or-absent state => raises exactly the documented class (2 Authentication, 3 Backoff, 4 MaxPeers, 5 MaxTries, 6 Unavailable, 7 Busy, "
    "else Invalid; remove-pairing: AuthenticationError or UnknownError); wrong state => raises a library error; never returns pairing data, keys or "
    "True; no error + expected/absent state + fields kept => succeeds (sanity). Non-trivial = every cell with an error code or a wrong/absent state."
)
REAL = ["aiohomekit.protocol (error_handler, handle_state_step, all three generators)", "aiohomekit.protocol.tlv (expected filter)",
        "aiohomekit.controller.ip.connection / discovery / pairing (ip driver)", "aiohomekit.controller.ble.client.drive_pairing_state_machine (ble-link driver)",
        "aiohomekit.controller.coap.connection do_pair_setup / do_pair_setup_finish / do_pair_verify (coap driver)"]
STUB = ["accessory (reference responders producing the scripted reply)", "pipe / simulated TCP", "entropy"]
ASSUMPTIONS = ["add/remove pairing are enumerated on IP and BLE (as the property's quantifier states); CoAP management calls are not in the grid"]
TIERS = {"quick": {"runs": len(GRID), "wall": 100}, "thorough": {"runs": len(GRID) * 40, "wall": 1500}}


def gen_plan(seed: int, tier: str) -> dict:
    cell = dict(GRID[seed % len(GRID)])
    r = random.Random(seed)
    cell.update({"cell": seed % len(GRID), "mseed": r.randrange(10**9), "acc_id": "AA:BB:CC:00:11:%02X" % r.randrange(256),
                 "code_str": "%03d-%02d-%03d" % (r.randrange(1000), r.randrange(100), r.randrange(1000)), "ops": []})
    return cell


def _mut_for(cell) -> dict:
    kind = {"setup_m2": "error2", "setup_m4": "error4", "setup_m6": "error6", "verify_m2": "error", "verify_m4": "error4", "resume_m2": "error"}.get(cell["step"], "pairings")
    return {"kind": kind, "code": cell["code"], "state": cell["state"], "keep_fields": cell["keep"], "error_first": cell["first"], "foreign_first": cell.get("foreign", False)}


def execute(plan: dict, ch: Chooser) -> dict:
    from aiohomekit.exceptions import HomeKitException

    ctx = Ctx(ch)
    seams.begin(ctx)
    cell = plan
    step, driver = cell["step"], cell["driver"]
    mut = _mut_for(cell)
    result, exc = None, None
    try:
        if step.startswith("setup"):
            p = {"driver": driver, "code": cell["code_str"], "mut": None, "mseed": cell["mseed"], "acc_id": cell["acc_id"], "with_auth": False}
            orig = c03.build_mut
            c03.build_mut = lambda kind, r, ch_: (mut, None)
            try:
                p["mut"] = "c04"
                out = c03.run_exchange(p, ch, ctx)
            finally:
                c03.build_mut = orig
            result, exc = out["result"], out["exc"]
        elif step.startswith("verify"):
            result, exc = _run_verify(cell, ch, ctx, mut)
        elif step == "resume_m2":
            result, exc = _run_resume(cell, ch, ctx, mut)
        else:
            result, exc = _run_pairings(cell, ch, ctx, mut)
    finally:
        seams.end()
    # ---- oracle ---------------------------------------------------------------------------------------
    ctx.obligations += 1
    code, state = cell["code"], cell["state"]
    wrong_state = state not in ("expected", "absent")
    name = type(exc).__name__ if exc is not None else None
    desc = f"step {step} driver {driver} code {code} state {state} keep_fields {cell['keep']} error_first {cell['first']} foreign_item_first {cell.get('foreign', False)}"
    ctx.event("cell", cell.get("cell"), name, result is not None)
    if cell.get("foreign") and step not in ("add_m2", "remove_m2"):
        driver = driver + "+foreign-item-first"  # (signature component: findings are identified by the failing input)
    if code is not None or wrong_state:
        if result is not None:
            ctx.violate("error-reply-completed-as-success", f"{step}/{driver}/state={'wrong' if wrong_state else state}/code={'yes' if code is not None else 'no'}",
                        f"{desc}: operation returned {str(result)[:60]!r}")
        elif exc is None:
            ctx.violate("no-result-no-error", step, desc)
        elif wrong_state:
            if not isinstance(exc, HomeKitException):
                ctx.violate("wrong-state-non-library-error", f"{step}/{driver}/{name}", f"{desc}: raised {exc!r}, not a library error")
        else:
            want = expected_error_class(code)
            ok = name == want
            if step in ("add_m2", "remove_m2"):
                ok = isinstance(exc, HomeKitException)  # "fails with a library error": no class is documented per code for these calls
                want = "a library error (HomeKitException)"
            if not ok:
                ctx.violate("wrong-exception-class", f"{step}/{driver}/state={state}/got={name}",
                            f"{desc}: documented class {want}, raised {exc!r}")
    else:
        # no error, state expected or absent
        if cell["keep"] or step in ("verify_m4", "add_m2", "remove_m2"):  # (resume_m2 without its fields falls back to nothing useful: must fail)
            if result is None:
                ctx.violate("sanity-honest-failed", f"{step}/{driver}/{name}", f"{desc}: expected success, raised {exc!r}")
        else:
            if result is not None and step != "verify_m4":
                ctx.violate("missing-fields-completed-as-success", f"{step}/{driver}", f"{desc}: reply without the required fields returned {str(result)[:60]!r}")
    ctx.probe("cell_%s" % step)
    ctx.probe("outcome_" + (name or "success"))
    ctx.state(cell.get("cell"))
    sample = {"cell": {k: cell[k] for k in ("step", "driver", "code", "state", "keep", "first")}, "outcome": name or "success"}
    return result_of(ctx, nontrivial=code is not None or state != "expected", sample=sample)


def _identity(cell, ch):
    ident = hap.AccessoryIdentity(cell["acc_id"], ch.nbytes("acc_ltsk", 32))
    ios_ltsk = ch.nbytes("ios_ltsk", 32)
    ios_id = "c04-controller"
    pd = {"AccessoryPairingID": ident.pairing_id, "AccessoryLTPK": ident.ltpk.hex(), "iOSPairingId": ios_id, "iOSDeviceLTSK": ios_ltsk.hex(),
          "iOSDeviceLTPK": RC.ed_pub(ios_ltsk).hex()}
    return ident, pd, {ios_id: RC.ed_pub(ios_ltsk)}


def _run_verify(cell, ch, ctx, mut):
    from aiohomekit.protocol import get_session_keys

    if cell["driver"] == "ip":
        return _run_ip(cell, ch, ctx, verify_mut=mut)
    ident, pd, controllers = _identity(cell, ch)
    vr = hap.VerifyResponder(ident, controllers, ch.nbytes("eph", 32), mut=mut)
    if cell["driver"] in ("ble-link", "coap"):
        from checks.protocommon import run_ble_link, run_coap

        try:
            if cell["driver"] == "ble-link":
                return run_ble_link(ctx, ch, "PAIR_VERIFY", [lambda _: get_session_keys(pd)], vr.handle, fsize=100 + cell.get("mseed", 0) % 3 * 72)[0], None
            # error replies travel under 2.04 or under a CoAP error code (4.01 / 4.00 / 5.00), by cell
            ecode = [None, None, "UNAUTHORIZED", "BAD_REQUEST", "INTERNAL_SERVER_ERROR"][cell.get("mseed", 0) % 5]
            return run_coap(ctx, ch, "verify", vr.handle, pairing_data=pd, error_code=ecode)[0], None
        except Exception as e:  # noqa: BLE001
            return None, e
    pipe = Pipe("ip" if cell["driver"] == "pipe-ip" else "ble")
    try:
        return pipe.run(get_session_keys(pd), vr.handle), None
    except Exception as e:  # noqa: BLE001
        return None, e


def _run_resume(cell, ch, ctx, mut):
    """an honest full pair-verify first (BLE-style decoding), then a resume attempt whose M2 carries the genuine resume
    fields (method, new session id, tag proving the previous secret) plus the cell's error / state variant"""
    from aiohomekit.protocol import get_session_keys

    ident, pd, controllers = _identity(cell, ch)
    sessions: dict = {}
    vr0 = hap.VerifyResponder(ident, controllers, ch.nbytes("eph0", 32), sessions=sessions, new_session_id=ch.nbytes("sid0", 8))
    try:
        sid, derive = Pipe("ble").run(get_session_keys(pd), vr0.handle)
    except Exception as e:  # noqa: BLE001
        ctx.violate("sanity-honest-failed", "resume-prelude", f"honest full verify before the resume failed: {e!r}")
        return None, e
    sessions[vr0.session_id()] = vr0.shared
    vr = hap.VerifyResponder(ident, controllers, ch.nbytes("eph", 32), mut=mut, sessions=sessions, new_session_id=ch.nbytes("sid1", 8))
    try:
        res = Pipe("ble").run(get_session_keys(pd, sid, derive), vr.handle), None
    except Exception as e:  # noqa: BLE001
        return None, e
    if not vr.resumed:
        ctx.violate("harness", "resume-not-offered", "the reference accessory did not answer with a resume reply")
    ctx.probe("resume_reply_sent")
    return res


def _run_pairings(cell, ch, ctx, mut):
    if cell["driver"] == "ble":
        return _run_ble_pairings(cell, ch, ctx, mut)
    return _run_ip(cell, ch, ctx, pairings_mut=mut)


def _run_ble_pairings(cell, ch, ctx, mut):
    """real BlePairing.add_pairing / remove_pairing over the simulated bleak backend; the reference GATT accessory answers the
    pairings characteristic with the cell's scripted reply"""
    import bleak  # noqa: F401
    from refimpl import ble_accessory as ba
    from worlds import ble as wble
    from worlds import disc

    seams.install_ble()
    disc.install()
    wble.install()
    loop = SimLoop(max_iterations=400_000)
    ctx.loop = loop
    ident = hap.AccessoryIdentity("aa:bb:cc:dd:ee:04", ch.nbytes("ltsk", 32))
    ios_ltsk = ch.nbytes("ios", 32)
    acc = ba.BleAccessory(ident, {"ios-1": RC.ed_pub(ios_ltsk)}, ba.standard_services([]), eph=lambda w_, n: ch.nbytes("acc." + w_, n))
    wble.SimLink(ctx, "00:11:22:33:44:04", acc, {"mtu": 247})
    acc.frag_size = 244
    acc.pairings_mut = lambda method, reply: hap.VerifyResponder._error_reply(b"\x02", mut, reply)
    res = {"result": None, "exc": None}

    async def main():
        from aiohomekit.characteristic_cache import CharacteristicCacheMemory
        from aiohomekit.controller.ble.controller import BleController

        c = BleController(char_cache=CharacteristicCacheMemory())
        await c.async_start()
        dev, adv = disc.ble_objects("00:11:22:33:44:04", "SimBLE", {76: disc.regular_advert("aa:bb:cc:dd:ee:04", gsn=1, cn=1)})
        c._device_detected(dev, adv)
        rec = {"AccessoryPairingID": "aa:bb:cc:dd:ee:04", "AccessoryLTPK": ident.ltpk.hex(), "iOSPairingId": "ios-1", "iOSDeviceLTSK": ios_ltsk.hex(),
               "iOSDeviceLTPK": RC.ed_pub(ios_ltsk).hex(), "Connection": "BLE", "AccessoryAddress": "00:11:22:33:44:04"}
        p = c.load_pairing("alias", rec)
        try:
            if cell["step"] == "add_m2":
                await p.add_pairing("other-controller", (b"\x11" * 32).hex(), "User")
                res["result"] = "done"
            else:
                r_ = await p.remove_pairing("other-controller")
                res["result"] = "done" if r_ is not False else None
        except Exception as e:  # noqa: BLE001
            res["exc"] = e
        try:
            await p.shutdown()
        except Exception:  # noqa: BLE001
            pass

    try:
        loop.run_sim(main())
    except SimDeadlock as e:
        ctx.violate("deadlock", "ble", str(e))
    return res["result"], res["exc"]


def _run_ip(cell, ch, ctx, verify_mut=None, pairings_mut=None):
    from worlds.ip import IpWorld

    loop = SimLoop(max_iterations=100_000)
    w = IpWorld(ctx, loop, {"hosts": [["10.0.0.1", "genuine"]], "seg": "whole"})
    res = {"result": None, "exc": None}

    async def main():
        p = w.make_pairing()
        try:
            if verify_mut is not None:
                w.forced_verify_mut.append(verify_mut)
                await p.connection._connect_once()
                res["result"] = "secure" if p.connection.is_secure else None
                if res["result"] is None:
                    res["exc"] = RuntimeError("not secure, no exception")
            else:
                def pm(method, items):
                    return hap.VerifyResponder._error_reply(b"\x02", pairings_mut, items)

                w.pairings_mut = pm
                if cell["step"] == "add_m2":
                    res["result"] = await p.add_pairing("other-controller", (b"\x11" * 32).hex(), "User")
                else:
                    res["result"] = await p.remove_pairing("other-controller")
                if res["result"] is not True:
                    res["result"] = None if not res["result"] else res["result"]
        except Exception as e:  # noqa: BLE001
            res["exc"] = e
            res["result"] = None
        try:
            await p.shutdown()
        except Exception:  # noqa: BLE001
            pass

    try:
        loop.run_sim(main())
    except SimDeadlock as e:
        res["exc"] = e
    finally:
        w.finish()
    return res["result"], res["exc"]


def evidence_extra(stats, tier):
    visited = sum(1 for k in stats if k.startswith("cell_"))
    return {"grid_size": len(GRID), "exhaustive": False}
