"""C03 - pair-setup returns pairing data only after a fully authenticated exchange.
(also hosts the machinery C02 reuses)

Drivers: 'pipe' = the bare generators perform_pair_setup_part1/part2 over a message pipe (IP-style
decoding with the `expected` filter, or BLE-style without); 'ip' = IpDiscovery.async_start_pairing +
finish_pairing over the simulated network against the reference IP accessory.
"""

from __future__ import annotations

import asyncio
import random

from checks.protocommon import Pipe, delivered_items
from refimpl import crypto as RC
from refimpl import hap, tlv8
from simkit import seams
from simkit.core import Chooser, Ctx, result_of
from simkit.loop import SimDeadlock, SimLoop

PROP = "C03"
LEVEL = "exploration"
RULE = (
    "one run = one pair-setup exchange between the real controller code and the reference accessory (own SRP-6a server, HKDF, AEAD, "
    "Ed25519), setup code / salt / SRP secrets / identities from the seed, through a seeded driver (generator pipe with IP- or BLE-style "
    "decoding, or the full IpDiscovery driver on the simulated network). The accessory is honest or applies one seeded mutation: single-bit / "
    "single-byte corruption, removal, duplication or resizing of any M2/M4/M6 field, truncation of a message at a seeded offset, forged proof "
    "from an accessory with another setup code, M6 encrypted under another key or nonce label, signed by another long-term key, over another "
    "identifier / key, with the controller-sign HKDF labels, or inner sub-TLV mutations. Oracles: data returned => an independent verifier "
    "accepts the DELIVERED M4 proof and M6 (decrypts, fields present, signature valid) and the accessory verified M5; returned record "
    "self-consistent (public(LTSK)==LTPK, accessory id/key == authenticated ones); honest => data returned and a pair-verify with the record "
    "succeeds; otherwise an exception and nothing returned. Non-trivial = a mutation was applied or the cross-check pair-verify ran; "
    "distinct by event-log digest."
)
REAL = ["aiohomekit.protocol.perform_pair_setup_part1/part2", "aiohomekit.crypto.srp.SrpClient", "aiohomekit.protocol.tlv", "aiohomekit.crypto.hkdf/chacha20poly1305",
        "aiohomekit.controller.ip.discovery.IpDiscovery + HomeKitConnection (ip driver)", "aiohomekit.protocol.get_session_keys (cross-check)"]
STUB = ["accessory (reference SetupResponder)", "transport: message pipe or simulated TCP", "entropy (os.urandom / key generation seams)"]
ASSUMPTIONS = ["reference SRP follows RFC 5054 with fixed-width 384-byte A, B, S (HomeKit padding); HKDF labels and transcript orders from the HAP specification"]
TIERS = {"quick": {"runs": 4000, "wall": 55}, "thorough": {"runs": 150000, "wall": 1500}}

MUT_KINDS = [
    None, None, None,
    "m2_bit_pk", "m2_bit_salt", "m2_byte_pk", "m2_drop_pk", "m2_drop_salt", "m2_setlen_pk", "m2_dup_salt",
    "m4_bit_proof", "m4_byte_proof", "m4_drop_proof", "m4_forge", "m4_setlen_proof", "wrong_code_accessory",
    "m6_state_altered", "m6_error_with_data", "m4_state_altered", "m4_error_with_data", "m2_error_with_data",
    "m6_bit_enc", "m6_byte_enc", "m6_drop_enc", "m6_wrong_key", "m6_wrong_nonce", "m6_wrong_ltsk", "m6_sign_other_id", "m6_sign_other_pk", "m6_wrong_x",
    "m6_inner_bit_sig", "m6_inner_bit_id", "m6_inner_bit_pk", "m6_inner_drop_sig", "m6_inner_drop_id", "m6_inner_drop_pk",
    "trunc_m2", "trunc_m4", "trunc_m6", "reorder_m2", "reorder_m6",
    "m6_rival_after_unsigned", "m6_rival_before_unsigned", "m6_rival_after_signed", "m6_rival_before_signed",
]


def gen_plan(seed: int, tier: str) -> dict:
    r = random.Random(seed)
    code = "%03d-%02d-%03d" % (r.randrange(1000), r.randrange(100), r.randrange(1000))
    return {
        "driver": r.choice(["pipe-ip", "pipe-ip", "pipe-ble", "ip", "ble-link", "coap"]), "fsize": r.choice([23, 100, 155, 244, 512]), "tlv_frag": r.choice([None, None, 100, 255, 400]),
        "code": code,
        "mut": r.choice(MUT_KINDS),
        "mseed": r.randrange(10**9),
        # the identifier is whatever the accessory says in M6: upper-case MAC form (the spec's), lower / mixed case, free-form
        "acc_id": (lambda mac: r.choice([mac, mac, mac.lower(), mac[:8] + mac[8:].lower(), "Living Room Bridge %d" % r.randrange(100), "é-%d" % r.randrange(100)]))(
            ":".join(f"{r.randrange(256):02X}" for _ in range(6))),
        "with_auth": r.random() < 0.3,
        # the application calls the finish function again with ANOTHER (wrong) setup code: after the first call ended, while it is
        # still waiting for a reply, or after it was cancelled by the caller's own time-out (ip driver)
        "second_call": r.choice([None, None, None, "wrong_after", "wrong_during", "cancel_then_wrong"]), "second_ticks": r.choice([0, 1, 3, 10, 40]),
        "ops": [],
    }


def build_mut(kind: str | None, r: random.Random, ch: Chooser) -> tuple[dict | None, dict | None]:
    """-> (SetupResponder mut, wire truncation spec)"""
    if kind is None:
        return None, None
    bit = r.randrange(1 << 14)
    f = {"pk": hap.T_PUBKEY, "salt": hap.T_SALT, "proof": hap.T_PROOF, "enc": hap.T_ENC, "sig": hap.T_SIG, "id": hap.T_ID}
    if kind.endswith("_state_altered"):
        # every other field intact and authentic; only the outer step number differs
        return {"kind": {"m4": "outer4", "m6": "outer6"}[kind[:2]], "outer": {"kind": "byte", "field": hap.T_STATE, "off": 0, "x": r.choice([2, 0x80, 4, 1, 0xFF])}}, None
    if kind.endswith("_error_with_data"):
        # an error code next to otherwise complete, authentic fields
        return {"kind": {"m2": "error2", "m4": "error4", "m6": "error6"}[kind[:2]], "code": r.choice([1, 2, 3, 4, 5, 6, 7, 9]), "state": "expected", "keep_fields": True,
                "error_first": r.random() < 0.5}, None
    if kind.startswith("m2_") or kind.startswith("m4_") or kind.startswith("m6_bit") or kind.startswith("m6_byte") or kind == "m6_drop_enc":
        stage = {"m2": "outer2", "m4": "outer4", "m6": "outer6"}[kind[:2]]
        _, op, field = kind.split("_", 2) if kind.count("_") == 2 else (None, kind.split("_")[1], None)
        if kind == "m4_forge":
            return {"kind": "forge_proof", "proof": ch.nbytes("forge", 64)}, None
        o = {"field": f[field]}
        if op == "bit":
            o.update(kind="bitflip", bit=bit)
        elif op == "byte":
            o.update(kind="byte", off=r.randrange(4096), x=r.randrange(255))
        elif op == "drop":
            o.update(kind="drop")
        elif op == "setlen":
            o.update(kind="setlen", n=r.choice([0, 1, 31, 63, 383, 385]) if field != "proof" else r.choice([0, 1, 63, 65]))
        elif op == "dup":
            o.update(kind="dup")
        return {"kind": stage, "outer": o}, None
    if kind == "wrong_code_accessory":
        return {"kind": "__wrong_code__"}, None
    if kind == "m6_wrong_key":
        return {"kind": "m6_wrong_key", "key": ch.nbytes("wrongkey", 32)}, None
    if kind == "m6_wrong_nonce":
        return {"kind": "m6_wrong_nonce", "label": r.choice([b"PS-Msg05", b"PS-Msg04", b"PV-Msg02", b"PS-Msg07"])}, None
    if kind == "m6_wrong_ltsk":
        return {"kind": "m6_wrong_ltsk", "ltsk": ch.nbytes("wrongltsk", 32)}, None
    if kind == "m6_sign_other_id":
        return {"kind": "m6_sign_other_id", "id": "11:22:33:44:55:66"}, None
    if kind == "m6_sign_other_pk":
        return {"kind": "m6_sign_other_pk", "pk": RC.ed_pub(ch.nbytes("otherpk", 32))}, None
    if kind == "m6_wrong_x":
        return {"kind": "m6_wrong_x"}, None
    if kind.startswith("m6_rival_"):
        _, _, where, signed = kind.split("_")
        return {"kind": "m6_rival", "where": where, "signed": signed == "signed", "id": "11:22:33:44:55:66", "ltsk": ch.nbytes("rival_ltsk", 32)}, None
    if kind.startswith("m6_inner_"):
        _, _, op, field = kind.split("_")
        o = {"field": f[field]}
        if op == "bit":
            o.update(kind="bitflip", bit=bit)
        else:
            o.update(kind="drop")
        return {"kind": "inner6", "inner": o}, None
    if kind.startswith("trunc_"):
        return None, {"step": {"m2": 0, "m4": 1, "m6": 2}[kind[6:]], "frac": r.random()}
    if kind.startswith("reorder_"):
        return {"kind": "outer2" if kind.endswith("m2") else "outer6", "outer": {"kind": "reorder", "rot": 1}}, None
    raise ValueError(kind)


def verify_delivered(setup: hap.SetupResponder, delivered: list[bytes]) -> tuple[bool, str, dict]:
    """independent controller-side judgement of the delivered M4 and M6"""
    info: dict = {}
    if len(delivered) < 3:
        return False, "exchange shorter than three replies", info
    m4 = delivered_items(delivered[1])
    m6 = delivered_items(delivered[2])
    if m4 is None or m6 is None:
        return False, "undecodable reply", info
    d4, d6 = tlv8.to_dict(m4), tlv8.to_dict(m6)
    srp = setup.srp
    if srp is None or not hasattr(srp, "K"):
        return False, "accessory never computed K", info
    if d4.get(hap.T_PROOF) is None or int.from_bytes(d4[hap.T_PROOF], "big") != int.from_bytes(srp.M2, "big"):
        return False, "delivered M4 proof is not the accessory proof for this exchange", info
    if hap.T_ERROR in d4 or hap.T_ERROR in d6 or hap.T_ERROR in tlv8.to_dict(delivered_items(delivered[0]) or []):
        return False, "error TLV present", info
    if d4.get(hap.T_STATE, b"\x04") != b"\x04" or d6.get(hap.T_STATE, b"\x06") != b"\x06":
        return False, "step number of M4/M6 altered", info
    kenc = RC.hkdf(srp.K, b"Pair-Setup-Encrypt-Salt", b"Pair-Setup-Encrypt-Info")
    pt = RC.unseal(kenc, RC.nonce_label(b"PS-Msg06"), d6.get(hap.T_ENC, b""))
    if pt is None:
        return False, "delivered M6 does not decrypt under the exchange key / PS-Msg06", info
    try:
        sub = tlv8.to_dict(tlv8.decode(pt, strict=False))
    except tlv8.TLVError:
        return False, "M6 sub-TLV malformed", info
    ident, pk, sig = sub.get(hap.T_ID), sub.get(hap.T_PUBKEY), sub.get(hap.T_SIG)
    if not ident or pk is None or sig is None:
        return False, "M6 lacks identifier / key / signature", info
    ax = RC.hkdf(srp.K, b"Pair-Setup-Accessory-Sign-Salt", b"Pair-Setup-Accessory-Sign-Info")
    # A message may carry an item type more than once (not adjacent); which occurrence a decoder prefers is not the
    # property's business. What is: the identity RETURNED must be one that some signature in the message covers under
    # the key returned with it. 'pairs' = every (identifier, key) of the message for which that holds.
    items6 = tlv8.decode(pt, strict=False)
    ids = [v for t, v in items6 if t == hap.T_ID and v]
    pks = [v for t, v in items6 if t == hap.T_PUBKEY and len(v) == 32]
    sigs = [v for t, v in items6 if t == hap.T_SIG]
    pairs = [(i, p) for i in ids for p in pks if any(RC.ed_verify(p, s, ax + i + p) for s in sigs)]
    if not pairs:
        return False, "M6 signature not valid for AccessoryX|id|LTPK under the presented key", info
    info.update(pairs=pairs, ambiguous=len(ids) > 1 or len(pks) > 1 or len(sigs) > 1)
    return True, "", info


def run_exchange(plan: dict, ch: Chooser, ctx: Ctx, urandom_hook=None, controller_code: str | None = None):
    """returns dict(result=..., exc=..., setup=SetupResponder, delivered=[bytes], pipe=Pipe)"""
    r = random.Random(plan["mseed"])
    mut, trunc = build_mut(plan["mut"], r, ch)
    ident = hap.AccessoryIdentity(plan["acc_id"], ch.nbytes("acc_ltsk", 32))
    acc_code = plan["code"]
    if mut and mut.get("kind") == "__wrong_code__":
        acc_code = "999-99-998" if plan["code"] != "999-99-998" else "123-45-678"
        mut = None
    salt = plan.get("salt_hex") and bytes.fromhex(plan["salt_hex"]) or ch.nbytes("srp_salt", 16)
    b = int(plan["b_hex"], 16) if plan.get("b_hex") else int.from_bytes(ch.nbytes("srp_b", 32), "big")
    setup = hap.SetupResponder(ident, acc_code, salt, b, mut=mut)
    out = {"setup": setup, "ident": ident, "result": None, "exc": None, "delivered": [], "noncanonical": 0}
    seams.CUR.urandom_hook = urandom_hook
    pin = controller_code or plan["code"]

    def wire_hook(step, rb):
        if trunc and step == trunc["step"] and len(rb) > 1:
            n = max(0, min(len(rb) - 1, int(len(rb) * trunc["frac"])))
            return rb[:n]
        return rb

    try:
        if plan["driver"].startswith("pipe"):
            from aiohomekit.protocol import perform_pair_setup_part1, perform_pair_setup_part2

            pipe = Pipe("ip" if plan["driver"] == "pipe-ip" else "ble")
            pipe.wire_hook = wire_hook
            try:
                salt_, pub_ = pipe.run(perform_pair_setup_part1(plan["with_auth"]), setup.handle)
                pipe2 = Pipe(pipe.style)
                pipe2.wire_hook = lambda step, rb: wire_hook(step + 1, rb)
                try:
                    out["result"] = pipe2.run(perform_pair_setup_part2(pin, "ios-" + str(ch.nint("iosid", 10**9)), salt_, pub_), setup.handle)
                finally:
                    out["delivered"] = pipe.delivered + pipe2.delivered
                    out["noncanonical"] = pipe.noncanonical_requests + pipe2.noncanonical_requests
            except Exception as e:  # noqa: BLE001
                out["exc"] = e
                if not out["delivered"]:
                    out["delivered"] = pipe.delivered
        elif plan["driver"] in ("ble-link", "coap"):
            from aiohomekit.protocol import perform_pair_setup_part1, perform_pair_setup_part2
            from checks.protocommon import run_ble_link, run_coap

            try:
                if plan["driver"] == "ble-link":
                    ios_id = "ios-" + str(ch.nint("iosid", 10**9))
                    out["result"], out["delivered"] = run_ble_link(
                        ctx, ch, "PAIR_SETUP", [lambda _: perform_pair_setup_part1(plan["with_auth"]), lambda sp: perform_pair_setup_part2(pin, ios_id, sp[0], sp[1])],
                        setup.handle, wire_hook, fsize=plan.get("fsize", 100), tlv_frag=plan.get("tlv_frag"))
                else:
                    out["result"], out["delivered"] = run_coap(ctx, ch, "setup", setup.handle, wire_hook, pin=pin, with_auth=plan["with_auth"])
            except Exception as e:  # noqa: BLE001
                out["exc"] = e
                out["delivered"] = getattr(e, "delivered", [])
        else:
            out.update(_run_ip(plan, ch, ctx, setup, ident, pin, wire_hook))
    finally:
        seams.CUR.urandom_hook = None
    return out


def _run_ip(plan, ch, ctx, setup, ident, pin, wire_hook):
    from refimpl import http as rhttp
    from worlds.ip import IpWorld

    loop = SimLoop(max_iterations=100_000)
    w = IpWorld(ctx, loop, {"hosts": [["10.0.0.1", "genuine"]], "seg": "random"})
    w.acc.controllers.clear()  # unpaired accessory
    w.acc.admins.clear()
    res = {"result": None, "exc": None, "delivered": [], "recording": True}
    step = [0]

    def http_override(session, req, serial):
        if req.target != "/pair-setup":
            return None
        items = tlv8.decode(req.body, strict=False)
        reply = setup.handle(items)
        if setup.m5_ok and setup.paired_controller:
            w.acc.controllers[setup.paired_controller[0]] = setup.paired_controller[1]
        rb = wire_hook(step[0], tlv8.encode(reply))
        step[0] += 1
        if res["recording"]:
            res["delivered"].append(rb)
        return rhttp.response(200, rb, "application/pairing+tlv8")

    w.http_override = http_override
    w.hooks.http_override = lambda s, rq, sr: http_override(s, rq, sr)

    async def main():
        from aiohomekit.characteristic_cache import CharacteristicCacheMemory
        from aiohomekit.controller.ip.controller import IpController
        from aiohomekit.controller.ip.discovery import IpDiscovery
        from worlds.ip import FakeZeroconf

        desc = w.description(["10.0.0.1"])
        from aiohomekit.model.feature_flags import FeatureFlags

        desc.feature_flags = FeatureFlags(1 if plan["with_auth"] else 0)
        controller = IpController(char_cache=CharacteristicCacheMemory(), zeroconf_instance=FakeZeroconf())
        disc = IpDiscovery(controller, desc)
        wrong = "135-79-246" if pin != "135-79-246" else "246-80-135"
        mode = plan.get("second_call")

        async def call_wrong(why):
            """a call with a setup code the accessory does not know can never legitimately produce pairing data"""
            ctx.probe("second_finish_call_" + why)
            ctx.obligations += 1
            res["recording"] = False  # what the accessory answers to THIS call is not part of the exchange that is judged
            try:
                p2 = await finish(wrong)
            except Exception:  # noqa: BLE001
                return
            if p2 is not None:
                ctx.violate("unauthenticated-pairing-accepted", "call-with-a-wrong-code-returned-data/" + why,
                            f"finish_pairing({wrong!r}) returned pairing data although the accessory only knows {pin!r} ({why})")

        try:
            finish = await disc.async_start_pairing("alias")
            if mode == "wrong_during":
                res["disturbed"] = True  # two exchanges overlapping on one connection: the honest one may legitimately fail
                res["skip_judge"] = True  # ... and the replies of the two interleave: only the wrong-code call is judged in these runs
                first = loop.create_task(finish(pin))
                for _ in range(plan.get("second_ticks", 0)):
                    await asyncio.sleep(0)
                await call_wrong("while-the-first-call-is-waiting")
                pairing = await first
            elif mode == "cancel_then_wrong":
                res["disturbed"] = True
                try:
                    pairing = await asyncio.wait_for(finish(pin), 0.0005 * (1 + plan.get("second_ticks", 0)))
                except asyncio.TimeoutError:
                    pairing = None
                    await asyncio.sleep(2.0)
                    await call_wrong("after-the-first-call-was-cancelled")
                    raise
            else:
                pairing = await finish(pin)
            res["result"] = dict(pairing.pairing_data)
            if mode == "wrong_after":
                await call_wrong("after-the-first-call-succeeded")
            await pairing.shutdown()
        except Exception as e:  # noqa: BLE001
            res["exc"] = e
            if mode == "wrong_after" and "finish" in locals():
                await call_wrong("after-the-first-call-failed")
        finally:
            try:
                await disc.close()
            except Exception:  # noqa: BLE001
                pass

    try:
        loop.run_sim(main())
    except SimDeadlock as e:
        res["exc"] = e
        ctx.violate("deadlock", "ip", str(e))
    finally:
        w.finish()
    return res


def judge(plan, ctx: Ctx, out: dict, prefix: str = "") -> None:
    setup: hap.SetupResponder = out["setup"]
    res, exc = out["result"], out["exc"]
    if out.get("skip_judge"):
        ctx.probe("overlapping_finish_calls_only_second_judged")
        return
    ok, why, info = verify_delivered(setup, out["delivered"])
    ctx.obligations += 1
    mut = plan["mut"]
    ctx.event("wire", __import__("hashlib").blake2b(b"|".join(out["delivered"]), digest_size=8).hexdigest())
    ctx.event("setup", plan["driver"], mut, res is not None, type(exc).__name__ if exc else None, ok)
    if res is not None:
        if not ok:
            ctx.violate(prefix + "unauthenticated-pairing-accepted", str(mut), f"driver {plan['driver']} mutation {mut}: pairing data returned although {why}")
            return
        if not setup.m5_ok:
            ctx.violate(prefix + "m5-rejected-by-accessory", "", f"pairing data returned but the reference accessory rejected M5: {setup.m5_reason}")
        # self-consistency
        try:
            ltsk = bytes.fromhex(res["iOSDeviceLTSK"])
            ltpk = bytes.fromhex(res["iOSDeviceLTPK"])
            if RC.ed_pub(ltsk) != ltpk:
                ctx.violate(prefix + "record-inconsistent", "ltsk-ltpk", "returned iOSDeviceLTSK and iOSDeviceLTPK do not belong together")
            if setup.paired_controller and (setup.paired_controller[1] != ltpk or setup.paired_controller[0] != res["iOSPairingId"]):
                ctx.violate(prefix + "record-inconsistent", "m5-identity", "the identity the accessory stored from M5 differs from the returned record")
            if (res["AccessoryPairingID"].encode(), bytes.fromhex(res["AccessoryLTPK"])) not in info["pairs"]:
                ctx.violate(prefix + "record-inconsistent", "accessory-identity", "returned accessory id/LTPK are not the authenticated ones")
        except (KeyError, ValueError) as e:
            ctx.violate(prefix + "record-inconsistent", "malformed", f"returned record malformed: {e!r}")
    else:
        if exc is None:
            ctx.violate(prefix + "no-result-no-error", str(mut), "pairing returned nothing and raised nothing")
        elif mut is None and plan.get("expect_success", True) and not out.get("disturbed"):
            ctx.violate(prefix + "honest-exchange-failed", type(exc).__name__,
                        f"driver {plan['driver']}: honest accessory, correct code, but pairing failed with {exc!r}; accessory: m3_ok={setup.m3_ok} m5_ok={setup.m5_ok} {setup.m5_reason}")
    if out.get("noncanonical"):
        ctx.probe("noncanonical_request_tlv", out["noncanonical"])


def cross_check_verify(plan, ctx: Ctx, ch: Chooser, out: dict, prefix: str = "") -> None:
    """use the returned record for a pair-verify against the same accessory identity"""
    from aiohomekit.protocol import get_session_keys

    res = out["result"]
    ident = out["ident"]
    vr = hap.VerifyResponder(ident, {res["iOSPairingId"]: bytes.fromhex(res["iOSDeviceLTPK"])}, ch.nbytes("verify_eph", 32))
    pipe = Pipe("ip")
    try:
        r = pipe.run(get_session_keys(dict(res)), vr.handle)
    except Exception as e:  # noqa: BLE001
        ctx.violate(prefix + "record-unusable", type(e).__name__, f"pair-verify with the freshly returned record failed: {e!r} (accessory: {vr.m3_reason})")
        return
    ctx.obligations += 1
    if not vr.m3_accept:
        ctx.violate(prefix + "record-unusable", "m3", f"accessory rejected the controller proof made from the returned record: {vr.m3_reason}")
    _, derive = r
    a2c, c2a = vr.control_keys()
    if derive(b"Control-Salt", b"Control-Read-Encryption-Key") != a2c or derive(b"Control-Salt", b"Control-Write-Encryption-Key") != c2a:
        ctx.violate(prefix + "record-unusable", "keys", "session keys differ after verify with the returned record")


def execute(plan: dict, ch: Chooser) -> dict:
    ctx = Ctx(ch)
    seams.begin(ctx)
    try:
        out = run_exchange(plan, ch, ctx)
        judge(plan, ctx, out)
        if out["result"] is not None and not ctx.violations and out["result"].get("AccessoryPairingID") == out["ident"].pairing_id:
            # (with two authenticated identities in one M6 the stored one may legitimately be the rival)
            cross_check_verify(plan, ctx, ch, out)
    finally:
        seams.end()
    ctx.probe("driver_" + plan["driver"])
    ctx.probe("outcome_" + ("data" if out["result"] is not None else type(out["exc"]).__name__))
    ctx.state(plan["driver"], plan["mut"], out["result"] is not None, type(out["exc"]).__name__ if out["exc"] else None)
    sample = {"driver": plan["driver"], "mutation": plan["mut"], "outcome": "pairing data" if out["result"] is not None else repr(out["exc"])[:80]}
    return result_of(ctx, nontrivial=True, sample=sample)
