"""C11 - a pairing never holds more than one open connection and leaks none (IP)."""
from __future__ import annotations

from checks import c10
from checks.ipcommon import REAL_IP, STUB_IP, execute_filtered

PROP = "C11"
LEVEL = "exploration"
RULE = c10.RULE + (" C11 oracle: after every simulator step in which all runnable callbacks have run (time about to advance) the set of "
                   "TCP connections whose controller end is open contains at most the connection in use; close()/shutdown() never raise "
                   "and leave none open; loss of an abandoned connection never closes the one in use.")
REAL = REAL_IP
STUB = STUB_IP
ASSUMPTIONS = c10.ASSUMPTIONS + ["a connection counts as closed by the controller from the moment it calls transport.close()/socket.close() (send-buffer drain time is not held against it)"]
TIERS = {"quick": {"runs": 20000, "wall": 60}, "thorough": {"runs": 300000, "wall": 1500}}


def gen_plan(seed: int, tier: str) -> dict:
    return c10.gen_plan(seed, tier, focus="c11")


def execute(plan, ch):
    return execute_filtered(plan, ch, ("C11.",))
