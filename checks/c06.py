"""C06 - no nonce is reused and no encrypted message is accepted twice or out of order (IP, BLE, CoAP).

Observation without repo hooks: the AEAD class names the library uses are rebound to recording
proxies around the real ciphers (simkit/aead_spy.py); every (key, nonce, direction, success) is
logged.  The reference peers additionally reject, on the wire, any frame that does not validate
under the next counter (refactor-proof view).
"""

from __future__ import annotations

import asyncio
import random

from simkit import aead_spy, seams
from simkit.core import Chooser, Ctx, result_of
from simkit.loop import SimDeadlock, SimLoop

# ---- enumerated short histories (all of depth <= 3 in the quick tier, depth 4 in the thorough tier) ----------------
IP_ALPHA = ["req", "bigreq", "replay", "future", "corrupt", "cancel", "timeout"]
BLE_ALPHA = ["get", "put", "disconnect", "cancel_get", "replay_fragment", "corrupt_fragment"]
COAP_ALPHA = ["ok", "lost", "reply_lost", "notfound", "replay", "corrupt", "neterr", "cancel", "cancel_early", "future"]


def _words(alpha, depth):
    import itertools

    return [w for d in range(1, depth + 1) for w in itertools.product(alpha, repeat=d)]


def _build_enum():
    out = []
    for mode, alpha in (("coap", COAP_ALPHA), ("ble", BLE_ALPHA), ("ip", IP_ALPHA)):
        out += [(mode, w) for w in _words(alpha, 3)]
    n3 = len(out)
    import itertools

    for mode, alpha in (("coap", COAP_ALPHA), ("ble", BLE_ALPHA), ("ip", IP_ALPHA)):
        out += [(mode, w) for w in itertools.product(alpha, repeat=4)]
    return out, n3


ENUM, N_DEPTH3 = _build_enum()

PROP = "C06"
LEVEL = "exploration"
RULE = (
    "first, every history of depth <= 3 (quick) / <= 4 (thorough) over the per-transport alphabets ip {request, request longer than one frame, replay of an "
    "earlier genuine frame, frame under a future counter, corrupted frame, cancelled request, 30 s time-out}, ble {get, put, disconnect, cancelled get, replayed "
    "fragment, corrupted fragment}, coap {ok, request lost, reply lost, 4.04, replayed reply, corrupted reply, network error, cancel after/before arrival, reply "
    "under a future counter} is executed once with fixed parameters (run index < " + str(N_DEPTH3) + " resp. " + str(len(ENUM)) + "); then seeded histories per transport. ip: the C08 workload (concurrent callers, delays around the 30 s timer, stalls, truncation, cancellations, "
    "peer FIN/RST) plus injected replays of earlier genuine encrypted frames and frames sealed under a future counter, on the real IpPairing "
    "over simulated TCP. ble: real BlePairing over the simulated bleak backend - reads/writes of seeded sizes, link drops at seeded GATT "
    "operations, failing operations, caller cancellations, reconnects with and without session resume, accessory-side replay of an earlier "
    "encrypted fragment / corrupted fragment. coap: real CoAPPairing over the simulated aiocoap context - requests with replies that are "
    "genuine, lost (timeout), 4.04, a replay of an earlier genuine reply, corrupted; reconnects. Oracle over the AEAD log: per key, encrypt "
    "nonces pairwise distinct; successful decrypt counters strictly increasing; no ciphertext accepted twice; reference peers saw only "
    "next-in-order counters. Non-trivial = a replay/future/corrupt injection, a drop or a cancellation happened; distinct by event-log digest."
)
REAL = ["aiohomekit.controller.ip.connection.SecureHomeKitProtocol + full IP stack", "aiohomekit.controller.ble.key / client / pairing (full BLE stack)",
        "aiohomekit.controller.coap.connection.EncryptionContext + pairing", "aiohomekit.crypto.chacha20poly1305 (real ciphers behind the recording proxy)"]
STUB = ["TCP / bleak backend / aiocoap message layer (simulated)", "accessories (reference peers)", "AEAD class names rebound to recording proxies (harness side)"]
ASSUMPTIONS = ["label nonces of the pairing exchanges (PV-Msg02 ...) are single-use per derived key and only checked for reuse",
               "CoAP: aiocoap's own deduplication is a stub; replays are injected at the payload level, which is where the library's counter logic decides"]
TIERS = {"quick": {"runs": 8000, "wall": 70}, "thorough": {"runs": 400000, "wall": 1500}}




def enum_plan(mode: str, word) -> dict:
    if mode == "coap":
        ops = []
        for a in word:
            if a in ("cancel", "cancel_early"):
                ops.append({"op": "cancel_get", "fault": None, "which": 0, "pos": 7, "bit": 1, "n": 1, "cancel_after": 0.006 if a == "cancel" else 0.001})
            else:
                ops.append({"op": "get", "fault": None if a == "ok" else a, "which": 2, "pos": 7, "bit": 1, "n": 1, "cancel_after": 0.0})
        return {"mode": "coap", "ops": ops, "events": 1, "lat": 0.01, "enumerated": list(word)}
    if mode == "ble":
        ops = [{"op": "get", "n": 1, "vlen": 10, "cancel_after": 0.0}] + [{"op": a, "n": 2, "vlen": 150, "cancel_after": 0.011} for a in word]
        return {"mode": "ble", "ops": ops, "mtu": 100, "drop_at": None, "fail_p": 0, "enumerated": list(word)}
    ops = [{"op": "get", "ids": [[1, 10]], "t": 0.5}]
    t = 1.5
    k = 0
    for a in word:
        k += 1
        ids = [[1, 10 + (k % 3)]]
        if a == "req":
            ops.append({"op": "get", "ids": ids, "t": t})
        elif a == "bigreq":
            ops.append({"op": "get", "ids": [[1, 2000 + 10 * k + j] for j in range(300)] + ids, "t": t})
        elif a == "replay":
            ops.append({"op": "replay_frame", "which": 0, "k": 1, "t": t})
        elif a == "future":
            ops.append({"op": "future_frame", "which": 0, "k": 1, "t": t})
        elif a == "corrupt":
            ops.append({"op": "corrupt", "where": "ct", "frame": 0, "pos": 5, "bit": 1, "t": t})
            ops.append({"op": "get", "ids": ids, "t": round(t + 0.001, 3)})
        elif a == "cancel":
            ops.append({"op": "get", "ids": ids, "t": t, "cancel_after": 0.002})
        elif a == "timeout":
            ops.append({"op": "stall", "on": True, "t": t})
            ops.append({"op": "get", "ids": ids, "t": round(t + 0.001, 3)})
            ops.append({"op": "stall", "on": False, "t": round(t + 31.0, 3)})
            t += 32.0
        t = round(t + 1.5, 3)
    profile = {"hosts": [["10.0.0.1", "genuine"]], "lat": [0.002, 0.002], "seg": "whole", "frame": "max"}
    return {"mode": "ip", "profile": profile, "ops": ops, "listeners": {"L0": {}}, "heal_at": t + 35.0, "end_at": t + 60.0, "heal_probe": 1, "allow_other_exceptions": True,
            "enumerated": list(word)}


def gen_plan(seed: int, tier: str) -> dict:
    from simkit.harness import SEED_STRIDE

    idx = seed % SEED_STRIDE
    if idx < (N_DEPTH3 if tier == "quick" else len(ENUM)):
        return enum_plan(*ENUM[idx])
    r = random.Random(seed)
    mode = r.choice(["ip"] * 5 + ["ble"] * 3 + ["coap"] * 3)
    if mode == "ip":
        from checks import c08

        plan = c08.gen_plan(seed, tier, enumerate_first=False)
        extra = []
        horizon = max([o["t"] for o in plan["ops"]] + [1.0])
        for _ in range(r.choice([0, 1, 1, 2, 3])):
            extra.append({"op": r.choice(["replay_frame", "replay_frame", "future_frame"]), "which": r.randrange(50), "k": r.choice([1, 2, 5, 100]), "t": round(r.uniform(0.01, horizon), 3)})
        for _ in range(r.choice([0, 0, 1, 2])):  # requests longer than one 1024-byte frame (several counters per request)
            extra.append({"op": "get", "ids": [[1, 1000 + k] for k in range(r.choice([150, 300, 450]))] + [[1, 17]], "t": round(r.uniform(0.01, horizon), 3)})
        plan["ops"] = sorted(plan["ops"] + extra, key=lambda o: o["t"])
        plan["mode"] = "ip"
        plan["allow_other_exceptions"] = True
        return plan
    if mode == "ble":
        ops = []
        for _ in range(r.randint(3, 10)):
            ops.append({"op": r.choice(["get", "get", "put", "put", "disconnect", "cancel_get", "replay_fragment", "corrupt_fragment", "close_dead"]), "n": r.choice([1, 2, 3]), "vlen": r.choice([1, 10, 150, 400]),
                        "cancel_after": r.choice([0.0, 0.004, 0.011, 0.03])})
        return {"mode": "ble", "ops": ops, "mtu": r.choice([100, 247]), "drop_at": r.choice([None, None, r.randrange(30, 150)]), "fail_p": r.choice([0, 0, 0.02])}
    ops = []
    for _ in range(r.randint(3, 12)):
        ops.append({"op": r.choice(["get", "get", "put", "subscribe", "cancel_get"]), "fault": r.choice([None] * 5 + ["lost", "reply_lost", "notfound", "replay", "corrupt", "neterr"]), "which": r.randrange(20), "pos": r.randrange(400),
                    "bit": r.randrange(8), "n": r.choice([1, 2, 4]), "cancel_after": r.choice([0.001, 0.004, 0.006, 0.009, 0.02])})
    return {"mode": "coap", "ops": ops, "events": r.choice([0, 1, 3]), "lat": r.choice([0.01, 0.01, 0.008])}


def execute(plan: dict, ch: Chooser) -> dict:
    import bleak  # noqa: F401

    aead_spy.install()
    aead_spy.reset()
    if plan["mode"] == "ip":
        return execute_ip(plan, ch)
    if plan["mode"] == "ble":
        return execute_ble(plan, ch)
    return execute_coap(plan, ch)


def execute_ip(plan, ch):
    from worlds.ip_scenario import run_plan

    ctx, sc = run_plan(plan, ch)
    ctx.violations = [v for v in ctx.violations if v["oracle"].startswith("SIM.")]
    stats = aead_spy.judge(ctx, "ip.")
    # wire view: the reference accessory rejects anything but the next counter
    for sess in sc.w.acc.sessions:
        if sess.error and "authentication" in sess.error:
            ctx.violate("ip.accessory-rejected-frame", "", f"reference accessory: {sess.error} (session {sess.no})")
    for k, v in stats.items():
        ctx.probe("aead_" + k, v)
    nontrivial = sc.injected_frames > 0 or any(c["exc"] for c in sc.calls)
    sample = {"mode": "ip", "ops": plan["ops"][:10], "aead": stats, "injected": sc.injected_frames}
    ctx.state("ip", min(stats["keys"], 6), sc.injected_frames > 0, stats["dec_fail"] > 0)
    return result_of(ctx, nontrivial=nontrivial, sim_time=sc.loop.time(), sample=sample)


def execute_ble(plan, ch):
    from refimpl import ble_accessory as ba
    from refimpl import crypto as RC
    from refimpl import hap
    from worlds import ble as wble
    from worlds import disc

    ctx = Ctx(ch)
    seams.begin(ctx)
    seams.install_ble()
    disc.install()
    wble.install()
    loop = SimLoop(max_iterations=600_000)
    ctx.loop = loop
    ident = hap.AccessoryIdentity("aa:bb:cc:dd:ee:06", ch.nbytes("ltsk", 32))
    ios_ltsk = ch.nbytes("ios", 32)
    chars = [ba.GChar(f"000002{0xA0 + k:02X}" + ba.BASE, 50 + k, "string" if k % 2 else "uint16", perms=("pr", "pw", "ev"), value=("s" if k % 2 else 300 + k)) for k in range(4)]
    acc = ba.BleAccessory(ident, {"ios-1": RC.ed_pub(ios_ltsk)}, ba.standard_services([ba.GService("00000043" + ba.BASE, 48, chars)]), eph=lambda w, n: ch.nbytes("acc." + w, n))
    link = wble.SimLink(ctx, "00:11:22:33:44:06", acc, {"mtu": plan["mtu"], "drop_at_op": plan["drop_at"], "fail_p": plan["fail_p"], "lat": (0.005, 0.005)})
    acc.frag_size = max(plan["mtu"], 100) - 3
    state = {"faults": 0}
    # wire-level fault: the accessory replays / corrupts a response fragment
    orig_read = acc.gatt_read
    armed = {"kind": None, "last": {}}

    def gatt_read(handle):
        out = orig_read(handle)
        if acc.enc is not None and armed["kind"] == "replay_fragment" and armed["last"].get(handle):
            armed["kind"] = None
            state["faults"] += 1
            ctx.probe("ble_replayed_fragment")
            return armed["last"][handle]
        if acc.enc is not None and armed["kind"] == "corrupt_fragment" and out:
            armed["kind"] = None
            state["faults"] += 1
            ctx.probe("ble_corrupted_fragment")
            b = bytearray(out)
            b[len(b) // 2] ^= 0x10
            return bytes(b)
        if acc.enc is not None:
            armed["last"][handle] = out
        return out

    acc.gatt_read = gatt_read

    async def main():
        from aiohomekit.characteristic_cache import CharacteristicCacheMemory
        from aiohomekit.controller.ble.controller import BleController

        c = BleController(char_cache=CharacteristicCacheMemory())
        await c.async_start()
        dev, adv = disc.ble_objects("00:11:22:33:44:06", "SimBLE", {76: disc.regular_advert("aa:bb:cc:dd:ee:06", gsn=1, cn=1)})
        c._device_detected(dev, adv)
        rec = {"AccessoryPairingID": "aa:bb:cc:dd:ee:06", "AccessoryLTPK": ident.ltpk.hex(), "iOSPairingId": "ios-1", "iOSDeviceLTSK": ios_ltsk.hex(),
               "iOSDeviceLTPK": RC.ed_pub(ios_ltsk).hex(), "Connection": "BLE", "AccessoryAddress": "00:11:22:33:44:06"}
        p = c.load_pairing("alias", rec)
        for i, op in enumerate(plan["ops"]):
            kind = op["op"]
            ids = [(1, 50 + k) for k in range(op["n"])]
            try:
                if kind == "get":
                    await p.get_characteristics(ids)
                elif kind == "put":
                    await p.put_characteristics([(1, 51, "v" * op["vlen"])])
                elif kind == "disconnect":
                    link.drop("op")
                    state["faults"] += 1
                    await asyncio.sleep(0.01)
                elif kind == "close_dead":
                    # the application closes the pairing while the Bluetooth backend is dead (disconnect() raises, no callback), then
                    # uses it again: the new link has to be pair-verified before anything is sealed - the accessory must not see
                    # traffic it cannot make sense of
                    link.dead_disconnect = True
                    try:
                        await p.close()
                    except Exception:  # noqa: BLE001
                        pass
                    link.dead_disconnect = False
                    errs0, drops0 = len(acc.protocol_errors), link.drops
                    try:
                        await p.get_characteristics(ids)
                    except Exception as e:  # noqa: BLE001
                        ctx.probe("ble_get_after_dead_close_raised_" + type(e).__name__)
                    ctx.obligations += 1
                    if len(acc.protocol_errors) > errs0 and link.drops == drops0:
                        ctx.violate("ble.traffic-the-accessory-cannot-read-after-close", "",
                                    f"after close() on a dead backend the next request reached the accessory as {acc.protocol_errors[errs0:][:2]}: "
                                    f"the new link was used without a pair-verify of its own (stale session keys)")
                elif kind == "cancel_get":
                    t = loop.create_task(p.get_characteristics(ids))
                    await asyncio.sleep(op["cancel_after"])
                    t.cancel()
                    state["faults"] += 1
                    try:
                        await t
                    except BaseException:  # noqa: BLE001
                        pass
                else:
                    armed["kind"] = kind
                    await p.get_characteristics(ids)
            except Exception as e:  # noqa: BLE001
                ctx.event("op_failed", i, kind, type(e).__name__)
                ctx.probe("ble_op_exc_" + type(e).__name__)
            else:
                ctx.event("op_ok", i, kind)
        try:
            await p.shutdown()
        except Exception:  # noqa: BLE001
            pass

    try:
        loop.run_sim(main())
    except SimDeadlock as e:
        ctx.violate("deadlock", "ble", str(e))
    finally:
        seams.end()
    stats = aead_spy.judge(ctx, "ble.")
    # wire view: every fragment the accessory accepted validated under the next counter (it raises/drops otherwise);
    # fragments it REJECTED while the controller kept the session are protocol errors
    rej = [e for e in acc.protocol_errors if "authentication" in e]
    if rej and link.drops == 0 and state["faults"] == 0:
        ctx.violate("ble.accessory-rejected-fragment", "", f"reference accessory rejected controller fragments without any injected fault: {rej[:2]}")
    for k, v in stats.items():
        ctx.probe("aead_" + k, v)
    ctx.probe("ble_connects", link.connects)
    ctx.state("ble", min(stats["keys"], 8), link.drops > 0, state["faults"] > 0)
    sample = {"mode": "ble", "ops": [o["op"] for o in plan["ops"]], "aead": stats, "connects": link.connects, "drops": link.drops}
    return result_of(ctx, nontrivial=state["faults"] > 0 or link.drops > 0, sim_time=loop.time(), sample=sample)


def execute_coap(plan, ch):
    from aiocoap import Message
    from aiocoap.numbers.codes import Code
    from refimpl import ble_accessory as ba
    from worlds import coap as wcoap

    ctx = Ctx(ch)
    seams.begin(ctx)
    loop = SimLoop(max_iterations=300_000)
    ctx.loop = loop
    acc, rec = wcoap.standard_accessory(ch)
    w = wcoap.CoapWorld(ctx, loop, acc, {"lat": (plan.get("lat", 0.01),) * 2})
    state = {"faults": 0, "replays": 0}

    async def main():
        p = wcoap.make_pairing(rec)
        chars = [c for c in acc.all_chars() if "pr" in c.perms and "pw" in c.perms and c.iid >= 0x100 + 50]
        try:
            await p.list_accessories_and_characteristics()
        except Exception as e:  # noqa: BLE001
            ctx.event("list_failed", type(e).__name__)
        for i, op in enumerate(plan["ops"]):
            f = op["fault"]
            if f and p.connection.is_connected:
                fq = {"kind": f, "which": op["which"], "pos": op["pos"], "bit": op["bit"]}
                if f == "neterr":
                    fq["errno"] = [None, 113, 101, 111][op["which"] % 4]  # plain / EHOSTUNREACH / ENETUNREACH / ECONNREFUSED
                    fq["delivered"] = bool(op["bit"] % 2)
                w.fault_queue.append(fq)
                state["faults"] += 1
                if f == "replay":
                    state["replays"] += 1
            ids = [(1, c.iid) for c in chars[: op["n"]]]
            try:
                if op["op"] == "get":
                    await p.get_characteristics(ids)
                elif op["op"] == "cancel_get":
                    t = loop.create_task(p.get_characteristics(ids))
                    await asyncio.sleep(op["cancel_after"])
                    t.cancel()
                    state["faults"] += 1
                    try:
                        await t
                    except BaseException:  # noqa: BLE001
                        pass
                elif op["op"] == "put":
                    c0 = chars[0]
                    await p.put_characteristics([(1, c0.iid, not c0.value if c0.fmt == "bool" else c0.value)])
                else:
                    await p.subscribe(ids)
                ctx.event("op_ok", i, op["op"], f)
            except Exception as e:  # noqa: BLE001
                ctx.event("op_failed", i, op["op"], f, type(e).__name__)
                ctx.probe("coap_op_exc_" + type(e).__name__)
            w.fault_queue.clear()
        # events: genuine, then a replay of the same event payload
        res = w.event_resource()
        if res is not None and acc.event_key is not None and plan["events"]:
            sealed = []
            for _ in range(plan["events"]):
                sealed.append(acc.seal_event([(chars[0].iid, ba.pack_value(chars[0].fmt, chars[0].value))]))
                await res.render_put(Message(code=Code.PUT, payload=sealed[-1]))
            r = await res.render_put(Message(code=Code.PUT, payload=sealed[0]))
            state["faults"] += 1
            ctx.probe("coap_event_replayed")
            if r.code == Code.VALID:
                ctx.violate("coap.event-replay-accepted", "", "a replayed event payload was answered 2.03 Valid")

    try:
        loop.run_sim(main())
    except SimDeadlock as e:
        ctx.violate("deadlock", "coap", str(e))
    finally:
        seams.end()
    stats = aead_spy.judge(ctx, "coap.", heuristics=True)
    for k, v in stats.items():
        ctx.probe("aead_" + k, v)
    ctx.state("coap", min(stats["keys"], 8), state["faults"] > 0, state["replays"] > 0)
    sample = {"mode": "coap", "ops": [(o["op"], o["fault"]) for o in plan["ops"]], "aead": stats}
    return result_of(ctx, nontrivial=state["faults"] > 0, sim_time=loop.time(), sample=sample)
