"""C01 - pair-verify yields session keys only for the authentic paired accessory.

Drivers: 'pipe-ip' / 'pipe-ble' = the bare get_session_keys generator over the message pipe (with /
without the `expected` filter; pipe-ble also exercises session RESUME on a second exchange);
'ip' = SecureHomeKitConnection._connect_once over the simulated network, followed by one encrypted
request so that both ends prove they hold identical keys.
"""

from __future__ import annotations

import itertools
import random

from checks.protocommon import Pipe, delivered_items
from refimpl import crypto as RC
from refimpl import hap, tlv8
from simkit import seams
from simkit.core import Chooser, Ctx, result_of
from simkit.loop import SimDeadlock, SimLoop

PROP = "C01"
LEVEL = "exploration"
RULE = (
    "one run = one pair-verify exchange (plus, for resume, a preceding honest one) between the real controller code and the reference "
    "accessory; pairing record and all ephemeral keys from the seed; driver from the seed (generator pipe with IP- or BLE-style decoding, "
    "resume on the pipe, or the full SecureHomeKitConnection on the simulated network). Accessory honest or one seeded mutation of M2: single-bit "
    "/ single-byte corruption of every outer field and of the inner identifier/signature (bit offsets spread over the whole field across "
    "seeds), field removal / duplication / reordering / resizing, all-zero or 31/33-byte exchange key, 63/65-byte signature, wrong long-term "
    "key, wrong identifier (signed or unsigned), signature over each permutation of the transcript, over another controller key, over a "
    "truncated transcript, wrong nonce label / key label, M2 recorded from an earlier exchange of the same pairing, truncation in flight; "
    "resume replies keyed from a wrong secret / wrong session id / non-empty plaintext / corrupted. Oracles: keys produced => the independent "
    "verifier accepts the DELIVERED reply as authentic for this exchange; honest => keys produced, accessory accepts M3, read/write keys "
    "identical on both ends (ip driver: first encrypted request and response decrypt). Non-trivial = mutation applied or resume; distinct by digest."
)
REAL = ["aiohomekit.protocol.get_session_keys / resume_m1 / resume_m3", "aiohomekit.protocol.tlv", "aiohomekit.crypto.hkdf / chacha20poly1305",
        "aiohomekit.controller.ip.connection.SecureHomeKitConnection._connect_once + SecureHomeKitProtocol (ip driver)"]
STUB = ["accessory (reference VerifyResponder / IP accessory)", "message pipe or simulated TCP", "entropy (x25519 key generation seam)"]
ASSUMPTIONS = [
    "a reply lacking the State field is tolerated like iOS does (documented library behaviour); the verifier only demands the proof of possession bound to both exchange keys and the stored identifier",
    "BLE and CoAP drivers run the same generator; their transport layers are exercised in C06/C17 (see level note)",
]
TIERS = {"quick": {"runs": 40000, "wall": 55}, "thorough": {"runs": 3000000, "wall": 1500}}

PERMS = [p for p in itertools.permutations(range(3)) if p != (0, 1, 2)]
MUTS = (
    [None] * 4
    + ["outer_bit_pk", "outer_bit_enc", "outer_bit_state", "outer_byte_pk", "outer_byte_enc", "outer_drop_pk", "outer_drop_enc", "outer_drop_state",
       "outer_dup_pk", "outer_dup_enc", "outer_reorder", "key31", "key33", "zero_key", "enc_short",
       "inner_bit_sig", "inner_bit_id", "inner_byte_sig", "inner_drop_sig", "inner_drop_id", "inner_dup_id", "sig63", "sig65",
       "wrong_ltsk", "wrong_id_signed", "wrong_id_unsigned", "permute", "sign_other_key", "sign_truncated", "wrong_nonce", "wrong_kv", "replay_m2",
       "error_with_data", "trunc", "garbage_reply", "foreign_key_embedded", "foreign_key_embedded", "foreign_key_embedded_other_type", "extra_inner_random", "genuine_plus_extra"]
)
RESUME_MUTS = [None, None, "resume_wrong_secret", "resume_wrong_sid", "resume_nonempty", "resume_bit_tag", "resume_bit_sid", "resume_drop_method", "resume_decline",
               "resume_resize_tag", "resume_resize_tag", "resume_resize_sid", "resume_drop_tag"]


def gen_plan(seed: int, tier: str) -> dict:
    r = random.Random(seed)
    driver = r.choice(["pipe-ip"] * 5 + ["pipe-ble"] * 3 + ["resume"] * 3 + ["ip"] + ["ble-link"] * 2 + ["coap"] * 2)
    mut = r.choice(RESUME_MUTS) if driver == "resume" else r.choice(MUTS)
    return {"driver": driver, "mut": mut, "mseed": r.randrange(10**9), "acc_id": (lambda mac: r.choice([mac, mac, mac.lower(), mac[:8] + mac[8:].lower(), "Bridge %d" % r.randrange(100)]))(":".join(f"{r.randrange(256):02X}" for _ in range(6))), "ops": []}


def build_mut(kind, r: random.Random, ch: Chooser, rec_m2=None):
    """-> (VerifyResponder mut, truncation fraction or None)"""
    if kind is None:
        return None, None
    F = {"pk": hap.T_PUBKEY, "enc": hap.T_ENC, "state": hap.T_STATE, "sig": hap.T_SIG, "id": hap.T_ID}
    bit = r.randrange(1 << 12)
    if kind.startswith("outer_"):
        _, op, *rest = kind.split("_")
        if op == "reorder":
            return {"kind": "outer", "outer": {"kind": "reorder", "rot": r.choice([1, 2])}}, None
        o = {"field": F[rest[0]]}
        o.update({"bit": dict(kind="bitflip", bit=bit), "byte": dict(kind="byte", off=r.randrange(512), x=r.randrange(255)),
                  "drop": dict(kind="drop"), "dup": dict(kind="dup")}[op])
        return {"kind": "outer", "outer": o}, None
    if kind in ("key31", "key33"):
        return {"kind": "outer", "outer": {"kind": "setlen", "field": hap.T_PUBKEY, "n": int(kind[3:])}}, None
    if kind == "zero_key":
        return {"kind": "outer", "outer": {"kind": "setlen", "field": hap.T_PUBKEY, "n": 0, "then": 32}}, None
    if kind == "enc_short":
        return {"kind": "outer", "outer": {"kind": "setlen", "field": hap.T_ENC, "n": r.choice([0, 1, 15, 16, 17])}}, None
    if kind.startswith("inner_"):
        _, op, field = kind.split("_")
        o = {"field": F[field]}
        o.update({"bit": dict(kind="bitflip", bit=bit), "byte": dict(kind="byte", off=r.randrange(64), x=r.randrange(255)),
                  "drop": dict(kind="drop"), "dup": dict(kind="dup")}[op])
        return {"kind": "inner", "inner": o}, None
    if kind in ("sig63", "sig65"):
        return {"kind": "inner", "inner": {"kind": "setlen", "field": hap.T_SIG, "n": int(kind[3:])}}, None
    if kind == "wrong_ltsk":
        return {"kind": "wrong_ltsk", "ltsk": ch.nbytes("wrong_ltsk", 32)}, None
    if kind in ("foreign_key_embedded", "foreign_key_embedded_other_type"):
        # impostor signs the regular transcript with its own key and ships the matching public key inside the sub-TLV
        ltsk = ch.nbytes("foreign_ltsk", 32)
        t = hap.T_PUBKEY if kind == "foreign_key_embedded" else r.choice([hap.T_CERT, hap.T_PROOF, hap.T_SALT, hap.T_ENC, 0x0F, 0x20])
        return {"kind": "wrong_ltsk", "ltsk": ltsk, "inner_extra": [(t, RC.ed_pub(ltsk))], "inner_extra_pos": r.choice([0, 1, 2])}, None
    if kind == "extra_inner_random":
        return {"kind": "wrong_ltsk", "ltsk": ch.nbytes("foreign_ltsk", 32),
                "inner_extra": [(r.randrange(0, 16), ch.nbytes("extra", r.choice([0, 1, 32, 64]))) for _ in range(r.randrange(1, 4))], "inner_extra_pos": r.choice([0, 1, 2])}, None
    if kind == "genuine_plus_extra":
        # authentic reply that merely carries additional unknown items (must keep working: soundness only)
        return {"kind": "benign", "inner_extra": [(r.choice([9, 0x0F, 0x20, 0x7F]), ch.nbytes("extra", r.choice([0, 1, 32])))], "inner_extra_pos": 2}, None
    if kind == "wrong_id_signed":
        return {"kind": "wrong_id", "id": "AA:AA:AA:AA:AA:AA", "sign_wrong_id": True}, None
    if kind == "wrong_id_unsigned":
        return {"kind": "wrong_id", "id": "AA:AA:AA:AA:AA:AA", "sign_wrong_id": False}, None
    if kind == "permute":
        return {"kind": "permute", "order": list(r.choice(PERMS))}, None
    if kind == "sign_other_key":
        return {"kind": "sign_other_key", "other_ios_pk": RC.x25519_pub(ch.nbytes("other_ios", 32))}, None
    if kind == "sign_truncated":
        return {"kind": "sign_truncated", "n": r.choice([0, 32, 49, 80])}, None
    if kind == "wrong_nonce":
        return {"kind": "wrong_nonce", "label": r.choice([b"PV-Msg03", b"PV-Msg01", b"PS-Msg06", b"PV-Msg04"])}, None
    if kind == "wrong_kv":
        return {"kind": "wrong_kv", "info": r.choice([b"Pair-Verify-Encrypt-Salt", b"Control-Write-Encryption-Key", b"Pair-Setup-Encrypt-Info"])}, None
    if kind == "replay_m2":
        return {"kind": "replay_m2", "m2": rec_m2}, None
    if kind == "trunc":
        return None, r.random()
    if kind == "garbage_reply":
        return {"kind": "replay_m2", "m2": [(r.randrange(256), ch.nbytes("garb", r.randrange(0, 40))) for _ in range(r.randrange(0, 4))]}, None
    if kind == "error_with_data":
        return {"kind": "error", "code": r.choice([1, 2, 3, 4, 5, 6, 7, 9]), "state": "expected", "keep_fields": True, "error_first": r.random() < 0.5}, None
    if kind == "resume_wrong_secret":
        return {"kind": "resume_wrong_secret", "secret": ch.nbytes("wrong_secret", 32)}, None
    if kind == "resume_wrong_sid":
        return {"kind": "resume_wrong_sid", "sid": ch.nbytes("wrong_sid", 8)}, None
    if kind == "resume_nonempty":
        return {"kind": "resume_nonempty"}, None
    if kind == "resume_bit_tag":
        return {"kind": "outer", "outer": {"kind": "bitflip", "field": hap.T_ENC, "bit": bit}}, None
    if kind == "resume_bit_sid":
        return {"kind": "outer", "outer": {"kind": "bitflip", "field": hap.T_SESSIONID, "bit": bit}}, None
    if kind == "resume_resize_tag":  # truncated (a prefix of the genuine tag, down to nothing) or padded
        return {"kind": "outer", "outer": {"kind": "setlen", "field": hap.T_ENC, "n": r.choice(list(range(0, 16)) + [17, 24, 32])}}, None
    if kind == "resume_resize_sid":
        return {"kind": "outer", "outer": {"kind": "setlen", "field": hap.T_SESSIONID, "n": r.choice([0, 1, 4, 7, 9, 16])}}, None
    if kind == "resume_drop_tag":
        return {"kind": "outer", "outer": {"kind": "drop", "field": hap.T_ENC}}, None
    if kind == "resume_drop_method":
        return {"kind": "outer", "outer": {"kind": "drop", "field": hap.T_METHOD}}, None
    if kind == "resume_decline":
        return {"kind": "resume_decline"}, None
    raise ValueError(kind)


def reference_verify_resume(delivered, ios_pk: bytes, prev_shared: bytes) -> tuple[bool, str]:
    d = tlv8.to_dict(delivered)
    if d.get(hap.T_METHOD) != b"\x06":
        return False, "not a resume reply"
    sid = d.get(hap.T_SESSIONID)
    if not sid:
        return False, "no session id"
    key = RC.hkdf(prev_shared, ios_pk + sid, b"Pair-Resume-Response-Info")
    pt = RC.unseal(key, RC.nonce_label(b"PR-Msg02"), d.get(hap.T_ENC, b""))
    if pt != b"":
        return False, "resume tag does not prove knowledge of the previous secret for this key and session id"
    return True, ""


def _patch_setlen_then():
    """support {'setlen', n:0, then:32}: replace the value by zero bytes"""
    orig = hap.mutate_items
    if getattr(orig, "_c01", False):
        return

    def mutate_items(items, mut):
        out = orig(items, mut)
        if mut and mut.get("kind") == "setlen" and mut.get("then"):
            out = [(t, bytes(mut["then"]) if t == mut["field"] else v) for t, v in out]
        return out

    mutate_items._c01 = True
    hap.mutate_items = mutate_items


def execute(plan: dict, ch: Chooser) -> dict:
    from aiohomekit.protocol import get_session_keys

    _patch_setlen_then()
    ctx = Ctx(ch)
    seams.begin(ctx)
    r = random.Random(plan["mseed"])
    driver = plan["driver"]
    kind = plan["mut"]
    ident = hap.AccessoryIdentity(plan["acc_id"], ch.nbytes("acc_ltsk", 32))
    ios_ltsk = ch.nbytes("ios_ltsk", 32)
    ios_id = "c01-controller-%d" % ch.nint("iosid", 10**6)
    pairing_data = {"AccessoryPairingID": ident.pairing_id, "AccessoryLTPK": ident.ltpk.hex(), "iOSPairingId": ios_id,
                    "iOSDeviceLTSK": ios_ltsk.hex(), "iOSDeviceLTPK": RC.ed_pub(ios_ltsk).hex()}
    controllers = {ios_id: RC.ed_pub(ios_ltsk)}
    outcome = {"keys": None, "exc": None}
    try:
        if driver == "ip":
            _run_ip(plan, ch, ctx, kind, r, ident, pairing_data, ios_ltsk, ios_id)
            return result_of(ctx, nontrivial=kind is not None, sample={"driver": driver, "mutation": kind})
        sessions: dict = {}
        rec_m2 = None
        prev = None
        if kind == "replay_m2" or driver == "resume":
            # a preceding honest exchange of the same pairing (its M2 is what gets replayed / its secret is resumed)
            vr0 = hap.VerifyResponder(ident, controllers, ch.nbytes("eph0", 32), sessions=sessions)
            pipe0 = Pipe("ble" if driver != "pipe-ip" else "ip")
            try:
                sid0, derive0 = pipe0.run(get_session_keys(dict(pairing_data)), vr0.handle)
            except Exception as e:  # noqa: BLE001
                ctx.violate("honest-verify-failed", f"preliminary/{type(e).__name__}", f"preliminary honest exchange failed: {e!r}; accessory says {vr0.m3_reason!r}")
                return result_of(ctx, nontrivial=True, sample={"driver": driver, "mutation": kind, "outcome": "preliminary exchange failed"})
            rec_m2 = [list(x) for x in vr0.sent_m2]
            sessions[vr0.session_id()] = vr0.shared
            prev = (sid0, derive0, vr0.shared)
            if bytes(sid0) != vr0.session_id():
                ctx.violate("session-id-differs", "", "resume session id derived by the controller differs from the accessory's")
        mut, trunc = build_mut(kind, r, ch, rec_m2)
        vr = hap.VerifyResponder(ident, controllers, ch.nbytes("eph1", 32), mut=mut, sessions=sessions, new_session_id=ch.nbytes("newsid", 8))
        pipe = Pipe("ip" if driver == "pipe-ip" else "ble")
        if trunc is not None:
            pipe.wire_hook = lambda step, rb: rb[: max(0, min(len(rb) - 1, int(len(rb) * trunc)))] if step == 0 else rb
        coap_verified = False
        try:
            if driver == "resume":
                outcome["keys"] = pipe.run(get_session_keys(dict(pairing_data), prev[0], prev[1]), vr.handle)
            elif driver in ("ble-link", "coap"):
                # the real transport code: BLE pairing channel (drive_pairing_state_machine) / CoAP do_pair_verify
                from checks.protocommon import run_ble_link, run_coap

                try:
                    if driver == "ble-link":
                        outcome["keys"], pipe.delivered = run_ble_link(ctx, ch, "PAIR_VERIFY", [lambda _: get_session_keys(dict(pairing_data))], vr.handle, pipe.wire_hook,
                                                                       fsize=r.choice([23, 100, 244]), tlv_frag=r.choice([None, 64, 100]))
                    else:
                        res, pipe.delivered = run_coap(ctx, ch, "verify", vr.handle, pipe.wire_hook, pairing_data=dict(pairing_data))
                        coap_verified = res is not None
                        if coap_verified:  # CoAP keeps cipher objects, not a derive function: compare by use
                            enc = res[1]
                            a2c_, c2a_ = vr.control_keys() if vr.shared is not None else (bytes(32), bytes(32))
                            probe = RC.seal(a2c_, bytes(4) + (0).to_bytes(8, "little"), b"probe", b"")
                            try:
                                same = enc.recv_ctx.decrypt(bytes(4) + (0).to_bytes(8, "little"), probe, b"") == b"probe"
                            except Exception:  # noqa: BLE001
                                same = False
                            outcome["keys"] = (b"", (lambda salt, info, _s=same, _v=vr: RC.hkdf(_v.shared, salt, info) if _s else b"different"))
                except Exception as e:  # noqa: BLE001
                    pipe.delivered = getattr(e, "delivered", [])
                    raise
            else:
                outcome["keys"] = pipe.run(get_session_keys(dict(pairing_data)), vr.handle)
        except Exception as e:  # noqa: BLE001
            outcome["exc"] = e
        # ---- oracle ------------------------------------------------------------------------------
        ctx.obligations += 1
        ios_priv = seams.CUR.ios_verify_priv[-1]
        ios_pk = RC.x25519_pub(ios_priv)
        delivered = delivered_items(pipe.delivered[0]) if pipe.delivered else None
        full_ok, full_why = (False, "undecodable")
        res_ok, res_why = (False, "n/a")
        if delivered is not None:
            full_ok, full_why = hap.reference_verify_m2(delivered, ios_priv, ident.pairing_id, ident.ltpk)
            if driver == "resume":
                res_ok, res_why = reference_verify_resume(delivered, ios_pk, prev[2])
        authentic = full_ok or res_ok
        ctx.event("wire", __import__("hashlib").blake2b(b"|".join(pipe.delivered), digest_size=8).hexdigest())
        ctx.event("verify", driver, kind, outcome["keys"] is not None, type(outcome["exc"]).__name__ if outcome["exc"] else None, full_ok, res_ok)
        if outcome["keys"] is not None:
            if not authentic:
                ctx.violate("forged-reply-accepted", str(kind), f"driver {driver} mutation {kind}: session keys produced although the delivered reply is not authentic "
                                                                f"(full verify: {full_why}; resume: {res_why})")
            else:
                sid, derive = outcome["keys"]
                if vr.resumed and res_ok:
                    shared = RC.hkdf(prev[2], ios_pk + tlv8.to_dict(delivered)[hap.T_SESSIONID], b"Pair-Resume-Shared-Secret-Info")
                    a2c = RC.hkdf(shared, b"Control-Salt", b"Control-Read-Encryption-Key")
                    c2a = RC.hkdf(shared, b"Control-Salt", b"Control-Write-Encryption-Key")
                    acc_ok = True
                    ctx.probe("resume_accepted")
                else:
                    a2c, c2a = vr.control_keys()
                    acc_ok = bool(vr.m3_accept)
                if not acc_ok:
                    ctx.violate("controller-proof-rejected", "", f"keys produced but the reference accessory rejected M3: {vr.m3_reason}")
                if derive(b"Control-Salt", b"Control-Read-Encryption-Key") != a2c or derive(b"Control-Salt", b"Control-Write-Encryption-Key") != c2a:
                    ctx.violate("keys-differ", driver, "controller and accessory derive different read/write keys")
                elif not vr.resumed and derive(b"Event-Salt", b"Event-Read-Encryption-Key") != vr.event_key():
                    ctx.violate("keys-differ", "event", "event key differs")
        else:
            if kind is None or (kind in ("outer_reorder", "resume_decline") and authentic and driver != "pipe-ip"):
                ctx.violate("honest-verify-failed", f"{driver}/{type(outcome['exc']).__name__}",
                            f"driver {driver} ({kind}): authentic accessory but pair-verify failed with {outcome['exc']!r}; accessory says {vr.m3_reason!r}")
        ctx.probe("outcome_" + ("keys" if outcome["keys"] is not None else type(outcome["exc"]).__name__))
        ctx.state(driver, kind, outcome["keys"] is not None, type(outcome["exc"]).__name__ if outcome["exc"] else None)
    finally:
        seams.end()
    sample = {"driver": driver, "mutation": kind, "outcome": "keys" if outcome["keys"] is not None else repr(outcome["exc"])[:70]}
    return result_of(ctx, nontrivial=kind is not None or driver == "resume", sample=sample)


def _run_ip(plan, ch, ctx, kind, r, ident, pairing_data, ios_ltsk, ios_id):
    """full SecureHomeKitConnection over the simulated network"""
    from worlds.ip import IpWorld

    loop = SimLoop(max_iterations=100_000)
    w = IpWorld(ctx, loop, {"hosts": [["10.0.0.1", "genuine"]], "seg": r.choice(["whole", "random", "bytes"]), "frame": "mixed"})
    rec_m2 = None
    state = {"exc": None, "secure": False, "get": None}

    async def main():
        p = w.make_pairing()
        conn = p.connection
        nonlocal rec_m2
        if kind == "replay_m2":
            try:
                await conn._connect_once()
            except Exception as e:  # noqa: BLE001
                ctx.violate("honest-exchange-failed", type(e).__name__, f"pair-verify with the genuine, unmodified accessory failed on IP: {e!r}")
                return
            rec_m2 = [list(x) for x in w.acc.sessions[-1].verify.sent_m2]
            await conn.close()
            conn.closing = False
        mut, trunc = build_mut(kind, r, ch, rec_m2)
        if mut:
            w.forced_verify_mut.append(mut)
        if trunc is not None:
            orig = w.accessory_out

            def out(session, data, kind_, serial, _o=orig, _done=[False]):
                if not _done[0] and kind_ == "response" and session is w.acc.sessions[-1]:
                    _done[0] = True
                    head, _, body = data.partition(b"\r\n\r\n")
                    body = body[: max(0, min(len(body) - 1, int(len(body) * trunc)))]
                    import re

                    head = re.sub(rb"Content-Length: \d+", b"Content-Length: %d" % len(body), head)
                    data = head + b"\r\n\r\n" + body
                _o(session, data, kind_, serial)

            w.accessory_out = out
        try:
            await conn._connect_once()
            state["secure"] = bool(conn.is_secure and conn.is_connected)
        except Exception as e:  # noqa: BLE001
            state["exc"] = e
        sess = w.acc.sessions[-1]
        ctx.obligations += 1
        ios_priv = seams.CUR.ios_verify_priv[-1]
        delivered = None
        # what was delivered as M2 = the first pair-verify response of that session
        ent = [e for e in w.acc.request_log if e["session"] == sess.no and e["target"] == "/pair-verify"]
        ok, why = False, "no M2"
        if ent and isinstance(ent[0]["response"], bytes):
            body = ent[0]["response"].partition(b"\r\n\r\n")[2]
            if trunc is not None:
                body = body[: max(0, min(len(body) - 1, int(len(body) * trunc)))]
            delivered = delivered_items(body)
            if delivered is not None:
                ok, why = hap.reference_verify_m2(delivered, ios_priv, ident_id, ident_ltpk)
        ctx.event("verify-ip", kind, state["secure"], type(state["exc"]).__name__ if state["exc"] else None, ok)
        if state["secure"]:
            if not ok:
                ctx.violate("forged-reply-accepted", str(kind), f"driver ip mutation {kind}: connection became secure although the delivered M2 is not authentic ({why})")
            else:
                if not sess.verify.m3_accept:
                    ctx.violate("controller-proof-rejected", "ip", f"secure connection but accessory rejected M3: {sess.verify.m3_reason}")
                try:
                    res = await p.get_characteristics([(1, 10)])
                    if res.get((1, 10), {}).get("value") != w.acc.values[(1, 10)]:
                        ctx.violate("keys-differ", "ip-read", f"first encrypted exchange returned {res}")
                except Exception as e:  # noqa: BLE001
                    ctx.violate("keys-differ", "ip", f"first encrypted request failed after an authentic verify: {e!r}")
        elif kind is None:
            ctx.violate("honest-verify-failed", f"ip/{type(state['exc']).__name__}", f"honest accessory but _connect_once failed: {state['exc']!r}")
        ctx.state("ip", kind, state["secure"], type(state["exc"]).__name__ if state["exc"] else None)
        await p.shutdown()

    ident_id, ident_ltpk = w.ids.acc.pairing_id, w.ids.acc.ltpk
    try:
        loop.run_sim(main())
    except SimDeadlock as e:
        ctx.violate("deadlock", "ip", str(e))
    finally:
        w.finish()
