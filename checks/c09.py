"""C09 - requests are written byte-for-byte in the canonical iOS form (IP).
Always-on monitor on SimTransport.write/writelines; this check drives a workload that varies
connected hosts (IPv4 / IPv6 / scoped IPv6), methods, targets, id sets and nested JSON
payloads through the public pairing API."""
from __future__ import annotations

import random

from checks.ipcommon import REAL_IP, STUB_IP, execute_filtered, rnd_time

PROP = "C09"
LEVEL = "exploration"
RULE = (
    "one run = real IpPairing connected over IPv4, IPv6 or scoped IPv6 (SimSocket.getpeername decides the Host header); the "
    "workload issues get/put/subscribe/unsubscribe/list/list_pairings/identify with seeded id sets and nested JSON values "
    "(strings with unicode/escapes, floats, nulls, lists, dicts, long strings crossing the 1024-byte frame size); every "
    "transport.write/writelines call is intercepted: pre-verify it must be exactly one complete request, after verify the "
    "frames of ONE call must decode (reference AEAD deframer) to exactly one request; each request is checked byte-wise "
    "against the canonical grammar (request line, Host literal, Content-Length then Content-Type iff body, CRLF only, "
    "compact JSON, id list = aid.iid joined by commas covering exactly a requested set). reach probe requests_checked "
    "counts requests judged. Non-trivial = run judged >= 3 requests including one with a body; distinct by event-log digest."
)
REAL = REAL_IP
STUB = STUB_IP
ASSUMPTIONS = ["canonical form as stated in README (Contributing) and the property text; compact JSON = no insignificant whitespace, key order free"]
TIERS = {"quick": {"runs": 20000, "wall": 55}, "thorough": {"runs": 300000, "wall": 1500}}

# advertised spellings; the peer name the socket reports (and the Host header must carry) is the kernel's spelling of the same
# address: no zone, compressed lower case, IPv4-mapped addresses in dotted form
HOSTS = ["10.0.0.1", "192.168.100.200", "fd00::3", "2001:db8::8a2e:370:7334", "fe80::5%eth0", "fe80::1ff:fe23:4567:890a%3",
         "::ffff:10.0.0.9", "FD00:0:0:0:0:0:0:7", "::ffff:c0a8:6401"]


def _deep(n: int):
    v: list = []
    for _ in range(n):
        v = [v]
    return v


def rnd_json(r: random.Random, depth: int = 0):
    x = r.random()
    if x < 0.04:
        # values a strict serialiser may refuse (the call may then fail as a whole) but that must never reach the wire in a
        # non-canonical form: integers outside 64 bits, a lone surrogate, very deep nesting
        return r.choice([2**64, 2**64 + 12345, -(2**63) - 1, 10**30, "x\udc80", _deep(300)])
    if depth > 2 or x < 0.5:
        return r.choice([True, False, None, 0, -1, 255, 2**31 - 1, 2**53, 1.5, -0.25, 1e-7, "", "a b", "café", "q\"uote\\", "line\nbreak",
                         "温度", "x" * r.choice([10, 900, 1024, 2100]), "😀"])
    if x < 0.75:
        return [rnd_json(r, depth + 1) for _ in range(r.randrange(0, 4))]
    return {r.choice(["k", "key 2", "ü", "n"]) + str(i): rnd_json(r, depth + 1) for i in range(r.randrange(0, 4))}


def gen_plan(seed: int, tier: str) -> dict:
    r = random.Random(seed)
    host = r.choice(HOSTS)
    profile = {"hosts": [[host, "genuine"]], "lat": [0.0005, 0.002], "seg": r.choice(["whole", "random"]), "n_chars": 24,
               "frame": r.choice(["max", "mixed"])}
    ops = []
    readable = [(a, 10 + k) for a in (1, 2) for k in range(24) if k % 6 != 4]
    writable = [(a, 10 + k) for a in (1, 2) for k in range(24) if k % 6 != 3]
    t = 0.0
    for _ in range(r.randint(3, 14)):
        t += r.choice([0.0, 0.0, 0.01, 0.5])
        x = r.random()
        if x < 0.35:
            ids = r.sample(readable, r.choice([1, 1, 2, 3, 6, 12]))
            op = {"op": "get", "ids": [list(i) for i in ids]}
        elif x < 0.65:
            items = [[a, i, rnd_json(r)] for a, i in r.sample(writable, r.choice([1, 1, 2, 3]))]
            op = {"op": "put", "items": items}
        elif x < 0.78:
            ids = sorted(r.sample(readable, r.choice([1, 2, 4])))
            op = {"op": "subscribe", "ids": [list(i) for i in ids]}
        elif x < 0.86:
            ids = sorted(r.sample(readable, r.choice([1, 2])))
            op = {"op": "unsubscribe", "ids": [list(i) for i in ids]}
        elif x < 0.92:
            op = {"op": "list"}
        elif x < 0.96:
            op = {"op": "list_pairings"}
        else:
            op = {"op": "identify"}
        op["t"] = round(t, 3)
        ops.append(op)
    end = t + 5.0
    if r.random() < 0.35:
        # several advertised addresses of different forms; the connection moves between them (peer closes, address
        # becomes unreachable, zeroconf re-orders the list): every request must name the host it is actually sent to
        others = r.sample([h for h in HOSTS if h != host], r.choice([1, 2]))
        addrs = [host] + others
        profile["hosts"] = [[h, "genuine"] for h in addrs]
        extra = []
        tt = 0.3
        for _ in range(r.randint(1, 4)):
            tt = round(tt + r.choice([0.2, 1.0, 3.0]), 3)
            y = r.random()
            if y < 0.4:
                extra.append({"op": "set_host", "host": r.choice(addrs), "kind": r.choice(["refuse", "unreachable", "genuine"]), "t": tt})
                extra.append({"op": r.choice(["rst", "fin"]), "t": round(tt + 0.001, 3)})
            elif y < 0.7:
                extra.append({"op": "desc_update", "addrs": r.sample(addrs, len(addrs)), "s": r.randrange(1, 4), "t": tt})
                extra.append({"op": r.choice(["rst", "fin"]), "t": round(tt + 0.001, 3)})
            else:
                extra.append({"op": r.choice(["rst", "fin"]), "t": tt})
            tt = round(tt + r.choice([0.5, 2.0]), 3)
            ids = r.sample(readable, 2)
            extra.append({"op": "get", "ids": [list(i) for i in ids], "t": tt})
            extra.append({"op": "put", "items": [[a, i, rnd_json(r)] for a, i in r.sample(writable, 1)], "t": round(tt + 0.7, 3)})
        ops = sorted(ops + extra, key=lambda o: o["t"])
        end = max(end, tt + 15.0)
    return {"profile": profile, "ops": ops, "heal_at": end, "end_at": end + 20.0, "tag_reads": False, "allow_other_exceptions": True, "no_liveness": True}


def execute(plan, ch):
    def nontrivial(sc, ctx):
        return len(sc.wire) >= 3 and any(w["body"] for w in sc.wire)

    def sample(sc, ctx):
        return {"host": plan["profile"]["hosts"][0][0], "requests": [(w["method"], w["target"][:60], len(w["body"]), w["secure"]) for w in sc.wire][:10]}

    return execute_filtered(plan, ch, ("C09.",), sample_fn=sample, nontrivial_fn=nontrivial)
