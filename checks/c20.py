"""C20 - saved pairings and accessory cache survive restart and interrupted saves.

World fs: real Controller.save_data/load_data, CharacteristicCacheFile, AbstractPairing cache
write-through / restore, entity-map (de)serialisation - on SimFS.  One run = one seeded
scenario (pairings of all transports, accessory databases from the repo fixtures or generated)
x an enumeration of crash points of the second save (every file operation x stratified byte
prefixes), each followed by a restart with only durable state surviving.
"""

from __future__ import annotations

import json
import os
import random

from simkit.core import Chooser, Ctx, result_of
from simkit.loop import SimLoop
from worlds import fs as simfs

PROP = "C20"
LEVEL = "fault_enumeration"
RULE = (
    "one run = seeded scenario: 1-5 pairings over IP/CoAP/BLE records (unicode aliases, optional fields), accessory databases taken "
    "from tests/fixtures/*.json or generated (unicode names, ranges, steps, valid values, linked services, broadcast key, state number). "
    "Save #1 completes; the set is changed; save #2 (pairing file) and cache update #2 are each crashed at EVERY file operation "
    "(open/truncate, write, flush, close, replace, ...) and, for operations carrying bytes, at byte prefixes {0,1,2,n-1,n, all if "
    "n<=400 else ~120 stratified+random}; after each crash a fresh Controller / CharacteristicCacheFile start on the surviving files. "
    "Oracles: restart never raises; pairing data == save #1 or save #2 exactly (never neither); uncrashed round-trip reproduces "
    "every pairing field and the entity map (serialize() equality, config/state numbers, broadcast key); torn/garbled cache => "
    "empty cache, start-up succeeds. Further stages: a shorter save after an interrupted save; I/O errors instead of crashes at every operation "
    "(ENOSPC with a short write, EIO from flush/fsync, EACCES on open/rename, EXDEV on rename) after which the file is the old or the new document and "
    "the same process can save again; histories of acknowledged cache write-throughs (state number / broadcast key / config number / database only) "
    "followed by a restart; a newer record handed over for an accessory already held. work_units = crash points and error points executed. Non-trivial = crash point strictly inside a save; "
    "distinct by event-log digest."
)
REAL = ["aiohomekit.controller.controller.Controller (save_data, load_data, load_pairing, remove_pairing bookkeeping)",
        "aiohomekit.characteristic_cache.CharacteristicCacheFile", "aiohomekit.controller.abstract.AbstractPairing cache write-through/restore",
        "aiohomekit.model Accessories/Service/Characteristic (de)serialisation", "IpController/CoAPController/BleController.load_pairing", "hkjson"]
STUB = ["file system (SimFS behind the open/os/pathlib/tempfile names of the two modules)", "zeroconf instance (never started)", "event loop clock (virtual)"]
ASSUMPTIONS = [
    "process-crash model: bytes handed to the OS persist, buffered bytes may be lost or written as any prefix; rename/replace atomic; no power-loss reordering",
]
TIERS = {"quick": {"runs": 260, "wall": 55}, "thorough": {"runs": 40000, "wall": 1500}}

FIXDIR = "/repo/tests/fixtures"
_FIX: dict[str, list] = {}


def fixtures() -> dict[str, list]:
    if not _FIX:
        for fn in sorted(os.listdir(FIXDIR)):
            if fn.endswith(".json"):
                try:
                    with open(os.path.join(FIXDIR, fn)) as f:
                        d = json.load(f)
                    if isinstance(d, list) and d and "aid" in d[0]:
                        _FIX[fn] = d
                except Exception:  # noqa: BLE001
                    pass
    return _FIX


def gen_db(r: random.Random) -> list[dict]:
    accs = []
    for aid in range(1, r.choice([1, 1, 2, 3]) + 1):
        services = []
        iid = 1
        n_serv = r.choice([1, 2, 4])
        sids = []
        for s in range(n_serv):
            siid = iid
            iid += 1
            sids.append(siid)
            chars = []
            for _ in range(r.choice([1, 2, 5])):
                fmt = r.choice(["bool", "uint8", "int", "float", "string", "uint32", "data", "tlv8"])
                c = {"iid": iid, "type": r.choice(["00000025-0000-1000-8000-0026BB765291", "00000011-0000-1000-8000-0026BB765291",
                                                   "00000023-0000-1000-8000-0026BB765291", "E863F10D-079E-48FF-8F27-9C2605A29F52"]),
                     "perms": r.sample(["pr", "pw", "ev", "tw", "hd", "aa"], r.choice([1, 2, 3])), "format": fmt}
                if fmt in ("uint8", "int", "float", "uint32"):
                    if r.random() < 0.6:
                        c["minValue"] = r.choice([0, -50, 10, 0.5])
                        c["maxValue"] = r.choice([100, 255, 1000.5])
                    if r.random() < 0.5:
                        c["minStep"] = r.choice([1, 0.1, 0.5, 5])
                    if r.random() < 0.3:
                        c["unit"] = r.choice(["celsius", "percentage", "lux", "seconds"])
                    if r.random() < 0.3 and fmt != "float":
                        c["valid-values"] = [0, 1, 3]
                    if r.random() < 0.2 and fmt != "float":
                        c["valid-values-range"] = [0, 2]
                    c["value"] = r.choice([0, 1, 21.5, 99])
                elif fmt == "bool":
                    c["value"] = r.random() < 0.5
                elif fmt == "string":
                    c["value"] = r.choice(["", "Lampe de café ☕", "温度センサー", "x" * 300, "quote\" back\\slash"])
                    if r.random() < 0.3:
                        c["maxLen"] = 64
                else:
                    c["value"] = r.choice(["", "AQIDBA==", "AAEC"])
                    if r.random() < 0.3:
                        c["maxDataLen"] = 2048
                if r.random() < 0.2:
                    c["description"] = r.choice(["Brightness", "Näme", "🔥"])
                if r.random() < 0.1:
                    c["ev"] = True
                if "pr" not in c["perms"]:
                    c.pop("value", None)
                chars.append(c)
                iid += 1
            srv = {"iid": siid, "type": r.choice(["00000043-0000-1000-8000-0026BB765291", "0000003E-0000-1000-8000-0026BB765291",
                                                  "0000008A-0000-1000-8000-0026BB765291"]), "characteristics": chars}
            if r.random() < 0.3:
                srv["primary"] = True
            if r.random() < 0.2:
                srv["hidden"] = True
            services.append(srv)
        for srv in services:
            if r.random() < 0.4 and len(sids) > 1:
                srv["linked"] = r.sample([x for x in sids if x != srv["iid"]], r.choice([1, min(2, len(sids) - 1)]))
        accs.append({"aid": aid, "services": services})
    return accs


def gen_record(r: random.Random, k: int) -> tuple[str, dict]:
    kind = r.choice(["IP", "IP", "CoAP", "BLE"])
    hk = ":".join(f"{r.randrange(256):02X}" for _ in range(6))
    if r.random() < 0.5:
        hk = hk.lower()
    rec = {
        "AccessoryPairingID": hk,
        "AccessoryLTPK": bytes(r.randrange(256) for _ in range(32)).hex(),
        "iOSPairingId": f"decc6fa3-de3e-41c9-adba-ef74098{k:05d}",
        "iOSDeviceLTSK": bytes(r.randrange(256) for _ in range(32)).hex(),
        "iOSDeviceLTPK": bytes(r.randrange(256) for _ in range(32)).hex(),
        "Connection": kind,
    }
    if kind in ("IP", "CoAP"):
        rec["AccessoryIP"] = r.choice(["192.168.1.%d" % r.randrange(2, 250), "fd00::%x" % r.randrange(1, 9999)])
        rec["AccessoryPort"] = r.randrange(1024, 65535)
        if kind == "IP" and r.random() < 0.6:
            rec["AccessoryIPs"] = [rec["AccessoryIP"], "10.0.0.%d" % r.randrange(2, 250)]
    else:
        rec["AccessoryAddress"] = ":".join(f"{r.randrange(256):02X}" for _ in range(6))
    if r.random() < 0.3:
        rec["extra-field"] = r.choice(["x", 7, None, ["a"], {"n": 1}])
    alias = r.choice(["light", "Küche", "bedroom lamp", "客厅", "a/b", "alias-%d"]) + str(k)
    return alias, rec


def gen_plan(seed: int, tier: str) -> dict:
    r = random.Random(seed)
    fx = sorted(fixtures())
    n = r.choice([1, 2, 2, 3, 5])
    pairings = []
    for k in range(n):
        alias, rec = gen_record(r, k)
        db = None
        if r.random() < 0.75:
            db = {"fixture": r.choice(fx)} if (fx and r.random() < 0.5) else {"gen": r.randrange(10**9)}
            db["config_num"] = r.choice([0, 1, 7, 65535])
            db["state_num"] = r.choice([None, 0, 1, 65534])
            db["broadcast_key"] = r.choice([None, None, bytes(r.randrange(256) for _ in range(32)).hex()])
        pairings.append({"alias": alias, "rec": rec, "db": db})
    change = r.choice(["add", "remove", "modify", "add", "none"])
    # history of cache write-throughs on one pairing (every one is acknowledged when the call returns)
    hist = [{"kind": r.choice(["state", "state", "key", "key_none", "config", "db", "all", "same"]), "state_num": r.choice([2, 3, 65535, r.randrange(65536)]),
             "key": bytes(r.randrange(256) for _ in range(32)).hex(), "config_num": r.choice([2, 8, 65535]), "gen": r.randrange(10**9)} for _ in range(r.choice([1, 1, 2, 3, 5]))]
    extra_alias, extra_rec = gen_record(r, 99)
    # the application hands the controller a newer record for an accessory it already holds (re-pairing under the same alias:
    # new controller keys, new address), or the same accessory under a second alias over another transport
    reload_ = r.choice([None, None, "same_alias", "second_alias"])
    return {"pairings": pairings, "change": change, "hist": hist, "reload": reload_, "hist_target": r.randrange(8), "extra": {"alias": extra_alias, "rec": extra_rec, "db": {"gen": r.randrange(10**9), "config_num": 3, "state_num": 5, "broadcast_key": None}},
            "path": r.choice(["/simfs/pairing.json", "/simfs/conf dir/homekit/pairings.json"]),
            "tmp_other_device": r.random() < 0.5,  # the system temp dir (tempfile without dir=) is another file system: rename gives EXDEV
            "cache_garble": r.randrange(10**9), "ops": None, "points_per_op": 40 if tier == "quick" else 300, "pseed": r.randrange(10**9)}


SHORT_PAIRINGS = [{"alias": "z", "db": None, "rec": {"AccessoryPairingID": "00:00:00:00:00:01", "AccessoryLTPK": "00" * 32, "iOSPairingId": "i", "iOSDeviceLTSK": "11" * 32,
                                                      "iOSDeviceLTPK": "22" * 32, "Connection": "IP", "AccessoryIP": "1.1.1.1", "AccessoryPort": 1}}]


def _errname(err: int) -> str:
    return {5: "EIO", 13: "EACCES", 18: "EXDEV", 28: "ENOSPC", -1: "short write (disk filling up)"}.get(err, str(err))


def prefixes(n: int, r: random.Random, limit: int) -> list[int]:
    if n <= 400:
        return list(range(0, n + 1))
    s = {0, 1, 2, 3, n - 2, n - 1, n}
    for b in (4096, 8192, 16384, 65536):
        for d in (-1, 0, 1):
            if 0 <= b + d <= n:
                s.add(b + d)
    for k in range(1, 40):
        s.add(n * k // 40)
    while len(s) < limit:
        s.add(r.randrange(0, n + 1))
    return sorted(s)


# -------------------------------------------------------------------------------------
def _make_controller(cache):
    from aiohomekit.controller.abstract import TransportType
    from aiohomekit.controller.ble.controller import BleController
    from aiohomekit.controller.coap.controller import CoAPController
    from aiohomekit.controller.controller import Controller
    from aiohomekit.controller.ip.controller import IpController
    from worlds.ip import FakeZeroconf

    c = Controller(async_zeroconf_instance=FakeZeroconf(), char_cache=cache)
    c.transports[TransportType.IP] = IpController(char_cache=cache, zeroconf_instance=FakeZeroconf())
    c.transports[TransportType.COAP] = CoAPController(char_cache=cache, zeroconf_instance=FakeZeroconf())
    c.transports[TransportType.BLE] = BleController(char_cache=cache)
    return c


def _db_of(spec) -> list:
    if "fixture" in spec:
        return json.loads(json.dumps(fixtures()[spec["fixture"]]))
    return gen_db(random.Random(spec["gen"]))


def _snapshot_pairings(controller) -> dict:
    return {alias: json.loads(json.dumps(p.pairing_data)) for alias, p in controller.aliases.items()}


def _snapshot_state(p) -> dict | None:
    if p.accessories is None:
        return None
    # projection on the fields the property names: characteristic types, ids, permissions, formats,
    # values, ranges (min/max/step/valid values), links; configuration/state numbers; broadcast key
    acc = []
    for a in p.accessories:
        servs = []
        for s in a.services:
            chars = []
            for c in s.characteristics:
                chars.append({"iid": c.iid, "type": c.type, "perms": list(c.perms), "format": str(c.format), "value": c._value if "pr" in c.perms else None,
                              "minValue": c.minValue, "maxValue": c.maxValue, "minStep": c.minStep,
                              "valid_values": list(c.valid_values) if c.valid_values is not None else None, "unit": str(c.unit) if c.unit else None})
            servs.append({"iid": s.iid, "type": s.type, "linked": sorted(x.iid for x in s.linked), "chars": chars})
        acc.append({"aid": a.aid, "services": servs})
    return {"acc": json.loads(json.dumps(acc)), "config_num": p.config_num, "state_num": p.state_num,
            "broadcast_key": p.broadcast_key.hex() if p.broadcast_key else None}


def execute(plan: dict, ch: Chooser) -> dict:
    from aiohomekit.characteristic_cache import CharacteristicCacheFile
    from aiohomekit.exceptions import ConfigLoadingError

    simfs.install()
    ctx = Ctx(ch)
    loop = SimLoop()
    ctx.loop = loop
    fs = simfs.SimFS()
    fs.tmp_other_device = bool(plan.get("tmp_other_device"))
    simfs.CUR.fs = fs
    path = plan["path"]
    cache_path = simfs.SimPath("/simfs/cache/charcache.json")
    fs.dirs.add("/simfs/cache")
    r = random.Random(plan["pseed"])
    units = 0
    inside = 0

    def build(pairings, cache):
        c = _make_controller(cache)
        for sp in pairings:
            c.load_pairing(sp["alias"], json.loads(json.dumps(sp["rec"])))
        return c

    def apply_dbs(c, pairings):
        for sp in pairings:
            if sp["db"]:
                p = c.aliases[sp["alias"]]
                bk = bytes.fromhex(sp["db"]["broadcast_key"]) if sp["db"].get("broadcast_key") else None
                p.restore_accessories_state(_db_of(sp["db"]), sp["db"]["config_num"], bk, sp["db"].get("state_num"))

    def restart_and_load(expect_sets, what: str, crash_desc: str):
        """fresh process: new cache object + controller, load pairing file"""
        nonlocal units
        units += 1
        fs.restart()
        ctx.obligations += 1
        try:
            cache = CharacteristicCacheFile(cache_path)
        except BaseException as e:  # noqa: BLE001
            ctx.violate("cache-startup-raises", type(e).__name__, f"{what} {crash_desc}: CharacteristicCacheFile() raised {e!r} on the surviving cache file "
                                                                    f"({len(fs.files.get(str(cache_path), b''))} bytes)")
            cache = None
        if cache is None:
            from aiohomekit.characteristic_cache import CharacteristicCacheMemory

            cache = CharacteristicCacheMemory()
        c = _make_controller(cache)
        try:
            c.load_data(path)
        except ConfigLoadingError as e:
            ctx.violate("pairing-file-destroyed", "ConfigLoadingError", f"{what} {crash_desc}: load_data raised {e!r}; surviving file has "
                                                                        f"{len(fs.files.get(path, b''))} bytes")
            return None, cache
        except BaseException as e:  # noqa: BLE001
            ctx.violate("load-raises", type(e).__name__, f"{what} {crash_desc}: load_data raised {e!r}")
            return None, cache
        got = _snapshot_pairings(c)
        if expect_sets is not None and got not in expect_sets:
            which = "neither-old-nor-new" if len(expect_sets) > 1 else "differs-from-saved"
            ctx.violate("pairing-data-lost", which, f"{what} {crash_desc}: reloaded aliases {sorted(got)} != any of {[sorted(e) for e in expect_sets]} "
                                                    f"(surviving file {len(fs.files.get(path, b''))} bytes)")
        return c, cache

    async def main():
        nonlocal inside, units
        # ---------------- state 1: complete save -------------------------------------
        cache1 = CharacteristicCacheFile(cache_path)
        c1 = build(plan["pairings"], cache1)
        apply_dbs(c1, plan["pairings"])
        handed_over = {sp["alias"]: sp["rec"] for sp in plan["pairings"]}
        if plan.get("reload"):
            sp0 = plan["pairings"][0]
            rec2 = json.loads(json.dumps(sp0["rec"]))
            rec2["iOSPairingId"] = "re-paired-" + rec2["iOSPairingId"][-5:]
            rec2["iOSDeviceLTSK"] = "ab" * 32
            alias2 = sp0["alias"]
            if plan["reload"] == "second_alias":
                alias2 = sp0["alias"] + " (thread)"
                rec2["Connection"] = "CoAP" if sp0["rec"]["Connection"] != "CoAP" else "IP"
                rec2.pop("AccessoryAddress", None)
                rec2.pop("AccessoryIPs", None)
                rec2["AccessoryIP"], rec2["AccessoryPort"] = "fd00::77", 5683
            elif "AccessoryPort" in rec2:
                rec2["AccessoryPort"] = 4712
            try:
                c1.load_pairing(alias2, json.loads(json.dumps(rec2)))
            except BaseException as e:  # noqa: BLE001
                ctx.violate("load-pairing-raises", type(e).__name__, f"load_pairing of a newer record ({plan['reload']}) raised {e!r}")
                return
            handed_over[alias2] = rec2
            ctx.probe("record_reloaded_" + plan["reload"])
        try:
            c1.save_data(path)
        except BaseException as e:  # noqa: BLE001
            ctx.violate("save-raises", type(e).__name__, f"save_data raised {e!r}")
            return
        snap1 = _snapshot_pairings(c1)
        ctx.obligations += 1
        for alias_, rec_ in handed_over.items():
            got_ = snap1.get(alias_)
            if got_ is None or any(got_.get(k_) != v_ for k_, v_ in rec_.items()):
                diff_ = [k_ for k_, v_ in rec_.items() if got_ is None or got_.get(k_) != v_]
                ctx.violate("pairing-data-lost", "record-handed-over-not-the-one-saved", f"alias {alias_!r}: the record saved for it differs from the record last handed to load_pairing in {diff_[:4]} "
                                                                                        f"(reload scenario {plan.get('reload')})")
        states1 = {sp["alias"]: _snapshot_state(c1.aliases[sp["alias"]]) for sp in plan["pairings"]}
        files1 = dict(fs.files)
        dirs1 = set(fs.dirs)
        # uncrashed round trip
        c_r, cache_r = restart_and_load([snap1], "round-trip", "(no crash)")
        if c_r is not None:
            for sp in plan["pairings"]:
                p = c_r.aliases.get(sp["alias"])
                want = states1[sp["alias"]]
                got = _snapshot_state(p) if p is not None else "<pairing missing>"
                ctx.obligations += 1
                if got != want:
                    field = "entity-map"
                    if isinstance(got, dict) and isinstance(want, dict):
                        field = next((k for k in want if got.get(k) != want[k]), "entity-map")
                    ctx.violate("cache-roundtrip", str(field), f"alias {sp['alias']!r}: reloaded accessory state differs from the saved one in {field}")
        # ---------------- state 2 ---------------------------------------------------------
        pairings2 = list(plan["pairings"])
        if plan["change"] == "add":
            pairings2 = pairings2 + [plan["extra"]]
        elif plan["change"] == "remove" and len(pairings2) > 1:
            pairings2 = pairings2[:-1]
        elif plan["change"] == "modify":
            p0 = json.loads(json.dumps(pairings2[0]))
            p0["rec"]["AccessoryPort"] = 4711
            p0["rec"]["note"] = "modifié"
            pairings2 = [p0] + pairings2[1:]

        def do_save2():
            fs.files = dict(files1)
            fs.dirs = set(dirs1)
            fs.restart()
            cache = CharacteristicCacheFile(cache_path)
            c2 = build(pairings2, cache)
            fs.restart()  # count operations of the save only
            return c2, cache

        # dry run to learn the operation trace of pairing-file save #2
        c2, _ = do_save2()
        c2.save_data(path)
        trace = list(fs.ops)
        snap2 = _snapshot_pairings(c2)
        points = plan.get("ops")
        if points is None:
            points = []
            for i, (kind, pth, n) in enumerate(trace):
                pending = n if kind in ("flush", "close") else (sum(t[2] for t in trace[: i + 1] if t[0] == "write" and t[1] == pth) if kind == "write" else 0)
                if kind in ("write", "flush", "close") and pending:
                    for j in prefixes(pending, r, plan["points_per_op"]):
                        points.append(["pairing", i, j])
                else:
                    points.append(["pairing", i, 0])
            points.append(["pairing", len(trace), 0])
        for what, i, j in points:
            if what != "pairing":
                continue
            c2, _ = do_save2()
            fs.crash_at = (i, j)
            crashed = False
            try:
                c2.save_data(path)
            except simfs.SimCrash:
                crashed = True
            except BaseException as e:  # noqa: BLE001
                ctx.violate("save-raises", type(e).__name__, f"save_data raised {e!r}")
            if crashed and 0 < i < len(trace):
                inside += 1
            desc = f"crash at op {i}/{len(trace)} {trace[i][0] if i < len(trace) else 'end'} prefix {j}"
            ctx.event("crash", what, i, j, crashed)
            ctx.state("pairing", trace[i][0] if i < len(trace) else "end", crashed, j == 0)
            restart_and_load([snap1, snap2] if crashed else [snap2], "pairing-file save", desc)
            if crashed and (i * 7 + j) % 4 == 0:
                # life goes on after the interrupted save: the next process saves a SHORTER document (whatever the crash left
                # behind - a stale temporary file, a partial write - must not leak into it), restarts and loads it
                fs.restart()
                c5 = build(SHORT_PAIRINGS, CharacteristicCacheFile(cache_path))
                try:
                    c5.save_data(path)
                except BaseException as e:  # noqa: BLE001
                    ctx.violate("save-raises", f"after-interrupted-save/{type(e).__name__}", f"save_data after an interrupted save ({desc}) raised {e!r}")
                    continue
                ctx.probe("saves_after_an_interrupted_save")
                restart_and_load([_snapshot_pairings(c5)], "save after an interrupted save", desc)
        # ---------------- I/O errors instead of crashes: full disk, failing fsync, refused rename -------------------------
        # (-1 = the write accepts only a prefix and does NOT raise: raw, unbuffered files)
        err_for = {"open_w": [13, 28], "os_open": [13, 28], "write": [28, -1], "flush": [28, 5], "close": [28], "fsync": [5], "replace": [13, 18], "mkdir": [13]}
        for i, (kind, pth, n) in enumerate(trace):
            for err in err_for.get(kind, []):
                for keep in ([0, max(1, n // 2)] if kind in ("write", "flush", "close") and n else [0]):
                    c2, _ = do_save2()
                    fs.fail_at = (i, err, keep)
                    raised = None
                    try:
                        c2.save_data(path)
                    except simfs.SimCrash:
                        raise
                    except BaseException as e:  # noqa: BLE001
                        raised = e
                    units += 1
                    inside += 1
                    desc = f"{_errname(err)} at op {i}/{len(trace)} {kind} (prefix {keep})"
                    ctx.event("ioerror", i, kind, err, keep, type(raised).__name__ if raised else None)
                    ctx.state("ioerror", kind, err, raised is not None)
                    ctx.probe("io_errors_injected")
                    # the process lives on: the file on disk is the old or the new document, never garbage
                    saved = dict(fs.files)
                    saved_dirs = set(fs.dirs)
                    restart_and_load([snap1, snap2], "pairing-file save with an I/O error", desc)
                    # ... and the same process can save again once the error is gone
                    fs.files, fs.dirs = saved, saved_dirs
                    fs.restart()
                    try:
                        c2.save_data(path)
                    except BaseException as e:  # noqa: BLE001
                        ctx.violate("save-raises", f"after-io-error/{type(e).__name__}", f"save_data after {desc} raised {e!r}")
                        continue
                    restart_and_load([snap2], "save after an I/O error", desc)
        # ---------------- cache file: crash during write-through -------------------------------
        spec = plan["extra"]["db"]

        def do_cache2():
            fs.files = dict(files1)
            fs.dirs = set(dirs1)
            fs.restart()
            cache = CharacteristicCacheFile(cache_path)
            c3 = build(plan["pairings"], cache)
            fs.restart()
            return c3, cache

        c3, cache3 = do_cache2()
        target = c3.aliases[plan["pairings"][0]["alias"]]
        target.restore_accessories_state(_db_of(spec), 99, None, 17)
        ctrace = list(fs.ops)
        new_state = _snapshot_state(target)
        old_state = states1[plan["pairings"][0]["alias"]]
        cpoints = [p for p in (plan.get("ops") or []) if p[0] == "cache"]
        if plan.get("ops") is None:
            for i, (kind, pth, n) in enumerate(ctrace):
                pending = n if kind in ("flush", "close") else (sum(t[2] for t in ctrace[: i + 1] if t[0] == "write" and t[1] == pth) if kind == "write" else 0)
                if kind in ("write", "flush", "close") and pending:
                    for j in prefixes(pending, r, plan["points_per_op"]):
                        cpoints.append(["cache", i, j])
                else:
                    cpoints.append(["cache", i, 0])
        for what, i, j in cpoints:
            c3, cache3 = do_cache2()
            target = c3.aliases[plan["pairings"][0]["alias"]]
            fs.crash_at = (i, j)
            crashed = False
            try:
                target.restore_accessories_state(_db_of(spec), 99, None, 17)
            except simfs.SimCrash:
                crashed = True
            if crashed and i > 0:
                inside += 1
            desc = f"crash at op {i}/{len(ctrace)} {ctrace[i][0] if i < len(ctrace) else 'end'} prefix {j}"
            ctx.event("crash", what, i, j, crashed)
            ctx.state("cache", ctrace[i][0] if i < len(ctrace) else "end", crashed, j == 0)
            c_r, cache_r = restart_and_load([snap1], "cache write-through", desc)
            if c_r is not None:
                p = c_r.aliases.get(plan["pairings"][0]["alias"])
                got = _snapshot_state(p) if p is not None else "<missing>"
                ctx.obligations += 1
                if got not in (old_state, new_state, None):
                    ctx.violate("cache-garbage", "", f"cache write-through {desc}: reloaded accessory state is neither the old one, the new one nor empty")
        # ---------------- history of acknowledged write-throughs, then restart ---------------------------
        with_db = [sp for sp in plan["pairings"] if sp["db"]]
        if with_db and plan.get("hist"):
            sp = with_db[plan.get("hist_target", 0) % len(with_db)]
            c4, cache4 = do_cache2()
            apply_dbs(c4, plan["pairings"])
            tgt = c4.aliases[sp["alias"]]
            cur = {"db": _db_of(sp["db"]), "config_num": sp["db"]["config_num"], "key": sp["db"].get("broadcast_key"), "state_num": sp["db"].get("state_num")}
            kinds = []
            for st in plan["hist"]:
                k = st["kind"]
                kinds.append(k)
                if k in ("state", "all"):
                    cur["state_num"] = st["state_num"]
                if k in ("key", "all"):
                    cur["key"] = st["key"]
                if k == "key_none":
                    cur["key"] = None
                if k in ("config", "all"):
                    cur["config_num"] = st["config_num"]
                if k in ("db", "all"):
                    cur["db"] = _db_of({"gen": st["gen"]})
                tgt.restore_accessories_state(json.loads(json.dumps(cur["db"])), cur["config_num"], bytes.fromhex(cur["key"]) if cur["key"] else None, cur["state_num"])
            want = _snapshot_state(tgt)
            ctx.event("hist", kinds)
            ctx.probe("write_through_histories")
            c_r, cache_r = restart_and_load([snap1], "write-through history", f"({'+'.join(kinds)}, no crash)")
            if c_r is not None:
                p = c_r.aliases.get(sp["alias"])
                got = _snapshot_state(p) if p is not None else "<pairing missing>"
                ctx.obligations += 1
                if got != want:
                    field = "entity-map"
                    if isinstance(got, dict) and isinstance(want, dict):
                        field = next((k for k in want if got.get(k) != want[k]), "entity-map")
                    ctx.violate("cache-write-through-lost", str(field), f"alias {sp['alias']!r}: after the acknowledged updates {kinds} and a restart, {field} differs from the last written state "
                                                                      f"(want {str(want.get(field))[:40] if isinstance(want, dict) else want}, got {str(got.get(field))[:40] if isinstance(got, dict) else got})")
        # ---------------- garbled cache files (byte corruption that breaks JSON / UTF-8) -----------
        gr = random.Random(plan["cache_garble"])
        good = files1.get(str(cache_path), b"")
        for k in range(12):
            fs.files = dict(files1)
            fs.dirs = set(dirs1)
            data = bytearray(good)
            kind = gr.choice(["flip", "utf8", "cut+junk", "nul", "empty"])
            if kind == "flip" and data:
                # break structure: replace a structural character
                idxs = [i for i, b in enumerate(data) if b in b'{}[]":,']
                if idxs:
                    data[gr.choice(idxs)] = gr.choice(b"}{]x\x00")
            elif kind == "utf8" and data:
                data[gr.randrange(len(data))] = gr.choice([0xFF, 0xC0, 0x80])
            elif kind == "cut+junk":
                data = data[: gr.randrange(len(data) + 1)] + bytes(gr.randrange(256) for _ in range(gr.randrange(0, 8)))
            elif kind == "nul":
                data = bytearray(b"\x00" * gr.choice([1, 100]))
            else:
                data = bytearray()
            try:
                json.loads(bytes(data).decode("utf-8"))
                continue  # still valid JSON: not an "unparsable" cache
            except Exception:  # noqa: BLE001
                pass
            fs.files[str(cache_path)] = bytes(data)
            ctx.event("garble", kind, len(data))
            ctx.probe("garbled_cache_" + kind)
            restart_and_load([snap1], "garbled cache", f"({kind}, {len(data)} bytes)")
        ctx.probe("pairing_save_ops", len(trace))
        ctx.probe("cache_save_ops", len(ctrace))
        ctx.probe("trace_" + "+".join(t[0] for t in trace))

    try:
        loop.run_sim(main())
    finally:
        simfs.CUR.fs = None
    ctx.probe("crash_points", units)
    ctx.probe("crash_points_inside_a_save", inside)
    sample = {"pairings": [(sp["alias"], sp["rec"]["Connection"], bool(sp["db"])) for sp in plan["pairings"]], "change": plan["change"], "path": plan["path"],
              "crash_points": units, "inside": inside}
    return result_of(ctx, nontrivial=inside > 0, sample=sample, units=units)
