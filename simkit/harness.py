"""Seeded search driver: many short simulated runs on all cores, violation triage
(known finding vs new), minimisation, replay files, evidence files.

Exit codes: 0 property held on everything explored (KNOWN-FINDING lines allowed),
            1 + "VIOLATION property=<id> replay=<path>" for an unlisted violation,
            2 + "HARNESS-ERROR ..." for anything that is the machinery's own fault.
"""

from __future__ import annotations

import argparse
import concurrent.futures as cf
import faulthandler
import hashlib
import json
import multiprocessing as mp
import os
import re
import subprocess
import sys
import time
import traceback
from collections import Counter
from typing import Any

from .core import Chooser

VERIF = os.path.dirname(os.path.dirname(os.path.abspath(__file__)))
KNOWN_FINDINGS = os.path.join(VERIF, "known_findings.json")
SEED_STRIDE = 1_000_003


class HarnessError(Exception):
    pass


# --------------------------------------------------------------------------------------
# one run
# --------------------------------------------------------------------------------------
def run_seed(mod, seed: int, tier: str) -> tuple[dict, dict]:
    plan = mod.gen_plan(seed, tier)
    ch = Chooser(seed)
    res = mod.execute(plan, ch)
    return plan, res


def run_replay(mod, seed: int, plan: dict, decisions: dict | None, mode: str) -> dict:
    if mode == "seed":
        ch = Chooser(seed)
    else:
        ch = Chooser(seed, decisions or {}, replay=True)
    return mod.execute(plan, ch)


def _sigs(res: dict) -> list[str]:
    return [v["sig"] for v in res["violations"]]


# --------------------------------------------------------------------------------------
# worker
# --------------------------------------------------------------------------------------
_MOD = None


def _worker(args):
    modname, seeds, tier, wall_cap, deadline = args
    faulthandler.dump_traceback_later(wall_cap, exit=True)
    try:
        mod = _load(modname)
        agg = {
            "evals": 0,
            "units": 0,
            "nontrivial_digests": set(),
            "stats": Counter(),
            "states": set(),
            "trigrams": set(),
            "sim_time": 0.0,
            "violations": [],
            "samples": [],
            "obligations": 0,
            "errors": [],
        }
        for seed in seeds:
            if time.time() > deadline and agg["evals"] > 0:
                agg["cut_short"] = True
                break
            try:
                plan, res = run_seed(mod, seed, tier)
            except Exception:
                agg["errors"].append((seed, traceback.format_exc()))
                if len(agg["errors"]) > 3:
                    break
                continue
            agg["evals"] += 1
            agg["units"] += res.get("units", 1)
            agg["obligations"] += res["obligations"]
            if res["nontrivial"]:
                agg["nontrivial_digests"].add(res["digest"])
            agg["stats"].update(res["stats"])
            agg["states"].update(res["states"])
            agg["trigrams"].update(res["trigrams"])
            agg["sim_time"] += res["sim_time"]
            for v in res["violations"]:
                if len(agg["violations"]) < 40:
                    agg["violations"].append({"seed": seed, **v})
            if res.get("sample") is not None and len(agg["samples"]) < 2:
                agg["samples"].append({"seed": seed, **res["sample"]})
        return agg
    finally:
        faulthandler.cancel_dump_traceback_later()


def _load(modname: str):
    global _MOD
    if _MOD is not None and _MOD.__name__ == modname:
        return _MOD
    import importlib

    _MOD = importlib.import_module(modname)
    return _MOD


# --------------------------------------------------------------------------------------
# known findings
# --------------------------------------------------------------------------------------
def load_known() -> list[dict]:
    if not os.path.exists(KNOWN_FINDINGS):
        return []
    with open(KNOWN_FINDINGS) as f:
        return json.load(f).get("findings", [])


def match_known(known: list[dict], prop: str, sig: str) -> dict | None:
    for k in known:
        if k.get("property") != prop or k.get("status") != "open":
            continue
        if "signature" in k and k["signature"] == sig:
            return k
        if "signature_re" in k and re.fullmatch(k["signature_re"], sig):
            return k
    return None


# --------------------------------------------------------------------------------------
# minimisation
# --------------------------------------------------------------------------------------
class Shrinker:
    def __init__(self, mod, seed: int, sig: str, budget: int = 300, wall: float = 25.0) -> None:
        self.mod = mod
        self.seed = seed
        self.sig = sig
        self.budget = budget
        self.runs = 0
        self.t_end = time.time() + wall

    def fails(self, plan: dict, decisions: dict) -> bool:
        if self.runs >= self.budget or time.time() > self.t_end:
            self.budget = self.runs  # stop everything
            return False
        self.runs += 1
        try:
            res = run_replay(self.mod, self.seed, plan, decisions, "decisions")
        except Exception:
            return False
        return self.sig in _sigs(res)

    def ddmin_list(self, items: list, test) -> list:
        n = 2
        while len(items) >= 1 and self.runs < self.budget:
            chunk = max(1, len(items) // n)
            reduced = False
            for i in range(0, len(items), chunk):
                cand = items[:i] + items[i + chunk :]
                if test(cand):
                    items = cand
                    n = max(n - 1, 2)
                    reduced = True
                    break
            if not reduced:
                if chunk == 1:
                    break
                n = min(len(items), n * 2)
        return items

    def shrink(self, plan: dict, decisions: dict) -> tuple[dict, dict]:
        plan = json.loads(json.dumps(plan))
        decisions = dict(decisions)
        # 1. drop plan operations
        if isinstance(plan.get("ops"), list) and plan["ops"]:
            def t_ops(cand):
                p = dict(plan)
                p["ops"] = cand
                return self.fails(p, decisions)

            plan["ops"] = self.ddmin_list(list(plan["ops"]), t_ops)
        # 2. revert decisions to their benign default
        keys = sorted(decisions)
        if keys:
            def t_dec(cand):
                return self.fails(plan, {k: decisions[k] for k in cand})

            keys = self.ddmin_list(keys, t_dec)
            decisions = {k: decisions[k] for k in keys}
        # 3. check-specific simplifications (smaller sizes, rounder times ...)
        simp = getattr(self.mod, "simplify", None)
        if simp is not None:
            progress = True
            while progress and self.runs < self.budget:  # to a fixpoint: candidates are derived from the current plan
                progress = False
                for cand in simp(plan):
                    if self.runs >= self.budget:
                        break
                    if cand != plan and self.fails(cand, decisions):
                        plan = cand
                        progress = True
                        break
        # 4. one more pass over ops (dropping decisions often frees ops)
        if isinstance(plan.get("ops"), list) and len(plan["ops"]) > 1:
            def t_ops2(cand):
                p = dict(plan)
                p["ops"] = cand
                return self.fails(p, decisions)

            plan["ops"] = self.ddmin_list(list(plan["ops"]), t_ops2)
        return plan, decisions


# --------------------------------------------------------------------------------------
# replay files
# --------------------------------------------------------------------------------------
def repo_fingerprint() -> str:
    try:
        rev = subprocess.run(["git", "-C", "/repo", "rev-parse", "HEAD"], capture_output=True, text=True).stdout.strip()
        diff = subprocess.run(["git", "-C", "/repo", "diff", "HEAD"], capture_output=True).stdout
        return rev[:12] + "+" + hashlib.sha1(diff).hexdigest()[:8]
    except Exception:
        return "unknown"


def write_replay(mod, prop: str, seed: int, sig: str, plan: dict, decisions: dict | None, mode: str, msg: str, digest: str) -> str:
    os.makedirs(os.path.join(VERIF, "replays"), exist_ok=True)
    tag = hashlib.sha1(sig.encode()).hexdigest()[:8]
    path = os.path.join(VERIF, "replays", f"{prop}-{seed}-{tag}.json")
    with open(path, "w") as f:
        json.dump(
            {
                "property": prop,
                "check_module": mod.__name__,
                "seed": seed,
                "mode": mode,
                "signature": sig,
                "message": msg,
                "plan": plan,
                "decisions": decisions,
                "digest": digest,
                "repo": repo_fingerprint(),
            },
            f,
            indent=1,
            sort_keys=True,
        )
    return path


def replay_file(path: str) -> int:
    with open(path) as f:
        rep = json.load(f)
    mod = _load(rep["check_module"])
    res = run_replay(mod, rep["seed"], rep["plan"], rep.get("decisions"), rep.get("mode", "decisions"))
    sigs = _sigs(res)
    if rep["signature"] in sigs:
        v = [v for v in res["violations"] if v["sig"] == rep["signature"]][0]
        same = res["digest"] == rep.get("digest")
        print(f"replayed: signature={rep['signature']} digest_equal={same}")
        print(f"  {v['msg']}")
        print(f"VIOLATION property={rep['property']} replay={path}")
        return 1
    print(f"replay did not reproduce {rep['signature']} (violations now: {sigs})")
    return 0


# --------------------------------------------------------------------------------------
# main driver
# --------------------------------------------------------------------------------------
def seeds_for(base: int, n: int) -> list[int]:
    return [base * SEED_STRIDE + i for i in range(n)]


def drive(modname: str, tier: str, base_seed: int, jobs: int, runs_override: int | None = None, wall_override: float | None = None) -> int:
    t0 = time.time()
    mod = _load(modname)
    prop = mod.PROP
    rdir = os.path.join(VERIF, "replays")
    if os.path.isdir(rdir):  # replay files of earlier runs of this check are stale now
        for fn in os.listdir(rdir):
            if (fn.startswith(prop + "-") or fn.startswith("known-" + prop + "-")) and fn.endswith(".json"):
                os.unlink(os.path.join(rdir, fn))
    cfg = dict(mod.TIERS[tier])
    if runs_override:
        cfg["runs"] = runs_override
    if wall_override:
        cfg["wall"] = wall_override
    n_runs = cfg["runs"]
    wall = cfg["wall"]
    chunk = cfg.get("chunk") or max(1, min(200, n_runs // (jobs * 6) or 1))
    seeds = seeds_for(base_seed, n_runs)
    chunks = [seeds[i : i + chunk] for i in range(0, len(seeds), chunk)]

    agg = {
        "evals": 0,
        "units": 0,
        "nontrivial": set(),
        "stats": Counter(),
        "states": set(),
        "trigrams": set(),
        "sim_time": 0.0,
        "violations": [],
        "samples": [],
        "obligations": 0,
    }
    errors: list = []
    stopped_early = False
    known_early = load_known()
    ctx = mp.get_context("fork")
    worker_cap = int(max(120, wall * 3))
    with cf.ProcessPoolExecutor(max_workers=jobs, mp_context=ctx) as ex:
        pending = set()
        it = iter(chunks)

        def submit_next():
            c = next(it, None)
            if c is None:
                return False
            pending.add(ex.submit(_worker, (modname, c, tier, worker_cap, t0 + wall)))
            return True

        for _ in range(jobs * 2):
            if not submit_next():
                break
        while pending:
            done, _ = cf.wait(pending, timeout=5, return_when=cf.FIRST_COMPLETED)
            for fut in done:
                pending.discard(fut)
                try:
                    a = fut.result()
                except Exception as e:  # worker died / timed out
                    raise HarnessError(f"worker failed: {e!r}")
                agg["evals"] += a["evals"]
                agg["units"] += a["units"]
                agg["obligations"] += a["obligations"]
                agg["nontrivial"].update(a["nontrivial_digests"])
                agg["stats"].update(a["stats"])
                agg["states"].update(a["states"])
                agg["trigrams"].update(a["trigrams"])
                agg["sim_time"] += a["sim_time"]
                agg["violations"].extend(a["violations"])
                if len(agg["samples"]) < 4:
                    agg["samples"].extend(a["samples"])
                errors.extend(a["errors"])
                if a.get("cut_short"):
                    stopped_early = True
                n_unknown = sum(1 for v in agg["violations"] if match_known(known_early, prop, v["sig"]) is None)
                if time.time() - t0 < wall and len(errors) < 5 and n_unknown < 400:
                    submit_next()
                else:
                    stopped_early = stopped_early or next(it, None) is not None
                    # drain: do not submit more
                    it = iter(())
    if errors:
        seed, tb = errors[0]
        print(tb, file=sys.stderr)
        raise HarnessError(f"{len(errors)} run(s) raised inside the harness, first seed={seed}")

    # ---- triage violations ----------------------------------------------------------
    known = load_known()
    by_sig: dict[str, list[dict]] = {}
    for v in agg["violations"]:
        by_sig.setdefault(v["sig"], []).append(v)
    exit_code = 0
    known_hit: dict[str, int] = {}
    known_lines: dict[int, dict] = {}  # one KNOWN-FINDING line per listed finding, whatever the number of signatures it covers
    unreproducible: list[tuple[str, int]] = []
    new_viol: list[str] = []
    for sig in sorted(by_sig):
        vs = by_sig[sig]
        k = match_known(known, prop, sig)
        if k is not None:
            known_hit[sig] = len(vs)
            ent = known_lines.setdefault(id(k), {"k": k, "sigs": [], "runs": 0, "seed": vs[0]["seed"]})
            ent["sigs"].append(sig)
            ent["runs"] += len(vs)
            if len(ent["sigs"]) > 3:
                continue
            try:  # keep a current, minimised example of the listed finding next to the other replay files
                v0 = min(vs, key=lambda x: x["seed"])
                plan0, res0 = run_seed(mod, v0["seed"], tier)
                if sig in _sigs(res0) and sig in _sigs(run_replay(mod, v0["seed"], plan0, res0["made"], "decisions")):
                    sh0 = Shrinker(mod, v0["seed"], sig, budget=80, wall=10.0)
                    plan1, dec1 = sh0.shrink(plan0, res0["made"])
                    r1 = run_replay(mod, v0["seed"], plan1, dec1, "decisions")
                    if sig in _sigs(r1):
                        pth = write_replay(mod, prop, v0["seed"], sig, plan1, dec1, "decisions", [x for x in r1["violations"] if x["sig"] == sig][0]["msg"], r1["digest"])
                        os.replace(pth, os.path.join(os.path.dirname(pth), "known-" + os.path.basename(pth)))
            except Exception:  # noqa: BLE001
                pass
            continue
        # new violation: confirm, minimise, write replay
        # (state leaking from one run into later runs of a worker - a defect class of its own - makes some occurrences
        # unreproducible in a fresh process: try a few seeds before giving up on the signature)
        for v in sorted(vs, key=lambda x: x["seed"])[:8]:
            seed = v["seed"]
            plan, res = run_seed(mod, seed, tier)
            if sig in _sigs(res):
                break
        if sig not in _sigs(res):
            # a violation seen in a worker that the parent cannot reproduce is never reported as a VIOLATION (it would not replay);
            # other, reproducible violations of the same batch are still reported
            unreproducible.append((sig, seed))
            print(f"HARNESS-WARNING violation {sig} of seed {seed} did not reproduce in the parent process (order- or address-dependent behaviour of the code under test?)")
            continue
        decisions = res["made"]
        mode = "decisions"
        r2 = run_replay(mod, seed, plan, decisions, "decisions")
        if sig in _sigs(r2) and len(new_viol) >= 8:
            digest = r2["digest"]
            msg = v["msg"]
        elif sig in _sigs(r2):
            plan_full, decisions_full = plan, decisions
            sh = Shrinker(mod, seed, sig, budget=cfg.get("shrink_budget", 250))
            plan, decisions = sh.shrink(plan, decisions)
            r3 = run_replay(mod, seed, plan, decisions, "decisions")
            for _ in range(3):
                if sig in _sigs(r3):
                    break
                r3 = run_replay(mod, seed, plan, decisions, "decisions")
            if sig not in _sigs(r3):
                # the behaviour of the code under test is not a function of the schedule alone (e.g. it depends on the iteration
                # order of a set of callables, i.e. on object addresses): minimisation is unstable.  The violation is real and was
                # reproduced twice on the full plan, so report that one instead of failing the whole check.
                print(f"HARNESS-WARNING minimisation of {sig} (seed {seed}) was unstable: the code under test behaves differently on identical schedules; "
                      "reporting the unminimised replay")
                plan, decisions, r3 = plan_full, decisions_full, r2
            digest = r3["digest"]
            msg = [x for x in r3["violations"] if x["sig"] == sig][0]["msg"]
        else:
            mode = "seed"
            decisions = None
            digest = res["digest"]
            msg = v["msg"]
        path = write_replay(mod, prop, seed, sig, plan, decisions, mode, msg, digest)
        print(f"violation: {sig}: {msg} ({len(vs)} run(s))")
        print(f"VIOLATION property={prop} replay={path}")
        new_viol.append(sig)
        exit_code = 1
    for ent in known_lines.values():
        sigs = ", ".join(ent["sigs"][:8]) + (" ..." if len(ent["sigs"]) > 8 else "")
        print(f"KNOWN-FINDING: property={prop} {ent['k']['what']} [signatures: {sigs}; {ent['runs']} run(s), e.g. seed {ent['seed']}]")

    # ---- evidence ---------------------------------------------------------------------
    wall_s = time.time() - t0
    stats = agg["stats"]
    faults = {k[6:]: v for k, v in sorted(stats.items()) if k.startswith("fault:")}
    probes = {k: v for k, v in sorted(stats.items()) if not k.startswith("fault:")}
    evals = agg["evals"]
    coverage = {
        "evaluations": evals,
        "distinct_nontrivial": len(agg["nontrivial"]),
        "rule": mod.RULE,
        "samples": agg["samples"][:4] or [{"note": "no sample recorded"}],
        "work_units": agg["units"],
        "oracle_obligations_evaluated": agg["obligations"],
        "seeds": {"base": base_seed, "first": seeds[0], "count_planned": n_runs, "count_run": evals},
        "stopped_early_by_wall_cap": stopped_early,
        "runs_per_hour": int(evals / wall_s * 3600) if wall_s > 0 else 0,
        "simulated_seconds": round(agg["sim_time"], 1),
        "faults_fired": faults,
        "reach_probes": probes,
        "distinct_abstract_states": len(agg["states"]),
        "distinct_event_trigrams": len(agg["trigrams"]),
        "states": len(agg["states"]),
        "real_components": getattr(mod, "REAL", []),
        "stub_components": getattr(mod, "STUB", []),
        "known_findings_hit": known_hit,
        "new_violation_signatures": new_viol,
        "jobs": jobs,
    }
    extra = getattr(mod, "evidence_extra", None)
    if extra:
        coverage.update(extra(stats, tier))
    ev = {
        "property_id": prop,
        "tier": tier,
        "seed": base_seed,
        "level": mod.LEVEL,
        "coverage": coverage,
        "assumptions": getattr(mod, "ASSUMPTIONS", []),
        "wall_s": round(wall_s, 2),
        "violations": len(new_viol),
    }
    # the committed evidence file is only rewritten by a run of the registered command (no --runs / --wall override, not a
    # sensitivity run on a deliberately broken tree); everything else goes to a git-ignored scratch directory
    official = runs_override is None and wall_override is None and not os.environ.get("VERIF_SCRATCH_EVIDENCE")
    edir = os.path.join(VERIF, "evidence" if official else "evidence_scratch")
    os.makedirs(edir, exist_ok=True)
    with open(os.path.join(edir, f"{prop}.json"), "w") as f:
        json.dump(ev, f, indent=1, sort_keys=True, default=str)
    print(
        f"{prop} {tier}: runs={evals} units={agg['units']} nontrivial_distinct={len(agg['nontrivial'])} "
        f"obligations={agg['obligations']} sim_s={agg['sim_time']:.0f} states={len(agg['states'])} "
        f"known={sum(known_hit.values())} new={len(new_viol)} wall={wall_s:.1f}s"
    )
    if evals == 0:
        raise HarnessError("no run executed")
    if unreproducible and exit_code == 0:
        raise HarnessError(f"{len(unreproducible)} violation signature(s) seen in workers did not reproduce in the parent process: {unreproducible[:3]}")
    return exit_code


def selftest(modname: str, tier: str, base_seed: int, n: int = 40) -> int:
    """Determinism: each seed twice in-process, and once more in a fresh interpreter under
    another PYTHONHASHSEED; event-log digests must agree."""
    mod = _load(modname)
    seeds = seeds_for(base_seed, n)
    d1 = {}
    for s in seeds:
        a = run_seed(mod, s, tier)[1]
        b = run_seed(mod, s, tier)[1]
        if a["digest"] != b["digest"]:
            print(f"HARNESS-ERROR nondeterminism in-process {modname} seed={s}")
            return 2
        d1[s] = a["digest"]
    env = dict(os.environ, PYTHONHASHSEED="12345", VERIF_REEXEC="1")
    out = subprocess.run(
        [sys.executable, os.path.join(VERIF, "check.py"), mod.PROP, "--digests", str(n), "--tier", tier, "--seed", str(base_seed), "--module", modname],
        env=env,
        capture_output=True,
        text=True,
        timeout=1800,
    )
    if out.returncode != 0:
        print(out.stdout[-2000:], out.stderr[-2000:])
        print(f"HARNESS-ERROR fresh interpreter failed {modname}")
        return 2
    d2 = json.loads(out.stdout.strip().splitlines()[-1])
    bad = [s for s in seeds if d2.get(str(s)) != d1[s]]
    if bad:
        print(f"HARNESS-ERROR nondeterminism across interpreters {modname} seeds={bad[:5]}")
        return 2
    print(f"selftest ok: {modname} {n} seeds x (2 in-process + 1 fresh interpreter, other hash seed)")
    return 0


def print_digests(modname: str, tier: str, base_seed: int, n: int) -> int:
    mod = _load(modname)
    out = {}
    for s in seeds_for(base_seed, n):
        out[str(s)] = run_seed(mod, s, tier)[1]["digest"]
    print(json.dumps(out))
    return 0


def _digest_chunk(args) -> dict:
    modname, seeds, tier = args
    faulthandler.dump_traceback_later(900, exit=True)
    try:
        mod = _load(modname)
        return {str(s): run_seed(mod, s, tier)[1]["digest"] for s in seeds}
    finally:
        faulthandler.cancel_dump_traceback_later()


def pool_digests(modname: str, tier: str, base_seed: int, n: int, jobs: int, reverse: bool) -> dict:
    """digests of n seeds executed in a worker pool: `jobs` processes, chunks of 25 seeds, optionally in reversed order, so
    that what ran earlier in the same process differs between two sweeps"""
    seeds = seeds_for(base_seed, n)
    if reverse:
        seeds = seeds[::-1]
    chunks = [seeds[i : i + 25] for i in range(0, len(seeds), 25)]
    out: dict = {}
    with cf.ProcessPoolExecutor(max_workers=jobs, mp_context=mp.get_context("fork")) as ex:
        for d in ex.map(_digest_chunk, [(modname, c, tier) for c in chunks]):
            out.update(d)
    return out


def detsweep(modname: str, tier: str, base_seed: int, n: int) -> int:
    """large-sample determinism proof: n seeds in a 16-process pool in seed order in this interpreter, and the same seeds in a
    5-process pool in reversed order in a fresh interpreter under another PYTHONHASHSEED; every event-log digest must agree"""
    t0 = time.time()
    d1 = pool_digests(modname, tier, base_seed, n, 16, False)
    env = dict(os.environ, PYTHONHASHSEED="4242", VERIF_REEXEC="1")
    out = subprocess.run(
        [sys.executable, os.path.join(VERIF, "check.py"), _load(modname).PROP, "--pool-digests", str(n), "--tier", tier, "--seed", str(base_seed),
         "--module", modname, "--jobs", "5"],
        env=env, capture_output=True, text=True, timeout=3600,
    )
    if out.returncode != 0:
        print(out.stdout[-2000:], out.stderr[-2000:])
        print(f"HARNESS-ERROR fresh interpreter failed {modname}")
        return 2
    d2 = json.loads(out.stdout.strip().splitlines()[-1])
    bad = [s for s in d1 if d2.get(s) != d1[s]]
    if bad or len(d1) != n or len(d2) != n:
        print(f"HARNESS-ERROR nondeterminism {modname}: {len(bad)} of {n} digests differ between sweeps, seeds={bad[:8]}")
        return 2
    print(f"detsweep ok: {modname} {n} seeds, 16 workers forward == 5 workers reversed under another hash seed ({time.time() - t0:.0f}s)")
    return 0


def main(argv: list[str], registry: dict[str, str]) -> int:
    ap = argparse.ArgumentParser()
    ap.add_argument("prop")
    ap.add_argument("--tier", default=os.environ.get("VERIF_TIER", "quick"))
    ap.add_argument("--replay")
    ap.add_argument("--seed", type=int, default=None)
    ap.add_argument("--runs", type=int, default=None)
    ap.add_argument("--wall", type=float, default=None)
    ap.add_argument("--jobs", type=int, default=int(os.environ.get("VERIF_JOBS", "16")))
    ap.add_argument("--selftest", action="store_true")
    ap.add_argument("--digests", type=int, default=0)
    ap.add_argument("--pool-digests", type=int, default=0)
    ap.add_argument("--detsweep", type=int, default=0, help="large-sample determinism sweep over N seeds")
    ap.add_argument("--module", default=None)
    ap.add_argument("--one", type=int, default=None, help="run a single absolute seed verbosely")
    a = ap.parse_args(argv)
    if a.tier not in ("quick", "thorough"):
        a.tier = "quick"
    base_seed = a.seed if a.seed is not None else int(os.environ.get("VERIF_SEED", "1") or 1)
    if a.seed is not None and not os.environ.get("VERIF_OFFICIAL_EVIDENCE"):
        os.environ["VERIF_SCRATCH_EVIDENCE"] = "1"  # an explicit --seed is an exploration run, not the registered command
    try:
        import aiohomekit

        if not os.path.abspath(aiohomekit.__file__).startswith("/repo/"):
            raise HarnessError(f"aiohomekit imported from {aiohomekit.__file__}, expected /repo working tree")
        if a.replay:
            return replay_file(a.replay)
        modname = a.module or registry[a.prop]
        if a.digests:
            return print_digests(modname, a.tier, base_seed, a.digests)
        if a.pool_digests:
            print(json.dumps(pool_digests(modname, a.tier, base_seed, a.pool_digests, a.jobs, True)))
            return 0
        if a.detsweep:
            return detsweep(modname, a.tier, base_seed, a.detsweep)
        if a.selftest:
            return selftest(modname, a.tier, base_seed)
        if a.one is not None:
            mod = _load(modname)
            plan, res = run_seed(mod, a.one, a.tier)
            print(json.dumps({"plan": plan, "violations": res["violations"], "stats": res["stats"], "digest": res["digest"], "made": res["made"]}, indent=1, default=str))
            return 1 if res["violations"] else 0
        return drive(modname, a.tier, base_seed, a.jobs, a.runs, a.wall)
    except HarnessError as e:
        print(f"HARNESS-ERROR {e}")
        return 2
    except Exception:
        traceback.print_exc()
        print("HARNESS-ERROR unexpected exception in the harness")
        return 2
