"""Chooser (one integer decides everything), run context, result record."""

from __future__ import annotations

import hashlib
import struct
from collections import Counter
from typing import Any, Sequence


def _h64(seed: int, site: str, k: int) -> int:
    d = hashlib.blake2b(f"{seed}|{site}|{k}".encode(), digest_size=8).digest()
    return struct.unpack("<Q", d)[0]


class Chooser:
    """Every choice of a run is ch.<kind>(site, ...) for a stable site label.

    search mode : value = H(seed, site, occurrence) mapped through the distribution given
                  at the call site; values different from the benign default are recorded
                  in .made so the run can be re-expressed as explicit decisions.
    replay mode : value = decisions["site#k"] if listed, else the benign default.
    Neutral draws (key material, payload bytes: no benign/faulty distinction) always come
    from H(seed, ...) in both modes, so a replay file needs the seed as well.
    Once .healed is set every fault decision returns its default and is not recorded.
    Nothing here reads a clock or global random state; logging never calls the Chooser.
    """

    def __init__(self, seed: int, decisions: dict[str, Any] | None = None, replay: bool = False) -> None:
        self.seed = seed
        self.replay = replay
        self.decisions = decisions or {}
        self.made: dict[str, Any] = {}
        self.count: Counter[str] = Counter()
        self.healed = False
        self.fired: Counter[str] = Counter()  # site-class -> how often a non-default value was used

    # -- internals ----------------------------------------------------------------
    def _next(self, site: str) -> tuple[str, int]:
        k = self.count[site]
        self.count[site] = k + 1
        return f"{site}#{k}", k

    def _decide(self, site: str, default, derive):
        key, k = self._next(site)
        if self.healed:
            return default
        if self.replay:
            if key in self.decisions:
                v = self.decisions[key]
                if isinstance(default, tuple) and isinstance(v, list):
                    v = tuple(v)
                if v != default:
                    self.made[key] = v
                    self.fired[site.split(":")[0]] += 1
                return v
            return default
        v = derive(_h64(self.seed, site, k))
        if v != default:
            self.made[key] = v
            self.fired[site.split(":")[0]] += 1
        return v

    # -- fault / schedule decisions (have a benign default) ---------------------------
    def pick(self, site: str, n: int, default: int = 0) -> int:
        """uniform integer in [0, n)"""
        if n <= 1:
            self._next(site)
            return 0 if n <= 1 else default
        return self._decide(site, default, lambda h: h % n)

    def chance(self, site: str, p: float, default: bool = False) -> bool:
        if p <= 0:
            self._next(site)
            return default
        return self._decide(site, default, lambda h: (h / 2**64) < p)

    def weighted(self, site: str, options: Sequence[tuple[Any, float]], default: Any = None) -> Any:
        """options: [(value, weight)...]; default = first value unless given"""
        if default is None:
            default = options[0][0]
        total = float(sum(w for _, w in options))
        if total <= 0:
            self._next(site)
            return default

        def derive(h):
            x = (h / 2**64) * total
            for v, w in options:
                x -= w
                if x < 0:
                    return v
            return options[-1][0]

        return self._decide(site, default, derive)

    def uniform(self, site: str, lo: float, hi: float, default: float | None = None) -> float:
        if default is None:
            default = lo
        return self._decide(site, default, lambda h: round(lo + (hi - lo) * (h / 2**64), 6))

    def choice(self, site: str, seq: Sequence[Any], default_index: int = 0) -> Any:
        return seq[self.pick(site, len(seq), default_index)]

    # -- neutral draws ------------------------------------------------------------------
    def nbytes(self, site: str, n: int) -> bytes:
        _, k = self._next(site)
        out = b""
        i = 0
        while len(out) < n:
            out += hashlib.blake2b(f"{self.seed}|{site}|{k}|{i}".encode(), digest_size=64).digest()
            i += 1
        return out[:n]

    def nint(self, site: str, n: int) -> int:
        _, k = self._next(site)
        return _h64(self.seed, site, k) % n


class Violation(dict):
    pass


class Ctx:
    """Per-run recording: event log (for the determinism digest), violations, reach stats."""

    def __init__(self, ch: Chooser) -> None:
        self.ch = ch
        self.loop = None
        self.log: list[tuple] = []
        self.violations: list[dict] = []
        self.stats: Counter[str] = Counter()
        self.states: set[int] = set()
        self.kinds: list[str] = []
        self.obligations = 0  # oracle evaluations that had something to check

    def now(self) -> float:
        return round(self.loop.time(), 6) if self.loop is not None else 0.0

    def event(self, kind: str, *details) -> None:
        self.log.append((self.now(), kind) + tuple(details))
        self.kinds.append(kind)

    def probe(self, name: str, n: int = 1) -> None:
        self.stats[name] += n

    def state(self, *tup) -> None:
        self.states.add(hash_small(tup))

    def violate(self, oracle: str, attrs: str, msg: str) -> None:
        sig = f"{oracle}/{attrs}" if attrs else oracle
        self.event("VIOLATION", sig)
        if not any(v["sig"] == sig for v in self.violations):
            self.violations.append({"oracle": oracle, "sig": sig, "msg": msg, "t": self.now()})

    def digest(self) -> str:
        h = hashlib.blake2b(digest_size=12)
        for e in self.log:
            h.update(repr(e).encode())
            h.update(b"\n")
        return h.hexdigest()

    def trigrams(self) -> set[int]:
        k = self.kinds
        return {hash_small((k[i], k[i + 1], k[i + 2])) for i in range(len(k) - 2)}


def hash_small(obj) -> int:
    return struct.unpack("<I", hashlib.blake2b(repr(obj).encode(), digest_size=4).digest())[0]


def result_of(ctx: Ctx, *, nontrivial: bool, sim_time: float = 0.0, sample: Any = None, units: int = 1) -> dict:
    """The picklable per-run record returned to the harness."""
    ch = ctx.ch
    stats = Counter(ctx.stats)
    for k, v in ch.fired.items():
        stats["fault:" + k] += v
    return {
        "digest": ctx.digest(),
        "violations": ctx.violations,
        "stats": dict(stats),
        "nontrivial": bool(nontrivial and ctx.obligations > 0),
        "obligations": ctx.obligations,
        "sim_time": sim_time,
        "states": tuple(ctx.states),
        "trigrams": tuple(ctx.trigrams()),
        "made": dict(ch.made),
        "n_events": len(ctx.log),
        "sample": sample,
        "units": units,
    }
