"""Recording proxies around the AEAD primitives the library uses (harness-side rebinding of the
names ChaCha20Poly1305Reusable in aiohomekit.crypto.chacha20poly1305 and ChaCha20Poly1305 in
aiohomekit.controller.coap.connection).  Every (operation, key, nonce, success, ciphertext digest)
is logged; C06's oracles are evaluated over this log."""

from __future__ import annotations

import hashlib

LOG: list[tuple] = []
_installed = False


def reset() -> None:
    LOG.clear()


def _wrap(real_cls):
    class Spy:
        def __init__(self, key):
            self._key = bytes(key)
            self._real = real_cls(key)

        def encrypt(self, nonce, data, aad):
            out = self._real.encrypt(nonce, data, aad)
            LOG.append(("enc", self._key, bytes(nonce), True, hashlib.blake2b(bytes(out), digest_size=8).digest(), len(data)))
            return out

        def decrypt(self, nonce, data, aad):
            dg = hashlib.blake2b(bytes(data), digest_size=8).digest()
            try:
                out = self._real.decrypt(nonce, data, aad)
            except Exception:
                LOG.append(("dec", self._key, bytes(nonce), False, dg, len(data)))
                raise
            LOG.append(("dec", self._key, bytes(nonce), True, dg, len(data)))
            return out

    Spy.__name__ = "Spy" + real_cls.__name__
    return Spy


def install() -> None:
    global _installed
    if _installed:
        return
    _installed = True
    import aiohomekit.crypto.chacha20poly1305 as m

    m.ChaCha20Poly1305Reusable = _wrap(m.ChaCha20Poly1305Reusable)
    try:
        import aiohomekit.controller.coap.connection as cc

        cc.ChaCha20Poly1305 = _wrap(cc.ChaCha20Poly1305)
    except Exception:  # noqa: BLE001
        pass


def judge(ctx, prefix: str, heuristics: bool = False) -> dict:
    """per key: encrypt nonces pairwise distinct; successful decrypt nonces strictly increasing; a
    ciphertext yields plaintext at most once.  Only counter-style nonces (4 zero bytes + LE64) are
    ordered; label nonces (PV-Msg02 ...) are single-use per key and only checked for reuse.

    heuristics=True (CoAP): a violation is attributed to the library's resynchronisation ladder when
    the log shows that ladder at work - the accepted decrypt is preceded by failed attempts on the
    same ciphertext, the first at counter N, and the accepted counter lies in N-5..N-1 ("rewind") or
    is 0 after the whole ladder failed ("zero-reset"); a reused encrypt nonce is attributed to the
    zero reset when a completed ladder (attempt at counter 0 after >= 6 failures on one ciphertext)
    lies between the two encryptions; an old counter accepted directly after such an acceptance is
    "after-rewind" (the library keeps counting from the rewound value).  The attribution only names
    the cause in the signature."""
    by_key: dict[bytes, dict] = {}
    stats = {"keys": 0, "enc": 0, "dec_ok": 0, "dec_fail": 0}
    ladder: list[int] = []  # counters of the failed attempts on the current ciphertext
    ladder_dg = None
    zero_resets = 0  # completed ladders that reached the reset-to-zero step
    for op, key, nonce, ok, dg, n in LOG:
        k = by_key.setdefault(key, {"enc": {}, "dec_last": -1, "dec_seen": set()})
        counter = int.from_bytes(nonce[4:], "little") if nonce[:4] == b"\x00\x00\x00\x00" else None
        is_label = all(0x20 <= b < 0x7F for b in nonce[4:])  # pairing nonces are 4 zero bytes + 8 ASCII bytes
        if op == "enc":
            stats["enc"] += 1
            if nonce in k["enc"]:
                n0, z0 = k["enc"][nonce]
                cause = "after-zero-reset" if heuristics and zero_resets > z0 else "encrypt"
                ctx.violate(prefix + "nonce-reuse", cause, f"two messages encrypted under one key with the same nonce {nonce.hex()} (lengths {n0} and {n})")
            k["enc"][nonce] = (n, zero_resets)
            continue
        if dg != ladder_dg:
            ladder, ladder_dg = [], dg
        if not ok:
            stats["dec_fail"] += 1
            if counter is not None and not is_label:
                ladder.append(counter)
                if counter == 0 and len(ladder) >= 7:
                    zero_resets += 1
            continue
        stats["dec_ok"] += 1
        cause = ""
        if heuristics and ladder and counter is not None:
            first = ladder[0]
            if first - 5 <= counter < first and len(ladder) <= 5:
                cause = "rewind-heuristic"
            elif counter == 0 and len(ladder) >= 6:
                cause = "zero-reset-heuristic"
                zero_resets += 1
        if heuristics and ladder and counter is not None and counter > ladder[0]:
            stats["forward_resync"] = stats.get("forward_resync", 0) + 1
        if cause:
            k["rewound"] = True  # the library keeps counting from the rewound value
        elif heuristics and k.get("rewound") and counter is not None and counter <= k["dec_last"]:
            cause = "after-rewind-heuristic"
        if (nonce, dg) in k["dec_seen"]:
            ctx.violate(prefix + "accepted-twice", cause, f"the same ciphertext was accepted twice under nonce {nonce.hex()}")
        k["dec_seen"].add((nonce, dg))
        if not is_label and counter is not None:
            if counter <= k["dec_last"]:
                ctx.violate(prefix + "out-of-order-accepted", cause or "replay-or-older", f"a message with counter {counter} was accepted after counter {k['dec_last']} under the same key")
            k["dec_last"] = max(k["dec_last"], counter)
        ladder, ladder_dg = [], None
    stats["keys"] = len(by_key)
    ctx.obligations += stats["enc"] + stats["dec_ok"]
    return stats
