"""Module-attribute seams: every source of nondeterminism aiohomekit consumes is rebound to a
shim that draws from the current run's Chooser / SimLoop.  Installed once per process;
with no current run the shims fall through to the real thing.  Nothing in /repo is edited.
"""

from __future__ import annotations

import asyncio
import os as _real_os
import random as _real_random
import socket as _real_socket
import time as _real_time
import types
import uuid as _real_uuid

CUR = types.SimpleNamespace(ch=None, ctx=None, ios_verify_priv=[], keys_seen=[])
_installed = False


def begin(ctx) -> None:
    install()
    CUR.ch = ctx.ch
    CUR.ctx = ctx
    CUR.ios_verify_priv = []  # X25519 private keys handed to the library (for the reference verifier)
    CUR.ios_ltsk = []
    _reset_process_globals()


def end() -> None:
    CUR.ch = None
    CUR.ctx = None
    _reset_process_globals()


def _reset_process_globals() -> None:
    try:
        from aiohomekit import utils

        utils._BACKGROUND_TASKS.clear()
    except Exception:  # noqa: BLE001
        pass
    try:
        from aiohomekit.controller.ble import client as bc

        for name in ("_determine_fragment_size", "determine_fragment_size"):
            f = getattr(bc, name, None)
            if f is not None and hasattr(f, "cache_clear"):
                f.cache_clear()
    except Exception:  # noqa: BLE001
        pass


class _OsShim:
    def __getattr__(self, name):
        return getattr(_real_os, name)

    @staticmethod
    def urandom(n: int) -> bytes:
        if CUR.ch is None:
            return _real_os.urandom(n)
        hook = getattr(CUR, "urandom_hook", None)
        if hook is not None:
            v = hook(n)
            if v is not None:
                return v
        return CUR.ch.nbytes("lib.urandom", n)


class _RandomShim:
    def __getattr__(self, name):
        return getattr(_real_random, name)

    @staticmethod
    def randint(a, b):
        if CUR.ch is None:
            return _real_random.randint(a, b)
        return a + CUR.ch.nint("lib.random", b - a + 1)

    @staticmethod
    def randrange(a, b=None):
        if CUR.ch is None:
            return _real_random.randrange(a, b)
        if b is None:
            a, b = 0, a
        return a + CUR.ch.nint("lib.random", b - a)


class _UuidShim:
    def __getattr__(self, name):
        return getattr(_real_uuid, name)

    @staticmethod
    def uuid4():
        if CUR.ch is None:
            return _real_uuid.uuid4()
        return _real_uuid.UUID(bytes=CUR.ch.nbytes("lib.uuid4", 16), version=4)


class _TimeShim:
    def __getattr__(self, name):
        return getattr(_real_time, name)

    @staticmethod
    def monotonic():
        if CUR.ctx is None or CUR.ctx.loop is None:
            return _real_time.monotonic()
        return 1000.0 + CUR.ctx.loop.time()

    @staticmethod
    def time():
        if CUR.ctx is None or CUR.ctx.loop is None:
            return _real_time.time()
        return 1_700_000_000.0 + CUR.ctx.loop.time()


def _make_key_shims():
    from cryptography.hazmat.primitives.asymmetric import ed25519 as real_ed
    from cryptography.hazmat.primitives.asymmetric import x25519 as real_x

    class XPriv:
        from_private_bytes = staticmethod(real_x.X25519PrivateKey.from_private_bytes)

        @staticmethod
        def generate():
            if CUR.ch is None:
                return real_x.X25519PrivateKey.generate()
            raw = CUR.ch.nbytes("lib.x25519", 32)
            CUR.ios_verify_priv.append(raw)
            return real_x.X25519PrivateKey.from_private_bytes(raw)

    class EPriv:
        from_private_bytes = staticmethod(real_ed.Ed25519PrivateKey.from_private_bytes)

        @staticmethod
        def generate():
            if CUR.ch is None:
                return real_ed.Ed25519PrivateKey.generate()
            raw = CUR.ch.nbytes("lib.ed25519", 32)
            CUR.ios_ltsk.append(raw)
            return real_ed.Ed25519PrivateKey.from_private_bytes(raw)

    xs = types.SimpleNamespace(X25519PrivateKey=XPriv, X25519PublicKey=real_x.X25519PublicKey)
    es = types.SimpleNamespace(Ed25519PrivateKey=EPriv, Ed25519PublicKey=real_ed.Ed25519PublicKey)
    return xs, es


class _SocketShim:
    """stands in for the `socket` module inside aiohappyeyeballs.impl"""

    def __getattr__(self, name):
        return getattr(_real_socket, name)

    @staticmethod
    def socket(family=-1, type=-1, proto=-1, fileno=None):
        loop = None
        try:
            loop = asyncio.get_running_loop()
        except RuntimeError:
            pass
        net = getattr(loop, "net", None)
        if net is None:
            return _real_socket.socket(family, type, proto, fileno)
        return net.new_socket(family, type, proto)


def install() -> None:
    global _installed
    if _installed:
        return
    _installed = True
    import aiohappyeyeballs.impl as hei

    hei.socket = _SocketShim()

    import aiohomekit.crypto.srp as srp
    import aiohomekit.protocol as proto

    srp.os = _OsShim()
    xs, es = _make_key_shims()
    proto.x25519 = xs
    proto.ed25519 = es

    import aiohomekit.controller.ip.discovery as ipd

    ipd.uuid = _UuidShim()


def install_coap() -> None:
    install()
    import aiohomekit.controller.coap.connection as cc

    if not isinstance(cc.random, _RandomShim):
        cc.random = _RandomShim()
        cc.uuid = _UuidShim()


def install_ble() -> None:
    install()
    import aiohomekit.controller.ble.client as bc
    import aiohomekit.controller.ble.discovery as bd
    import aiohomekit.controller.ble.pairing as bp

    if not isinstance(getattr(bp, "time", None), _TimeShim):
        bp.random = _RandomShim()
        bp.time = _TimeShim()
        bc.random = _RandomShim()
        bd.uuid = _UuidShim()
