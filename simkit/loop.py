"""Virtual-time asyncio event loop.

SimLoop is CPython's own BaseEventLoop (ready queue, timer heap, tasks, futures,
asyncio.timeout, shield, wait ...) with the selector replaced by an object that, instead
of sleeping, advances a virtual clock to the next timer.  Nothing else about scheduling is
changed: call_soon stays FIFO, so every schedule the simulator produces is one real asyncio
can produce.  All nondeterminism enters through *when* simulated external events are
scheduled (call_at with a chosen virtual time).

A loop with nothing runnable and nothing scheduled raises SimDeadlock: a hang is an
observable outcome here, not a wall-clock timeout.
"""

from __future__ import annotations

import asyncio
import asyncio.base_events


class SimDeadlock(Exception):
    """Nothing is runnable and no timer is pending while somebody still waits."""


class SimStepLimit(Exception):
    """The per-run cap on loop iterations was exceeded (livelock / busy loop)."""


class _SimSelector:
    def __init__(self, loop: "SimLoop") -> None:
        self._loop = loop

    def select(self, timeout):
        loop = self._loop
        loop._iterations += 1
        if loop._iterations > loop._max_iterations:
            raise SimStepLimit(f"more than {loop._max_iterations} loop iterations")
        if timeout is None:
            raise SimDeadlock("event loop has nothing to run and nothing scheduled")
        if timeout > 0:
            if loop.on_idle is not None:
                loop.on_idle()
            # jump exactly to the next timer (avoids float drift of now+timeout)
            sched = loop._scheduled
            if sched:
                when = sched[0]._when
                target = loop._vtime + timeout
                loop._vtime = when if abs(when - target) < 1e-6 else target
            else:  # pragma: no cover - timeout>0 implies a scheduled timer
                loop._vtime += timeout
        return ()

    def close(self):
        pass


class SimLoop(asyncio.base_events.BaseEventLoop):
    def __init__(self, max_iterations: int = 2_000_000) -> None:
        super().__init__()
        self._vtime = 0.0
        self._iterations = 0
        self._max_iterations = max_iterations
        self._selector = _SimSelector(self)
        self._clock_resolution = 1e-9
        self.net = None  # set by worlds that simulate TCP
        self.on_idle = None  # called when everything runnable has run and time is about to advance
        self.exceptions: list[dict] = []  # what reached the loop exception handler
        self.set_exception_handler(self._on_exception)

    # -- clock -----------------------------------------------------------------
    def time(self) -> float:
        return self._vtime

    # -- BaseEventLoop plumbing ------------------------------------------------
    def _process_events(self, event_list) -> None:
        pass

    def _write_to_self(self) -> None:
        pass

    def _on_exception(self, loop, context) -> None:
        self.exceptions.append(context)

    # -- TCP seam (implemented against loop.net, see worlds/ip.py) --------------
    async def sock_connect(self, sock, address):
        return await self.net.sock_connect(sock, address)

    async def create_connection(self, protocol_factory, host=None, port=None, *, sock=None, **kw):
        if sock is None:
            # create_connection(host, port) with an address literal: what the real loop does without the name lookup -
            # a socket of the literal's family, a non-blocking connect, then the transport
            import socket as _s

            if host is None or port is None:
                raise ValueError("host and port was not specified and no sock specified")
            fam = _s.AF_INET6 if ":" in host else _s.AF_INET
            sock = self.net.new_socket(fam, _s.SOCK_STREAM, _s.IPPROTO_TCP)
            try:
                await self.net.sock_connect(sock, (host, port, 0, 0) if fam == _s.AF_INET6 else (host, port))
            except BaseException:
                sock.close()
                raise
        return await self.net.create_connection(self, protocol_factory, sock)

    async def getaddrinfo(self, host, port, *, family=0, type=0, proto=0, flags=0):
        """address literals only (the library never resolves names itself): answered without a thread pool or the network"""
        import socket as _s

        if isinstance(host, bytes):
            host = host.decode()
        fam = _s.AF_INET6 if ":" in host else _s.AF_INET
        if family not in (0, fam):
            raise _s.gaierror(_s.EAI_ADDRFAMILY, "Address family for hostname not supported")
        addr = (host, port, 0, 0) if fam == _s.AF_INET6 else (host, port)
        return [(fam, type or _s.SOCK_STREAM, proto or _s.IPPROTO_TCP, "", addr)]

    # -- helpers -----------------------------------------------------------------
    def run_sim(self, coro):
        """Run coro to completion; always leaves the loop closed and tasks cancelled."""
        asyncio.set_event_loop(self)
        try:
            return self.run_until_complete(coro)
        finally:
            try:
                self._cancel_all()
            finally:
                asyncio.set_event_loop(None)
                self.close()

    def _cancel_all(self) -> None:
        for _ in range(50):
            tasks = [t for t in asyncio.all_tasks(self) if not t.done()]
            if not tasks:
                break
            for t in tasks:
                t.cancel()
            # let cancellations propagate; timers are irrelevant now
            self._max_iterations = self._iterations + 100_000
            try:
                self.run_until_complete(asyncio.gather(*tasks, return_exceptions=True))
            except (SimDeadlock, SimStepLimit, RuntimeError):
                break
        self._ready.clear()
        self._scheduled.clear()
