"""Reference HAP-over-CoAP (Thread) accessory.

Apple's Thread transport is not publicly specified: every wire detail here is marked L in DESIGN
appendix A.3 (known from what the library sends / expects).  The crypto and pairing parts (SRP,
pair-verify, HKDF labels, AEAD) are from the HAP specification.  Keeps ground truth for the oracles.
"""

from __future__ import annotations

import struct

from . import ble_accessory as ba
from . import crypto as C
from . import hap, tlv8

OP_WRITE, OP_READ, OP_DB, OP_SUB, OP_UNSUB = 2, 3, 9, 0x0B, 0x0C


def _nonce(n: int) -> bytes:
    return b"\x00\x00\x00\x00" + struct.pack("<Q", n)


def short_type(type_hex: str) -> bytes:
    """HAP-base UUIDs travel as the minimal little-endian encoding of their short form (as seen in captures: 06 01 3e)"""
    n = int(type_hex, 16)
    return n.to_bytes(max(1, (n.bit_length() + 7) // 8), "little")


def tlv_seq(items: list[bytes]) -> bytes:
    """list of encoded structs separated by a zero-length separator item (00 00)"""
    return b"\x00\x00".join(items)


class CChar:
    def __init__(self, type_hex: str, iid: int, fmt: str, perms, value=None, unit=None, minv=None, maxv=None, step=None, description=None) -> None:
        self.type_hex = type_hex
        self.iid = iid
        self.fmt = fmt
        self.perms = list(perms)
        self.value = value
        self.unit = unit
        self.minv, self.maxv, self.step = minv, maxv, step
        self.description = description
        self.subscribed = False

    def props(self) -> int:
        w = 0
        for p in self.perms:
            w |= {"pr": 0x10, "pw": 0x20, "ev": 0x80, "aa": 0x04, "tw": 0x08, "hd": 0x40}.get(p, 0)
        return w

    def encode(self) -> bytes:
        items = [(0x04, short_type(self.type_hex)), (0x05, struct.pack("<H", self.iid)), (0x0A, struct.pack("<H", self.props())),
                 (0x0C, struct.pack("<BBHBH", ba.FORMAT_CODE[self.fmt], 0, ba.UNIT_CODE.get(self.unit, 0x2700), 1, 0))]
        if self.minv is not None and self.maxv is not None:
            items.append((0x0D, ba.pack_value(self.fmt, self.minv) + ba.pack_value(self.fmt, self.maxv)))
        if self.step is not None:
            items.append((0x0E, ba.pack_value(self.fmt, self.step)))
        if self.description is not None:
            items.append((0x0B, self.description.encode("utf-8")))
        return tlv8.encode(items)


class CService:
    def __init__(self, type_hex: str, iid: int, chars: list[CChar], linked=None, props: int = 0) -> None:
        self.type_hex = type_hex
        self.iid = iid
        self.chars = chars
        self.linked = linked or []
        self.props = props

    def encode(self) -> bytes:
        chars = tlv_seq([tlv8.encode([(0x13, c.encode())]) for c in self.chars])
        items = [(0x07, struct.pack("<H", self.iid)), (0x06, short_type(self.type_hex)), (0x14, chars)]
        if self.props:
            items.append((0x0F, struct.pack("<H", self.props)))
        if self.linked:
            items.append((0x10, b"".join(struct.pack("<H", i) for i in self.linked)))
        return tlv8.encode(items)


class CoapAccessory:
    def __init__(self, ident: hap.AccessoryIdentity, controllers: dict[str, bytes], accessories: list[tuple[int, list[CService]]], eph=None, setup_code="111-22-333") -> None:
        self.ident = ident
        self.controllers = dict(controllers)
        self.admins = set(controllers)
        self.accessories = accessories
        self.eph = eph or (lambda what, n: C.H(what.encode())[:n])
        self.setup_code = setup_code
        self.verify: hap.VerifyResponder | None = None
        self.setup: hap.SetupResponder | None = None
        self.recv_key = self.send_key = self.event_key = None
        self.recv_ctr = self.send_ctr = self.event_ctr = 0
        self.session_controller = None
        self.requests: list[dict] = []  # every decoded request PDU
        self.writes_applied: list[tuple[int, object]] = []
        self.nonces_seen: list[int] = []
        self.sent: list[dict] = []  # every sealed response: counter, plaintext
        self.protocol_errors: list[str] = []
        self.item_plan = None  # callable(index, opcode, iid) -> dict(status=, wrong_tid=, bad_control=, body=)
        self.verify_mut = None
        self.pairings_mut = None
        self.sessions_started = 0

    def all_chars(self):
        for _, svcs in self.accessories:
            for s in svcs:
                yield from s.chars

    def find(self, iid: int) -> CChar | None:
        for c in self.all_chars():
            if c.iid == iid:
                return c
        return None

    def database(self) -> bytes:
        accs = []
        for aid, svcs in self.accessories:
            services = tlv_seq([tlv8.encode([(0x15, s.encode())]) for s in svcs])
            accs.append(tlv8.encode([(0x19, tlv8.encode([(0x1A, struct.pack("<H", aid)), (0x16, services)]))]))
        return tlv8.encode([(0x18, tlv_seq(accs))])

    # ---- plain endpoints ---------------------------------------------------------------------
    def post_pair_verify(self, payload: bytes) -> bytes:
        items = tlv8.decode(payload, strict=False)
        if not tlv8.is_canonical(payload):
            self.protocol_errors.append("pair-verify request TLV not canonical")
        d = tlv8.to_dict(items)
        if d.get(hap.T_STATE) == b"\x01":
            self.verify = hap.VerifyResponder(self.ident, self.controllers, self.eph("verify-eph", 32), mut=self.verify_mut() if self.verify_mut else None)
        if self.verify is None:
            return tlv8.encode([(hap.T_STATE, b"\x04"), (hap.T_ERROR, b"\x01")])
        reply = self.verify.handle(items)
        if self.verify.state == 4 and self.verify.shared is not None and d.get(hap.T_STATE) == b"\x03":
            self.send_key, self.recv_key = self.verify.control_keys()  # (accessory->controller, controller->accessory)
            self.event_key = self.verify.event_key()
            self.recv_ctr = self.send_ctr = self.event_ctr = 0
            self.session_controller = self.verify.verified_controller
            self.sessions_started += 1
        return tlv8.encode(reply)

    def post_pair_setup(self, payload: bytes) -> bytes:
        items = tlv8.decode(payload, strict=False)
        d = tlv8.to_dict(items)
        if d.get(hap.T_STATE) == b"\x01":
            self.setup = hap.SetupResponder(self.ident, self.setup_code, self.eph("srp-salt", 16), int.from_bytes(self.eph("srp-b", 32), "big"))
        reply = self.setup.handle(items) if self.setup else [(hap.T_STATE, b"\x02"), (hap.T_ERROR, b"\x01")]
        if self.setup and self.setup.m5_ok and self.setup.paired_controller:
            self.controllers[self.setup.paired_controller[0]] = self.setup.paired_controller[1]
            self.admins.add(self.setup.paired_controller[0])
        return tlv8.encode(reply)

    # ---- secure endpoint ----------------------------------------------------------------------------
    def post_secure(self, enc_payload: bytes) -> tuple[str, bytes]:
        """-> ('changed', sealed response) | ('notfound', b'')"""
        if self.recv_key is None:
            return "notfound", b""
        pt = C.unseal(self.recv_key, _nonce(self.recv_ctr), enc_payload, b"")
        if pt is None:
            self.protocol_errors.append(f"request failed authentication under counter {self.recv_ctr}")
            return "notfound", b""
        self.nonces_seen.append(self.recv_ctr)
        self.recv_ctr += 1
        out = bytearray()
        off = 0
        idx = 0
        while off < len(pt):
            if off + 7 > len(pt):
                self.protocol_errors.append("truncated request PDU header")
                break
            control, opcode, tid, iid, blen = struct.unpack("<BBBHH", pt[off : off + 7])
            body = pt[off + 7 : off + 7 + blen]
            if len(body) != blen:
                self.protocol_errors.append("truncated request PDU body")
            off += 7 + blen
            rec = {"index": idx, "opcode": opcode, "tid": tid, "iid": iid, "body": bytes(body), "control": control}
            self.requests.append(rec)
            forced = (self.item_plan(idx, opcode, iid) or {}) if self.item_plan else {}
            if forced.get("status"):
                status, rbody = forced["status"], b""  # rejected before touching any state
            elif forced.get("empty_body") and opcode == OP_READ:
                status, rbody = 0, b""  # success without a body (nothing to report for this item)
            else:
                status, rbody = self._process(opcode, iid, bytes(body))
            spec = {"status": status, "body": rbody, "tid": tid, "control": 0x02}
            if forced.get("wrong_tid"):
                spec["tid"] = (tid + 7) & 0xFF
            if forced.get("bad_control"):
                spec["control"] = forced["bad_control"]
            rec["response"] = dict(spec)
            out += struct.pack("<BBBH", spec["control"], spec["tid"], spec["status"], len(spec["body"])) + spec["body"]
            idx += 1
        return "changed", self.seal_response(bytes(out))

    def seal_response(self, plaintext: bytes) -> bytes:
        sealed = C.seal(self.send_key, _nonce(self.send_ctr), plaintext, b"")
        self.sent.append({"ctr": self.send_ctr, "plaintext": plaintext, "sealed": sealed})
        self.send_ctr += 1
        return sealed

    def seal_event(self, items: list[tuple[int, bytes]]) -> bytes:
        """event payload: sequence of  xx | iid LE16 | len LE16 | TLV{01: value}"""
        pt = b""
        for iid, value in items:
            body = tlv8.encode([(1, value)])
            pt += struct.pack("<BHH", 0x00, iid, len(body)) + body
        sealed = C.seal(self.event_key, _nonce(self.event_ctr), pt, b"")
        self.event_ctr += 1
        return sealed

    def _process(self, opcode: int, iid: int, body: bytes) -> tuple[int, bytes]:
        if opcode == OP_DB:
            return 0, self.database()
        c = self.find(iid)
        if c is None:
            return ba.ST_INVALID_IID, b""
        if opcode == OP_READ:
            if c.type_hex == "00000050" and getattr(self, "pairings_reply", None) is not None:
                raw = getattr(self, "pairings_raw", None)  # C15: arbitrary bytes as the inner pairing TLV
                return 0, tlv8.encode([(1, self.pairings_reply if raw is None else raw)])
            if "pr" not in c.perms:
                return ba.ST_INVALID_REQ, b""
            return 0, tlv8.encode([(1, ba.pack_value(c.fmt, c.value))])
        if opcode == OP_WRITE:
            d = tlv8.to_dict(tlv8.decode(body, strict=False))
            if not tlv8.is_canonical(body):
                self.protocol_errors.append("write body TLV not canonical")
            if c.type_hex == "00000050":
                self.pairings_reply = tlv8.encode(self._pairings(tlv8.decode(d.get(1, b""), strict=False)))
                return 0, b""
            if "pw" not in c.perms:
                return ba.ST_INVALID_REQ, b""
            if 1 not in d:
                return ba.ST_INVALID_REQ, b""
            c.value = ba.unpack_value(c.fmt, d[1])
            self.writes_applied.append((iid, c.value))
            return 0, b""
        if opcode == OP_SUB:
            c.subscribed = True
            return 0, b""
        if opcode == OP_UNSUB:
            c.subscribed = False
            return 0, b""
        return ba.ST_UNSUPPORTED, b""

    def _pairings(self, items):
        d = tlv8.to_dict(items)
        method = d.get(hap.T_METHOD, b"\xff")[0]
        reply = [(hap.T_STATE, b"\x02")]
        if self.session_controller not in self.admins:
            reply.append((hap.T_ERROR, bytes([hap.ERR_AUTH])))
        elif method == 4:
            self.controllers.pop(d[hap.T_ID].decode(), None)
        elif method == 5:
            first = True
            for cid, ltpk in self.controllers.items():
                if not first:
                    reply.append((hap.T_SEP, b""))
                first = False
                reply += [(hap.T_ID, cid.encode()), (hap.T_PUBKEY, ltpk), (hap.T_PERM, b"\x01" if cid in self.admins else b"\x00")]
        if self.pairings_mut:
            reply = self.pairings_mut(method, reply)
        return reply
