"""Reference HAP-over-BLE accessory (GATT server side), written from the HAP specification.

Independent of aiohomekit.  Implements: the GATT layout (service instance id characteristics,
characteristic instance id descriptors), the HAP-BLE PDU procedure per characteristic (request
reassembly from fragments, response fragmentation by a seeded policy), per-fragment session
security (LE64 fragment counters, empty AAD), pairing over the Pair-Setup / Pair-Verify / Pairings
characteristics (with session resume and pairing-TLV fragmentation), characteristic / service
signature reads, characteristic read / write / timed write, characteristic configuration, protocol
configuration (broadcast key, global state number).  Keeps ground truth for the oracles.
"""

from __future__ import annotations

import struct

from . import crypto as C
from . import hap, tlv8

BASE = "-0000-1000-8000-0026BB765291"
SVC_INSTANCE_ID = "E604E95D-A759-4817-87D3-AA005083A0D1"
CHAR_IID_DESCRIPTOR = "DC46F0FE-81D2-4616-B5D9-6ABDD796939A"
SVC_PAIRING = "00000055" + BASE
SVC_PROTOCOL = "000000A2" + BASE
SVC_INFO = "0000003E" + BASE
CH_PAIR_SETUP = "0000004C" + BASE
CH_PAIR_VERIFY = "0000004E" + BASE
CH_PAIR_FEATURES = "0000004F" + BASE
CH_PAIRINGS = "00000050" + BASE
CH_SERVICE_SIGNATURE = "000000A5" + BASE
CH_VERSION = "00000037" + BASE
CH_NAME = "00000023" + BASE
CH_IDENTIFY = "00000014" + BASE

OP_CHAR_SIG, OP_WRITE, OP_READ, OP_TIMED_WRITE, OP_EXEC_WRITE, OP_SERV_SIG, OP_CHAR_CONFIG, OP_PROTO_CONFIG = 1, 2, 3, 4, 5, 6, 7, 8
ST_OK, ST_UNSUPPORTED, ST_MAX_PROC, ST_INSUFF_AUTHZ, ST_INVALID_IID, ST_INSUFF_AUTHN, ST_INVALID_REQ = 0, 1, 2, 3, 4, 5, 6

FORMAT_CODE = {"bool": 0x01, "uint8": 0x04, "uint16": 0x06, "uint32": 0x08, "uint64": 0x0A, "int": 0x10, "float": 0x14, "string": 0x19, "data": 0x1B, "tlv8": 0x1B}
UNIT_CODE = {None: 0x2700, "celsius": 0x272F, "arcdegrees": 0x2763, "percentage": 0x27AD, "lux": 0x2731, "seconds": 0x2703}
PROP_BITS = {"read": 0x0001, "write": 0x0002, "aa": 0x0004, "tw": 0x0008, "pr": 0x0010, "pw": 0x0020, "hd": 0x0040, "ev": 0x0080, "disconnected": 0x0100, "broadcast": 0x0200}


def pack_value(fmt: str, v) -> bytes:
    if fmt == "bool":
        return b"\x01" if v else b"\x00"
    if fmt == "uint8":
        return struct.pack("<B", v)
    if fmt == "uint16":
        return struct.pack("<H", v)
    if fmt == "uint32":
        return struct.pack("<I", v)
    if fmt == "uint64":
        return struct.pack("<Q", v)
    if fmt == "int":
        return struct.pack("<i", v)
    if fmt == "float":
        return struct.pack("<f", v)
    if fmt == "string":
        return v.encode("utf-8")
    return bytes.fromhex(v) if isinstance(v, str) else bytes(v)


def unpack_value(fmt: str, b: bytes):
    if fmt == "bool":
        return b[:1] != b"\x00"
    if fmt == "uint8":
        return struct.unpack("<B", b[:1])[0]
    if fmt == "uint16":
        return struct.unpack("<H", b[:2])[0]
    if fmt == "uint32":
        return struct.unpack("<I", b[:4])[0]
    if fmt == "uint64":
        return struct.unpack("<Q", b[:8])[0]
    if fmt == "int":
        return struct.unpack("<i", b[:4])[0]
    if fmt == "float":
        return struct.unpack("<f", b[:4])[0]
    if fmt == "string":
        return b.decode("utf-8")
    return b.hex()


def uuid_le(u: str) -> bytes:
    return bytes.fromhex(u.replace("-", ""))[::-1]


class GChar:
    def __init__(self, uuid: str, iid: int, fmt: str = "data", perms=("pr",), value=None, unit=None, minv=None, maxv=None, step=None,
                 description: str | None = None, gatt_props=("read", "write"), disconnected=False, broadcast=False) -> None:
        self.uuid = uuid.upper()
        self.iid = iid
        self.fmt = fmt
        self.perms = list(perms)
        self.value = value
        self.unit = unit
        self.minv, self.maxv, self.step = minv, maxv, step
        self.description = description
        self.gatt_props = list(gatt_props)
        self.disconnected = disconnected
        self.broadcast = broadcast
        self.service: GService | None = None
        self.handle = 0
        # per-characteristic HAP procedure state
        self.req_buf: bytearray | None = None
        self.req_expected = 0
        self.req_header: tuple | None = None
        self.resp_frags: list[bytes] = []
        self.timed: bytes | None = None
        self.broadcast_enabled = False
        self.notify_cb = None

    def properties_word(self) -> int:
        w = 0
        for p in self.perms:
            w |= {"pr": 0x10, "pw": 0x20, "ev": 0x80, "aa": 0x04, "tw": 0x08, "hd": 0x40}.get(p, 0)
        if self.disconnected:
            w |= 0x100
        if self.broadcast:
            w |= 0x200
        return w

    def signature(self) -> list[tuple[int, bytes]]:
        s = self.service
        items = [(0x04, uuid_le(self.uuid)), (0x07, struct.pack("<H", s.iid)), (0x06, uuid_le(s.uuid)), (0x0A, struct.pack("<H", self.properties_word()))]
        if self.description is not None:
            items.append((0x0B, self.description.encode("utf-8")))
        items.append((0x0C, struct.pack("<BBHBH", FORMAT_CODE[self.fmt], 0, UNIT_CODE.get(self.unit, 0x2700), 1, 0)))
        if self.minv is not None and self.maxv is not None:
            items.append((0x0D, pack_value(self.fmt, self.minv) + pack_value(self.fmt, self.maxv)))
        if self.step is not None:
            items.append((0x0E, pack_value(self.fmt, self.step)))
        return items

    def expected_dict(self) -> dict:
        """what a controller must learn from the signature (ground truth for C16)"""
        d = {"iid": self.iid, "type": self.uuid, "perms": [p for p in ("pr", "pw", "ev", "aa", "tw", "hd") if p in self.perms], "format": "data" if self.fmt == "tlv8" else self.fmt}
        if self.unit:
            d["unit"] = self.unit
        if self.minv is not None and self.maxv is not None and self.fmt not in ("bool", "string", "data", "tlv8"):
            d["minValue"], d["maxValue"] = unpack_value(self.fmt, pack_value(self.fmt, self.minv)), unpack_value(self.fmt, pack_value(self.fmt, self.maxv))
        if self.step is not None and self.fmt not in ("bool", "string", "data", "tlv8"):
            d["minStep"] = unpack_value(self.fmt, pack_value(self.fmt, self.step))
        if self.disconnected:
            d["disconnected_events"] = True
        if self.broadcast:
            d["broadcast_events"] = True
        return d


class GService:
    def __init__(self, uuid: str, iid: int, chars: list[GChar], linked: list[int] | None = None, primary=False, hidden=False, with_signature=False) -> None:
        self.uuid = uuid.upper()
        self.iid = iid
        self.chars = chars
        self.linked = linked or []
        self.primary = primary
        self.hidden = hidden
        self.with_signature = with_signature
        for c in chars:
            c.service = self

    def signature(self) -> list[tuple[int, bytes]]:
        props = (1 if self.primary else 0) | (2 if self.hidden else 0)
        items = [(0x0F, struct.pack("<H", props))]
        items.append((0x10, b"".join(struct.pack("<H", i) for i in self.linked)))
        return items


class FragPolicy:
    """how the accessory splits a response PDU into GATT reads"""

    def __init__(self, kind: str = "max", size: int = 512, chooser=None) -> None:
        self.kind = kind
        self.size = size
        self.chooser = chooser

    def split(self, header3: bytes, tid: int, body: bytes | None, frag_size: int) -> list[bytes]:
        """header3 = control|tid|status of the first fragment"""
        if body is None:
            return [header3]
        total = struct.pack("<H", len(body))
        size = max(6, min(frag_size, self.size))
        if self.kind == "header_only_first":
            first_n = 0
        elif self.kind == "tiny":
            first_n = 1
            size = 3
        elif self.kind == "random" and self.chooser is not None:
            first_n = self.chooser.nint("ble.frag.first", max(1, min(len(body), size - 5)) + 1)
        else:
            first_n = size - 5
        frags = [header3 + total + body[:first_n]]
        rest = body[first_n:]
        while rest:
            if self.kind == "random" and self.chooser is not None:
                n = 1 + self.chooser.nint("ble.frag.next", max(1, min(len(rest), size - 2)))
            elif self.kind in ("tiny", "header_only_first") and self.kind == "tiny":
                n = 1
            else:
                n = size - 2
            frags.append(bytes([0x80, tid]) + rest[:n])
            rest = rest[n:]
        return frags


class BleAccessory:
    def __init__(self, ident: hap.AccessoryIdentity, controllers: dict[str, bytes], services: list[GService], setup_code: str = "111-22-333",
                 eph=None, frag: FragPolicy | None = None, gsn: int = 1, config_num: int = 1) -> None:
        self.ident = ident
        self.controllers = dict(controllers)
        self.admins = set(controllers)
        self.services = services
        self.setup_code = setup_code
        self.eph = eph or (lambda what, n: C.H(what.encode())[:n])
        self.frag = frag or FragPolicy()
        self.gsn = gsn
        self.config_num = config_num
        self.adv_id = bytes.fromhex(ident.pairing_id.replace(":", ""))
        self.by_handle: dict[int, GChar] = {}
        self.svc_iid_handles: dict[int, GService] = {}
        self.desc_handles: dict[int, GChar] = {}
        h = 10
        for s in services:
            h += 1
            self.svc_iid_handles[h] = s
            s.iid_handle = h
            for c in s.chars:
                h += 1
                c.handle = h
                self.by_handle[h] = c
                h += 1
                c.desc_handle = h
                self.desc_handles[h] = c
        # session
        self.connected = False
        self.enc: bytes | None = None  # accessory -> controller key
        self.dec: bytes | None = None
        self.enc_ctr = 0
        self.dec_ctr = 0
        self.verify: hap.VerifyResponder | None = None
        self.setup: hap.SetupResponder | None = None
        self.sessions: dict[bytes, bytes] = {}
        self.session_controller: str | None = None
        self.broadcast_key: bytes | None = None
        # ground truth / logs
        self.requests: list[dict] = []  # every reassembled request PDU
        self.fragments_in: list[tuple[int, int]] = []  # (handle, fragment length as written)
        self.writes_applied: list[tuple[int, object]] = []
        self.writes_rejected: list[tuple[int, int]] = []
        self.nonces_seen_dec: list[int] = []
        self.protocol_errors: list[str] = []
        self.verify_mut = None
        self.setup_mut = None
        self.pairings_mut = None
        self.status_plan: dict = {}  # (op, iid) -> PDU status to answer with
        self.resp_mut = None  # callable(dict) -> dict  (wrong tid, missing continuation flag ...)
        self.tlv_frag_size: int | None = None  # fragment pairing TLV replies into FragmentData pieces of this size
        self.pending_tlv_frags: list[bytes] = []
        self.frag_size = 512
        self.on_secure = None
        self.echo_iids: set[int] = set()
        self.echo_log: list = []
        self.echo_reply = None
        self.echo_status = ST_OK

    # ---- link ---------------------------------------------------------------------------
    def on_connect(self) -> None:
        self.connected = True
        self.enc = self.dec = None
        self.enc_ctr = self.dec_ctr = 0
        self.session_controller = None
        for c in self.by_handle.values():
            c.req_buf = None
            c.resp_frags = []
            c.timed = None

    def on_disconnect(self) -> None:
        self.connected = False
        self.enc = self.dec = None

    # ---- plain GATT reads -------------------------------------------------------------------
    def read_service_iid(self, handle: int) -> bytes:
        return struct.pack("<H", self.svc_iid_handles[handle].iid)

    def read_descriptor(self, handle: int) -> bytes:
        return struct.pack("<H", self.desc_handles[handle].iid)

    # ---- HAP PDU procedure ------------------------------------------------------------------------
    def gatt_write(self, handle: int, data: bytes) -> None:
        c = self.by_handle[handle]
        self.fragments_in.append((handle, len(data)))
        secure = self.dec is not None
        if secure:
            pt = C.unseal(self.dec, struct.pack("<4xQ", self.dec_ctr), bytes(data), b"")
            if pt is None:
                self.protocol_errors.append(f"fragment on handle {handle} failed authentication under counter {self.dec_ctr}")
                raise ValueError("decrypt failed")
            self.nonces_seen_dec.append(self.dec_ctr)
            self.dec_ctr += 1
            data = pt
        data = bytes(data)
        if c.req_buf is None:
            if len(data) < 5:
                self.protocol_errors.append(f"first fragment shorter than the 5-byte header: {data.hex()}")
                raise ValueError("short PDU")
            control, opcode, tid, iid = struct.unpack("<BBBH", data[:5])
            if control & 0x80:
                self.protocol_errors.append("continuation fragment without a request in progress")
                raise ValueError("unexpected continuation")
            c.req_header = (control, opcode, tid, iid)
            if len(data) == 5:
                c.req_buf, c.req_expected, c.req_has_body = bytearray(), 0, False
            else:
                if len(data) < 7:
                    self.protocol_errors.append("header with truncated body length")
                    raise ValueError("short PDU")
                c.req_expected = struct.unpack("<H", data[5:7])[0]
                c.req_buf = bytearray(data[7:])
                c.req_has_body = True
        else:
            control, tid = data[0], data[1]
            if not control & 0x80:
                self.protocol_errors.append("continuation fragment without continuation flag")
                raise ValueError("bad continuation")
            if tid != c.req_header[2]:
                self.protocol_errors.append("continuation fragment with another transaction id")
                raise ValueError("bad tid")
            c.req_buf += data[2:]
        if len(c.req_buf) > c.req_expected:
            self.protocol_errors.append(f"request body longer ({len(c.req_buf)}) than announced ({c.req_expected})")
            raise ValueError("too long")
        if len(c.req_buf) == c.req_expected:
            control, opcode, tid, iid = c.req_header
            body = bytes(c.req_buf) if c.req_has_body else None
            c.req_buf = None
            self._process(c, opcode, tid, iid, body, secure)

    def gatt_read(self, handle: int) -> bytes:
        c = self.by_handle[handle]
        if not c.resp_frags:
            self.protocol_errors.append(f"read on handle {handle} without a pending response")
            return b""
        frag = c.resp_frags.pop(0)
        out = frag
        if self.enc is not None and getattr(c, "resp_secure", False):
            out = C.seal(self.enc, struct.pack("<4xQ", self.enc_ctr), frag, b"")
            self.enc_ctr += 1
        if not c.resp_frags:
            self.activate_pending_keys()
        return out

    def _respond(self, c: GChar, tid: int, status: int, body: bytes | None, secure: bool) -> None:
        spec = {"tid": tid, "status": status, "body": body, "control": 0x02}
        if self.resp_mut:
            spec = self.resp_mut(spec)
        header3 = bytes([spec["control"], spec["tid"], spec["status"]])
        frags = self.frag.split(header3, spec["tid"], spec["body"], self.frag_size - (16 if secure else 0))
        if spec.get("drop_continuation_flag") and len(frags) > 1:
            frags[1] = bytes([0x00]) + frags[1][1:]
        if spec.get("wrong_continuation_tid") and len(frags) > 1:
            frags[1] = bytes([0x80, (spec["tid"] + 1) & 0xFF]) + frags[1][2:]
        if spec.get("announce_delta") and spec["body"] is not None:
            f0 = frags[0]
            frags[0] = f0[:3] + struct.pack("<H", max(0, len(spec["body"]) + spec["announce_delta"])) + f0[5:]
        c.resp_frags = frags
        c.resp_secure = secure
        self.last_response = {"handle": c.handle, "iid": c.iid, "status": status, "body": body, "frags": [len(f) for f in frags], "spec": spec}

    # ---- request processing ---------------------------------------------------------------------------
    def _process(self, c: GChar, opcode: int, tid: int, iid: int, body: bytes | None, secure: bool) -> None:
        rec = {"handle": c.handle, "opcode": opcode, "tid": tid, "iid": iid, "body": body, "secure": secure}
        self.requests.append(rec)
        if iid in self.echo_iids and opcode == OP_WRITE and iid == c.iid:
            # test endpoint: arbitrary (non-TLV) body, answered with a body chosen by echo_reply
            self.echo_log.append(body)
            reply = self.echo_reply(body) if self.echo_reply else body
            return self._respond(c, tid, self.echo_status, reply, secure)
        forced = self.status_plan.get((opcode, iid))
        if forced:
            self._respond(c, tid, forced, None, secure)
            if opcode == OP_WRITE:
                self.writes_rejected.append((iid, forced))
            return
        try:
            if opcode == OP_CHAR_SIG:
                if iid != c.iid:
                    return self._respond(c, tid, ST_INVALID_IID, None, secure)
                return self._respond(c, tid, ST_OK, tlv8.encode(c.signature()), secure)
            if opcode == OP_SERV_SIG:
                svc = c.service
                if iid != svc.iid:
                    return self._respond(c, tid, ST_INVALID_IID, None, secure)
                return self._respond(c, tid, ST_OK, tlv8.encode(svc.signature()), secure)
            if iid != c.iid and opcode not in (OP_PROTO_CONFIG,):
                return self._respond(c, tid, ST_INVALID_IID, None, secure)
            if c.uuid in (CH_PAIR_SETUP, CH_PAIR_VERIFY, CH_PAIRINGS) and opcode == OP_WRITE:
                return self._pairing_write(c, tid, body, secure)
            if c.uuid == CH_PAIR_FEATURES and opcode == OP_READ:
                return self._respond(c, tid, ST_OK, tlv8.encode([(1, b"\x00")]), secure)
            if not secure:
                return self._respond(c, tid, ST_INSUFF_AUTHN, None, secure)
            if opcode == OP_READ:
                if "pr" not in c.perms:
                    return self._respond(c, tid, ST_INVALID_REQ, None, secure)
                return self._respond(c, tid, ST_OK, tlv8.encode([(1, pack_value(c.fmt, c.value))]), secure)
            if opcode == OP_WRITE:
                return self._char_write(c, tid, body, secure)
            if opcode == OP_TIMED_WRITE:
                c.timed = body
                return self._respond(c, tid, ST_OK, None, secure)
            if opcode == OP_EXEC_WRITE:
                if c.timed is None:
                    return self._respond(c, tid, ST_INVALID_REQ, None, secure)
                tb, c.timed = c.timed, None
                # both forms seen in the wild: plain TLV body, or a LE16 length followed by the TLV body
                try:
                    items = tlv8.decode(tb)
                    self.timed_write_form = "plain"
                except tlv8.TLVError:
                    items = tlv8.decode(tb[2:])
                    self.timed_write_form = "length-prefixed"
                if tlv8.to_dict(items).get(1) is None:
                    items = tlv8.decode(tb[2:])
                    self.timed_write_form = "length-prefixed"
                return self._char_write(c, tid, tlv8.encode(items), secure)
            if opcode == OP_CHAR_CONFIG:
                d = tlv8.to_dict(tlv8.decode(body or b""))
                if 1 in d:
                    c.broadcast_enabled = bool(struct.unpack("<H", d[1][:2])[0] & 1)
                out = [(1, struct.pack("<H", 1 if c.broadcast_enabled else 0))]
                return self._respond(c, tid, ST_OK, tlv8.encode(out), secure)
            if opcode == OP_PROTO_CONFIG:
                d = tlv8.to_dict(tlv8.decode(body or b""))
                out = []
                if 1 in d:
                    ltpk = self.controllers.get(self.session_controller)
                    self.broadcast_key = C.hkdf(self.session_shared, ltpk, b"Broadcast-Encryption-Key")
                if 2 in d:
                    out = [(1, struct.pack("<H", self.gsn)), (2, bytes([self.config_num & 0xFF])), (3, self.adv_id)]
                    if self.broadcast_key:
                        out.append((4, self.broadcast_key))
                return self._respond(c, tid, ST_OK, tlv8.encode(out) if out else None, secure)
            return self._respond(c, tid, ST_UNSUPPORTED, None, secure)
        except tlv8.TLVError as e:
            self.protocol_errors.append(f"request body for opcode {opcode} is not canonical TLV8: {e}")
            return self._respond(c, tid, ST_INVALID_REQ, None, secure)

    def _char_write(self, c: GChar, tid: int, body: bytes | None, secure: bool) -> None:
        if not tlv8.is_canonical(body or b""):
            self.protocol_errors.append(f"write body (BleRequest, {len(body or b'')} bytes) is not the canonical TLV8 encoding of its fields")
        d = tlv8.to_dict(tlv8.decode(body or b"", strict=False))
        if "pw" not in c.perms:
            self.writes_rejected.append((c.iid, ST_INVALID_REQ))
            return self._respond(c, tid, ST_INVALID_REQ, None, secure)
        if 1 not in d:
            return self._respond(c, tid, ST_INVALID_REQ, None, secure)
        c.value = unpack_value(c.fmt, d[1])
        self.writes_applied.append((c.iid, c.value))
        if d.get(9) == b"\x01":
            return self._respond(c, tid, ST_OK, tlv8.encode([(1, d[1])]), secure)
        return self._respond(c, tid, ST_OK, None, secure)

    # ---- pairing characteristics ------------------------------------------------------------------------
    def _pairing_write(self, c: GChar, tid: int, body: bytes | None, secure: bool) -> None:
        outer = tlv8.to_dict(tlv8.decode(body or b""))
        if not tlv8.is_canonical(body or b""):
            self.protocol_errors.append("pairing write body is not canonical TLV8")
        value = outer.get(1, b"")
        self.last_pairing_request_raw = value
        # acknowledgement of a FragmentData piece: 0C 00
        if value == bytes([hap.T_FRAGDATA, 0]) and self.pending_tlv_frags:
            piece = self.pending_tlv_frags.pop(0)
            last = not self.pending_tlv_frags
            reply = tlv8.encode([(hap.T_FRAGLAST if last else hap.T_FRAGDATA, piece)])
            return self._respond(c, tid, ST_OK, tlv8.encode([(1, reply)]), secure)
        try:
            items = tlv8.decode(value)
        except tlv8.TLVError as e:
            self.protocol_errors.append(f"pairing TLV not canonical: {e}")
            items = tlv8.decode(value, strict=False)
        self.pairing_requests = getattr(self, "pairing_requests", [])
        self.pairing_requests.append(items)
        echo = getattr(self, "pairing_echo", None)
        if echo is not None:  # C15: arbitrary item lists through the pairing channel
            reply = echo(items, value)
        elif c.uuid == CH_PAIR_VERIFY:
            d = tlv8.to_dict(items)
            if d.get(hap.T_STATE) == b"\x01":
                self.verify = hap.VerifyResponder(self.ident, self.controllers, self.eph("verify-eph", 32), mut=self.verify_mut() if self.verify_mut else None,
                                                  sessions=self.sessions, new_session_id=self.eph("resume-sid", 8))
            if self.verify is None:
                reply = [(hap.T_STATE, b"\x04"), (hap.T_ERROR, b"\x01")]
            else:
                reply = self.verify.handle(items)
                if self.verify.state == 4 and self.verify.shared is not None:
                    self._start_session()
        elif c.uuid == CH_PAIR_SETUP:
            d = tlv8.to_dict(items)
            if d.get(hap.T_STATE) == b"\x01":
                self.setup = hap.SetupResponder(self.ident, self.setup_code, self.eph("srp-salt", 16), int.from_bytes(self.eph("srp-b", 32), "big"),
                                                mut=self.setup_mut() if self.setup_mut else None)
            reply = self.setup.handle(items) if self.setup else [(hap.T_STATE, b"\x02"), (hap.T_ERROR, b"\x01")]
            if self.setup and self.setup.m5_ok and self.setup.paired_controller:
                self.controllers[self.setup.paired_controller[0]] = self.setup.paired_controller[1]
                self.admins.add(self.setup.paired_controller[0])
        else:
            reply = self._pairings(items, secure)
        self.last_pairing_reply = reply
        rb = bytes(reply) if isinstance(reply, (bytes, bytearray)) else tlv8.encode(reply)
        if self.tlv_frag_size and len(rb) > self.tlv_frag_size:
            pieces = [rb[i : i + self.tlv_frag_size] for i in range(0, len(rb), self.tlv_frag_size)]
            ff = getattr(self, "tlv_frag_fault", None)  # in-flight faults on the TLV-level fragments
            if ff and ff["kind"] == "drop" and len(pieces) > 1:
                del pieces[ff["idx"] % len(pieces)]
            elif ff and ff["kind"] == "dup":
                k = ff["idx"] % len(pieces)
                pieces.insert(k, pieces[k])
            elif ff and ff["kind"] == "endless":
                pieces = pieces + [b"\x00"] * 64
            elif ff and ff["kind"] == "empty_last":  # a `while len(rest) >= size` chunker: the final piece may be empty
                pieces = pieces + [b""]
            elif ff and ff["kind"] == "empty_middle":
                pieces.insert(1 + ff["idx"] % max(1, len(pieces) - 1), b"")
            first = pieces.pop(0)
            self.pending_tlv_frags = pieces
            self.tlv_pieces_sent = [first] + list(pieces)
            rb = tlv8.encode([(hap.T_FRAGDATA, first)]) if pieces else tlv8.encode([(hap.T_FRAGLAST, first)])
        return self._respond(c, tid, ST_OK, tlv8.encode([(1, rb)]), secure)

    def _start_session(self) -> None:
        v = self.verify
        a2c, c2a = v.control_keys()
        # keys become active for the NEXT PDU exchange (the M4 / resume M2 reply itself is sent in the clear)
        self._pending_keys = (a2c, c2a)
        self.session_shared = v.shared
        self.session_controller = v.verified_controller or self.session_controller or next(iter(self.controllers), None)
        self.sessions[v.session_id() if not v.resumed else v.new_session_id] = v.shared
        if v.resumed:
            # full-verify session id is derived; a resumed session keeps the new id the accessory chose
            pass

    def activate_pending_keys(self) -> None:
        pk = getattr(self, "_pending_keys", None)
        if pk:
            self.enc, self.dec = pk
            self.enc_ctr = self.dec_ctr = 0
            self._pending_keys = None
            if self.on_secure:
                self.on_secure()

    def _pairings(self, items, secure: bool):
        d = tlv8.to_dict(items)
        method = d.get(hap.T_METHOD, b"\xff")[0]
        reply = [(hap.T_STATE, b"\x02")]
        if not secure or self.session_controller not in self.admins:
            reply.append((hap.T_ERROR, bytes([hap.ERR_AUTH])))
        elif method == 3:
            self.controllers[d[hap.T_ID].decode()] = d[hap.T_PUBKEY]
        elif method == 4:
            self.controllers.pop(d[hap.T_ID].decode(), None)
        elif method == 5:
            first = True
            for cid, ltpk in self.controllers.items():
                if not first:
                    reply.append((hap.T_SEP, b""))
                first = False
                reply += [(hap.T_ID, cid.encode()), (hap.T_PUBKEY, ltpk), (hap.T_PERM, b"\x01" if cid in self.admins else b"\x00")]
        if self.pairings_mut:
            reply = self.pairings_mut(method, reply)
        return reply

    # ---- helpers for worlds -----------------------------------------------------------------------------
    def find_char(self, iid: int) -> GChar | None:
        for c in self.by_handle.values():
            if c.iid == iid:
                return c
        return None


def standard_services(extra: list[GService] | None = None, name: str = "SimBLE") -> list[GService]:
    """Accessory information + protocol information (with service signature) + pairing service."""
    info = GService(SVC_INFO, 1, [
        GChar(CH_IDENTIFY, 2, "bool", perms=("pw",)),
        GChar(CH_NAME, 3, "string", perms=("pr",), value=name),
        GChar("00000020" + BASE, 4, "string", perms=("pr",), value="Sim Inc"),
        GChar("00000021" + BASE, 5, "string", perms=("pr",), value="Model X"),
        GChar("00000030" + BASE, 6, "string", perms=("pr",), value="SN1"),
        GChar("00000052" + BASE, 7, "string", perms=("pr",), value="1.0.0"),
    ])
    proto = GService(SVC_PROTOCOL, 16, [
        GChar(CH_SERVICE_SIGNATURE, 17, "data", perms=("pr",), value=b""),
        GChar(CH_VERSION, 18, "string", perms=("pr",), value="2.2.0"),
    ], with_signature=True)
    pairing = GService(SVC_PAIRING, 32, [
        GChar(CH_PAIR_SETUP, 33, "tlv8", perms=("read", "write")),
        GChar(CH_PAIR_VERIFY, 34, "tlv8", perms=("read", "write")),
        GChar(CH_PAIR_FEATURES, 35, "uint8", perms=("read",), value=0),
        GChar(CH_PAIRINGS, 36, "tlv8", perms=("pr", "pw")),
    ])
    return [info, proto] + (extra or []) + [pairing]
