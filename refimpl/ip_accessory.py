"""Reference HAP-over-IP accessory (HTTP + secure session layer), written from the spec.

Independent of aiohomekit.  Keeps ground truth: sessions, per-session event registrations,
every request it parsed (with a serial number), every response it produced for which
request, every write it applied.  The world injects behaviour through the `hooks` object:

  hooks.out(session, data: bytes, kind: str, serial: int|None)   transport for outgoing bytes
  hooks.verify_mut(session) -> dict|None                          dishonest pair-verify
  hooks.setup_mut(session) -> dict|None                           dishonest pair-setup
  hooks.pairings_reply(session, method, honest_items) -> items
  hooks.http_override(session, req, serial) -> bytes|None|"silent" replace a response
  hooks.write_status(aid, iid, value) -> int                      per-characteristic outcome
  hooks.read_status(aid, iid) -> int
  hooks.mutate_char_reply(kind, code, obj) -> (code, obj)          malformed multi-status replies
  hooks.frame_sizes(session) -> iterator of plaintext frame sizes
  hooks.eph(session, what, n) -> bytes                             randomness
"""

from __future__ import annotations

import json
from urllib.parse import parse_qs, urlsplit

from . import crypto as C
from . import hap, http, tlv8


class DefaultHooks:
    def out(self, session, data, kind, serial):  # pragma: no cover - replaced by worlds
        session.conn.server_send(data)

    def verify_mut(self, session):
        return None

    def setup_mut(self, session):
        return None

    def pairings_reply(self, session, method, items):
        return items

    def http_override(self, session, req, serial):
        return None

    def write_status(self, aid, iid, value):
        return 0

    def read_status(self, aid, iid):
        return 0

    def mutate_char_reply(self, kind, code, obj):
        return code, obj

    def frame_sizes(self, session):
        while True:
            yield 1024

    def eph(self, session, what, n):
        return C.H(f"{session.no}|{what}".encode())[:n]


class IpAccessory:
    def __init__(self, ident: hap.AccessoryIdentity, controllers: dict[str, bytes], db: list[dict],
                 setup_code: str = "111-22-333", hooks=None) -> None:
        self.ident = ident
        self.controllers = dict(controllers)  # ios id -> ltpk
        self.admins = set(controllers)
        self.db = db
        self.setup_code = setup_code
        self.hooks = hooks or DefaultHooks()
        self.values: dict[tuple[int, int], object] = {}
        self.perms: dict[tuple[int, int], list[str]] = {}
        for a in db:
            for s in a["services"]:
                for c in s["characteristics"]:
                    self.values[(a["aid"], c["iid"])] = c.get("value")
                    self.perms[(a["aid"], c["iid"])] = c.get("perms", [])
        self.sessions: list[IpSession] = []
        self.serial = 0
        self.request_log: list[dict] = []
        self.writes_applied: list[tuple] = []
        self.writes_rejected: list[tuple] = []
        self.tag_reads = False
        self.resume_store: dict[bytes, bytes] = {}

    def accept(self, conn) -> "IpSession":
        s = IpSession(self, conn, len(self.sessions))
        self.sessions.append(s)
        return s

    def open_sessions(self) -> list["IpSession"]:
        return [s for s in self.sessions if not s.closed]


class IpSession:
    def __init__(self, acc: IpAccessory, conn, no: int) -> None:
        self.acc = acc
        self.conn = conn
        self.no = no
        self.closed = False
        self.secure = False
        self.parser = http.RequestParser()
        self.enc: C.FrameCodec | None = None
        self.dec: C.FrameCodec | None = None
        self.verify: hap.VerifyResponder | None = None
        self.setup: hap.SetupResponder | None = None
        self.subscriptions: set[tuple[int, int]] = set()
        self.ev_asked: set[tuple[int, int]] = set()
        self.controller: str | None = None
        self.plain_requests: list[bytes] = []  # raw request bytes as decoded by this side
        self.c2a_frames: list[int] = []  # plaintext length of each received frame
        self.events_sent: list[dict] = []
        self.error: str | None = None
        self.verified_at: float | None = None
        self.became_secure_after_req = -1

    # ---- inbound ----------------------------------------------------------------------
    def on_data(self, data: bytes) -> None:
        if self.closed:
            return
        try:
            if self.secure:
                chunks = self.dec.feed(data)
                self.c2a_frames.extend(len(c) for c in chunks)
                plain = b"".join(chunks)
            else:
                plain = data
            reqs = self.parser.feed(plain)
        except ValueError as e:
            self.error = str(e)
            self.conn.server_close("fin")
            return
        for r in reqs:
            self.plain_requests.append(r.raw)
            self._handle(r)
            if self.closed:
                break

    def on_close(self) -> None:
        self.closed = True

    # ---- outbound -----------------------------------------------------------------------
    def _out(self, plain: bytes, kind: str, serial) -> None:
        if self.secure and kind != "verify-final":
            frames = self.enc.seal_stream(plain, self.acc.hooks.frame_sizes(self))
            data = b"".join(frames)
        else:
            data = plain
        self.acc.hooks.out(self, data, kind, serial)

    def send_event(self, chars: list[tuple[int, int, object]], raw_body: bytes | None = None) -> None:
        body = raw_body if raw_body is not None else http.compact_json(
            {"characteristics": [{"aid": a, "iid": i, "value": v} for a, i, v in chars]})
        self.events_sent.append({"chars": chars, "raw": raw_body})
        self._out(http.event(body), "event", None)

    # ---- request handling ---------------------------------------------------------------------
    def _handle(self, r: http.Request) -> None:
        acc = self.acc
        acc.serial += 1
        serial = acc.serial
        path = urlsplit(r.target).path
        entry = {"serial": serial, "session": self.no, "method": r.method, "target": r.target, "body": r.body,
                 "secure": self.secure, "response": None}
        acc.request_log.append(entry)
        ov = acc.hooks.http_override(self, r, serial)
        if ov == "silent":
            entry["response"] = "silent"
            return
        if isinstance(ov, (bytes, bytearray)):
            entry["response"] = bytes(ov)
            self._out(bytes(ov), "response", serial)
            return
        kind = "response"
        if path == "/pair-verify" and r.method == "POST":
            resp, kind = self._pair_verify(r)
        elif path == "/pair-setup" and r.method == "POST":
            resp = self._pair_setup(r)
        elif not self.secure and path == "/identify":
            resp = http.response(204) if not acc.controllers else http.response(400, http.compact_json({"status": -70401}))
        elif not self.secure:
            resp = http.response(470, http.compact_json({"status": -70411}))
        elif path == "/accessories" and r.method == "GET":
            resp = http.response(200, http.compact_json({"accessories": self._db_json(serial)}))
        elif path == "/characteristics" and r.method == "GET":
            resp = self._get_chars(r, serial)
        elif path == "/characteristics" and r.method == "PUT":
            resp = self._put_chars(r, serial)
        elif path == "/pairings" and r.method == "POST":
            resp = self._pairings(r)
        elif path == "/resource":
            resp = http.response(200, b"\xff\xd8jpeg", "image/jpeg")
        else:
            resp = http.response(404, http.compact_json({"status": -70409}))
        entry["response"] = resp
        self._out(resp, kind, serial)
        if kind == "verify-final" and self.verify is not None and self.verify.state == 4:
            a2c, c2a = self.verify.control_keys()
            self.enc, self.dec = C.FrameCodec(a2c), C.FrameCodec(c2a)
            self.secure = True
            self.controller = self.verify.verified_controller
            self.became_secure_after_req = serial
            acc.resume_store[self.verify.session_id()] = self.verify.shared

    def _tlv_response(self, items) -> bytes:
        return http.response(200, tlv8.encode(items), "application/pairing+tlv8")

    def _pair_verify(self, r):
        acc = self.acc
        try:
            items = tlv8.decode(r.body)
        except tlv8.TLVError:
            return http.response(400), "response"
        d = tlv8.to_dict(items)
        if d.get(hap.T_STATE) == b"\x01":
            self.verify = hap.VerifyResponder(
                acc.ident, acc.controllers, acc.hooks.eph(self, "verify-eph", 32),
                mut=acc.hooks.verify_mut(self), sessions=acc.resume_store,
                new_session_id=acc.hooks.eph(self, "resume-sid", 8))
        if self.verify is None:
            return self._tlv_response([(hap.T_STATE, b"\x04"), (hap.T_ERROR, b"\x01")]), "response"
        reply = self.verify.handle(items)
        final = d.get(hap.T_STATE) == b"\x03"
        return self._tlv_response(reply), ("verify-final" if final else "response")

    def _pair_setup(self, r):
        acc = self.acc
        try:
            items = tlv8.decode(r.body)
        except tlv8.TLVError:
            return http.response(400)
        d = tlv8.to_dict(items)
        if d.get(hap.T_STATE) == b"\x01":
            if acc.controllers:
                return self._tlv_response([(hap.T_STATE, b"\x02"), (hap.T_ERROR, bytes([hap.ERR_UNAVAILABLE]))])
            self.setup = hap.SetupResponder(
                acc.ident, acc.setup_code, acc.hooks.eph(self, "srp-salt", 16),
                int.from_bytes(acc.hooks.eph(self, "srp-b", 32), "big"), mut=acc.hooks.setup_mut(self))
        if self.setup is None:
            return self._tlv_response([(hap.T_STATE, b"\x02"), (hap.T_ERROR, b"\x01")])
        reply = self.setup.handle(items)
        if self.setup.m5_ok and self.setup.paired_controller:
            cid, ltpk = self.setup.paired_controller
            acc.controllers[cid] = ltpk
            acc.admins.add(cid)
        return self._tlv_response(reply)

    def _pairings(self, r):
        acc = self.acc
        items = tlv8.decode(r.body, strict=False)
        d = tlv8.to_dict(items)
        method = d.get(hap.T_METHOD, b"\xff")[0]
        reply = [(hap.T_STATE, b"\x02")]
        if self.controller not in acc.admins:
            reply.append((hap.T_ERROR, bytes([hap.ERR_AUTH])))
        elif method == 3:  # add
            acc.controllers[d[hap.T_ID].decode()] = d[hap.T_PUBKEY]
            if d.get(hap.T_PERM) == b"\x01":
                acc.admins.add(d[hap.T_ID].decode())
        elif method == 4:  # remove
            acc.controllers.pop(d[hap.T_ID].decode(), None)
            acc.admins.discard(d[hap.T_ID].decode())
        elif method == 5:  # list
            first = True
            for cid, ltpk in acc.controllers.items():
                if not first:
                    reply.append((hap.T_SEP, b""))
                first = False
                reply += [(hap.T_ID, cid.encode()), (hap.T_PUBKEY, ltpk), (hap.T_PERM, b"\x01" if cid in acc.admins else b"\x00")]
        reply = acc.hooks.pairings_reply(self, method, reply)
        return self._tlv_response(reply)

    def _db_json(self, serial):
        out = json.loads(json.dumps(self.acc.db))
        for a in out:
            for s in a["services"]:
                for c in s["characteristics"]:
                    if "pr" in c.get("perms", []):
                        c["value"] = self.acc.values.get((a["aid"], c["iid"]))
        return out

    def _get_chars(self, r, serial):
        acc = self.acc
        q = parse_qs(urlsplit(r.target).query)
        ids = q.get("id", [""])[0]
        entries = []
        any_err = False
        for part in ids.split(","):
            try:
                aid_s, iid_s = part.split(".")
                aid, iid = int(aid_s), int(iid_s)
            except ValueError:
                return http.response(400, http.compact_json({"status": -70410}))
            st = acc.hooks.read_status(aid, iid)
            if (aid, iid) not in acc.values:
                st = st or -70409
            elif "pr" not in acc.perms[(aid, iid)]:
                st = st or -70405
            if st:
                any_err = True
                entries.append({"aid": aid, "iid": iid, "status": st})
            else:
                v = serial * 1000 + iid if acc.tag_reads else acc.values[(aid, iid)]
                entries.append({"aid": aid, "iid": iid, "value": v})
        if any_err:
            for e in entries:
                e.setdefault("status", 0)
        code, obj = acc.hooks.mutate_char_reply("read", 207 if any_err else 200, {"characteristics": entries})
        return http.response(code, http.compact_json(obj))

    def _put_chars(self, r, serial):
        acc = self.acc
        try:
            body = json.loads(r.body.decode("utf-8"))
            items = body["characteristics"]
        except Exception:  # noqa: BLE001
            return http.response(400, http.compact_json({"status": -70410}))
        results = []
        any_err = False
        for it in items:
            aid, iid = it.get("aid"), it.get("iid")
            st = 0
            if (aid, iid) not in acc.values:
                st = -70409
            elif "ev" in it:
                if it["ev"]:
                    self.ev_asked.add((aid, iid))  # asked for events on this connection, whatever the answer
                if "ev" not in acc.perms[(aid, iid)]:
                    st = -70406
                else:
                    st = acc.hooks.write_status(aid, iid, ("ev", it["ev"]))
                    if st == 0:
                        (self.subscriptions.add if it["ev"] else self.subscriptions.discard)((aid, iid))
            if "value" in it and st == 0:
                if "pw" not in acc.perms[(aid, iid)]:
                    st = -70404
                else:
                    st = acc.hooks.write_status(aid, iid, it["value"])
                if st == 0:
                    acc.values[(aid, iid)] = it["value"]
                    acc.writes_applied.append((serial, aid, iid, it["value"]))
                else:
                    acc.writes_rejected.append((serial, aid, iid, it["value"], st))
            any_err = any_err or st != 0
            results.append({"aid": aid, "iid": iid, "status": st})
        code, obj = acc.hooks.mutate_char_reply("write", 207 if any_err else 204, {"characteristics": results})
        if code == 204:
            return http.response(204)
        if obj is None or obj == "nolength":
            # an error reply without a body (Content-Length: 0, or no framing header at all)
            return http.response(code, b"", omit_length=(obj == "nolength"))
        return http.response(code, http.compact_json(obj))
