"""Transport-independent accessory side of HAP pairing, written from the specification.

VerifyResponder / SetupResponder turn request TLV item lists into reply item lists and keep
the ground truth (what was proven to whom, which keys resulted).  A `mut` dict lets the
fault injector produce dishonest replies; mut=None is a conformant accessory.
All randomness is passed in by the caller.
"""

from __future__ import annotations

from . import crypto as C
from . import tlv8

# pairing TLV types
T_METHOD, T_ID, T_SALT, T_PUBKEY, T_PROOF, T_ENC, T_STATE, T_ERROR = 0, 1, 2, 3, 4, 5, 6, 7
T_RETRY, T_CERT, T_SIG, T_PERM, T_FRAGDATA, T_FRAGLAST, T_SESSIONID, T_SEP = 8, 9, 10, 11, 12, 13, 14, 255

ERR_UNKNOWN, ERR_AUTH, ERR_BACKOFF, ERR_MAXPEERS, ERR_MAXTRIES, ERR_UNAVAILABLE, ERR_BUSY = 1, 2, 3, 4, 5, 6, 7


class AccessoryIdentity:
    def __init__(self, pairing_id: str, ltsk: bytes) -> None:
        self.pairing_id = pairing_id
        self.ltsk = ltsk
        self.ltpk = C.ed_pub(ltsk)


def flip_bit(b: bytes, bit: int) -> bytes:
    ba = bytearray(b)
    if not ba:
        return b
    bit %= len(ba) * 8
    ba[bit // 8] ^= 1 << (bit % 8)
    return bytes(ba)


def xor_byte(b: bytes, off: int, x: int) -> bytes:
    ba = bytearray(b)
    if not ba:
        return b
    ba[off % len(ba)] ^= (x % 255) + 1
    return bytes(ba)


def mutate_items(items: list[tuple[int, bytes]], mut: dict | None) -> list[tuple[int, bytes]]:
    """Generic outer-message mutations (field level)."""
    if not mut:
        return items
    k = mut.get("kind")
    f = mut.get("field")
    out = list(items)
    idx = [i for i, (t, _) in enumerate(out) if t == f]
    if k == "bitflip" and idx:
        i = idx[0]
        out[i] = (f, flip_bit(out[i][1], mut["bit"]))
    elif k == "byte" and idx:
        i = idx[0]
        out[i] = (f, xor_byte(out[i][1], mut["off"], mut["x"]))
    elif k == "drop" and idx:
        del out[idx[0]]
    elif k == "dup" and idx:
        out.insert(idx[0] + 1, (T_SEP, b""))
        out.insert(idx[0] + 2, out[idx[0]])
    elif k == "reorder":
        out = out[mut.get("rot", 1) % len(out) :] + out[: mut.get("rot", 1) % len(out)]
    elif k == "setlen" and idx:
        i = idx[0]
        n = mut["n"]
        v = out[i][1]
        out[i] = (f, (v + bytes(64))[:n])
    return out


class VerifyResponder:
    """Accessory side of pair-verify (full and resume)."""

    def __init__(self, ident: AccessoryIdentity, controllers: dict[str, bytes], eph_priv: bytes,
                 mut: dict | None = None, sessions: dict | None = None, new_session_id: bytes = b"") -> None:
        self.ident = ident
        self.controllers = controllers  # ios pairing id -> ltpk
        self.eph_priv = eph_priv
        self.mut = mut or {}
        self.sessions = sessions if sessions is not None else {}  # session id -> shared secret (resume)
        self.new_session_id = new_session_id
        self.state = 0
        self.shared: bytes | None = None
        self.verified_controller: str | None = None
        self.ios_pk: bytes | None = None
        self.acc_pk: bytes | None = None
        self.resumed = False
        self.m3_accept: bool | None = None  # did the controller's proof verify
        self.m3_reason = ""
        self.sent_m2: list | None = None

    # -- keys ------------------------------------------------------------------------
    def control_keys(self) -> tuple[bytes, bytes]:
        """(accessory-to-controller, controller-to-accessory)"""
        a2c = C.hkdf(self.shared, b"Control-Salt", b"Control-Read-Encryption-Key")
        c2a = C.hkdf(self.shared, b"Control-Salt", b"Control-Write-Encryption-Key")
        return a2c, c2a

    def event_key(self) -> bytes:
        return C.hkdf(self.shared, b"Event-Salt", b"Event-Read-Encryption-Key")

    def session_id(self) -> bytes:
        return C.hkdf(self.shared, b"Pair-Verify-ResumeSessionID-Salt", b"Pair-Verify-ResumeSessionID-Info", 8)

    # -- messages ----------------------------------------------------------------------
    def handle(self, items: list[tuple[int, bytes]]) -> list[tuple[int, bytes]]:
        d = tlv8.to_dict(items)
        st = d.get(T_STATE, b"")
        if st == b"\x01":
            return self._m1(d)
        if st == b"\x03":
            return self._m3(d)
        return [(T_STATE, b"\x02"), (T_ERROR, bytes([ERR_UNKNOWN]))]

    def _m1(self, d) -> list[tuple[int, bytes]]:
        self.state = 1
        self.ios_pk = d.get(T_PUBKEY, b"")
        if len(self.ios_pk) != 32:
            return [(T_STATE, b"\x02"), (T_ERROR, bytes([ERR_UNKNOWN]))]
        mut = self.mut
        if d.get(T_METHOD) == b"\x06" and T_SESSIONID in d:
            r = self._resume(d)
            if r is not None:
                return r
        acc_pk = C.x25519_pub(self.eph_priv)
        self.acc_pk = acc_pk
        self.shared = C.x25519_shared(self.eph_priv, self.ios_pk)
        kv = C.hkdf(self.shared, b"Pair-Verify-Encrypt-Salt", b"Pair-Verify-Encrypt-Info")
        ident = self.ident.pairing_id.encode()
        ltsk = self.ident.ltsk
        sign_id = ident
        k = mut.get("kind")
        if k == "wrong_ltsk":
            ltsk = mut["ltsk"]
        if k == "wrong_id":
            ident = mut["id"].encode()
            sign_id = ident if mut.get("sign_wrong_id", True) else sign_id
        parts = [acc_pk, sign_id, self.ios_pk]
        if k == "permute":
            order = mut["order"]
            parts = [parts[i] for i in order]
        if k == "sign_other_key":
            parts = [acc_pk, sign_id, mut["other_ios_pk"]]
        info = b"".join(parts)
        if k == "sign_truncated":
            info = info[: mut["n"]]
        sig = C.ed_sign(ltsk, info)
        sub = [(T_ID, ident), (T_SIG, sig)]
        if k == "inner":
            sub = mutate_items(sub, mut["inner"])
        if mut.get("inner_extra"):
            pos = mut.get("inner_extra_pos", len(sub))
            sub = sub[:pos] + [tuple(x) for x in mut["inner_extra"]] + sub[pos:]
        nonce = C.nonce_label(b"PV-Msg02")
        if k == "wrong_nonce":
            nonce = C.nonce_label(mut["label"])
        if k == "wrong_kv":
            kv = C.hkdf(self.shared, b"Pair-Verify-Encrypt-Salt", mut["info"])
        enc = C.seal(kv, nonce, tlv8.encode(sub))
        m2 = [(T_STATE, b"\x02"), (T_PUBKEY, acc_pk), (T_ENC, enc)]
        if k == "outer":
            m2 = mutate_items(m2, mut["outer"])
        if k == "error":
            m2 = self._error_reply(b"\x02", mut, m2)
        if k == "replay_m2":
            m2 = [tuple(x) for x in mut["m2"]]
        self.sent_m2 = m2
        self.state = 2
        return m2

    def _resume(self, d):
        sid = d[T_SESSIONID]
        mut = self.mut
        prev = self.sessions.get(sid)
        k = mut.get("kind")
        if prev is None and k not in ("resume_wrong_secret",):
            return None  # fall back to full verify
        if prev is None:
            prev = bytes(32)
        if k == "resume_decline":
            return None
        req_key = C.hkdf(prev, self.ios_pk + sid, b"Pair-Resume-Request-Info")
        if C.unseal(req_key, C.nonce_label(b"PR-Msg01"), d.get(T_ENC, b"")) != b"" and k != "resume_wrong_secret":
            return [(T_STATE, b"\x02"), (T_ERROR, bytes([ERR_AUTH]))]
        new_sid = self.new_session_id
        secret = prev
        if k == "resume_wrong_secret":
            secret = mut["secret"]
        resp_key = C.hkdf(secret, self.ios_pk + new_sid, b"Pair-Resume-Response-Info")
        plaintext = b"x" if k == "resume_nonempty" else b""
        tag = C.seal(resp_key, C.nonce_label(b"PR-Msg02"), plaintext)
        sid_out = new_sid
        if k == "resume_wrong_sid":
            sid_out = mut["sid"]
        self.shared = C.hkdf(prev, self.ios_pk + new_sid, b"Pair-Resume-Shared-Secret-Info")
        self.resumed = True
        self.resume_authentic = k not in ("resume_wrong_secret", "resume_nonempty", "resume_wrong_sid")
        self.state = 4
        m2 = [(T_STATE, b"\x02"), (T_METHOD, b"\x06"), (T_SESSIONID, sid_out), (T_ENC, tag)]
        if k == "outer":
            m2 = mutate_items(m2, mut["outer"])
            self.resume_authentic = False
        if k == "error":  # C04: genuine resume fields plus an error code / a wrong or absent state
            m2 = self._error_reply(b"\x02", mut, m2)
            self.resume_authentic = False
        self.sent_m2 = m2
        return m2

    def _m3(self, d) -> list[tuple[int, bytes]]:
        mut = self.mut
        ok, why = self._check_m3(d)
        self.m3_accept = ok
        self.m3_reason = why
        self.state = 4 if ok else 0
        m4 = [(T_STATE, b"\x04")] if ok else [(T_STATE, b"\x04"), (T_ERROR, bytes([ERR_AUTH]))]
        if mut.get("kind") == "error4":
            m4 = self._error_reply(b"\x04", mut, m4)
        if mut.get("kind") == "outer4":
            m4 = mutate_items(m4, mut["outer"])
        return m4

    def _check_m3(self, d) -> tuple[bool, str]:
        if self.state != 2 or self.shared is None:
            return False, "M3 out of sequence"
        kv = C.hkdf(self.shared, b"Pair-Verify-Encrypt-Salt", b"Pair-Verify-Encrypt-Info")
        pt = C.unseal(kv, C.nonce_label(b"PV-Msg03"), d.get(T_ENC, b""))
        if pt is None:
            return False, "M3 does not decrypt under PV-Msg03"
        try:
            sub = tlv8.to_dict(tlv8.decode(pt))
        except tlv8.TLVError as e:
            return False, f"M3 sub-TLV not canonical: {e}"
        ios_id = sub.get(T_ID, b"").decode("utf-8", "replace")
        ltpk = self.controllers.get(ios_id)
        if ltpk is None:
            return False, f"unknown controller {ios_id!r}"
        if not C.ed_verify(ltpk, sub.get(T_SIG, b""), self.ios_pk + ios_id.encode() + self.acc_pk):
            return False, "controller signature does not cover iosPK|iosId|accPK"
        self.verified_controller = ios_id
        return True, ""

    @staticmethod
    def _error_reply(state: bytes, mut: dict, honest: list) -> list:
        """error cell of the C04 grid: code, state variant, subset of other fields"""
        out = []
        sv = mut.get("state", "expected")
        if sv == "expected":
            out.append((T_STATE, state))
        elif sv == "absent":
            pass
        else:
            out.append((T_STATE, bytes([sv])))
        if mut.get("code") is not None:
            out.append((T_ERROR, bytes([mut["code"]])))
        if mut.get("keep_fields"):
            out += [(t, v) for t, v in honest if t not in (T_STATE, T_ERROR)]
        if mut.get("error_first"):
            out = [x for x in out if x[0] == T_ERROR] + [x for x in out if x[0] != T_ERROR]
        if mut.get("foreign_first"):  # a field the reply is not expected to carry, ahead of everything else
            out = [(T_ID, b"unexpected")] + out
        return out


def reference_verify_m2(delivered: list[tuple[int, bytes]], ios_priv: bytes, stored_id: str, stored_ltpk: bytes) -> tuple[bool, str]:
    """Independent judgement of an M2 as delivered to the controller: is it an authentic proof
    of possession of the stored long-term key bound to this exchange's two keys and the
    stored identifier?  (State field leniency: absent state tolerated, like iOS.)"""
    d = tlv8.to_dict(delivered)
    if T_ERROR in d:
        return False, "reply carries an error code"
    if d.get(T_STATE, b"\x02") != b"\x02":
        return False, "step number altered"
    pk = d.get(T_PUBKEY)
    if pk is None or len(pk) != 32:
        return False, "no 32-byte public key"
    try:
        shared = C.x25519_shared(ios_priv, pk)
    except Exception as e:  # noqa: BLE001
        return False, f"x25519 rejects key: {e}"
    kv = C.hkdf(shared, b"Pair-Verify-Encrypt-Salt", b"Pair-Verify-Encrypt-Info")
    pt = C.unseal(kv, C.nonce_label(b"PV-Msg02"), d.get(T_ENC, b""))
    if pt is None:
        return False, "encrypted data does not authenticate"
    try:
        sub = tlv8.to_dict(tlv8.decode(pt, strict=False))
    except tlv8.TLVError:
        return False, "sub-TLV malformed"
    if sub.get(T_ID) != stored_id.encode():
        return False, "identifier differs from stored one"
    ios_pk = C.x25519_pub(ios_priv)
    if not C.ed_verify(stored_ltpk, sub.get(T_SIG, b""), pk + stored_id.encode() + ios_pk):
        return False, "signature invalid for accPK|id|iosPK under stored LTPK"
    return True, ""


class SetupResponder:
    """Accessory side of pair-setup M1..M6."""

    def __init__(self, ident: AccessoryIdentity, setup_code: str, salt: bytes, b: int, mut: dict | None = None) -> None:
        self.ident = ident
        self.setup_code = setup_code
        self.salt = salt
        self.b = b
        self.mut = mut or {}
        self.state = 0
        self.srp: C.SrpAccessory | None = None
        self.m3_ok: bool | None = None
        self.m5_ok: bool | None = None
        self.m5_reason = ""
        self.m6_sent_honest = False
        self.paired_controller: tuple[str, bytes] | None = None
        self.method: bytes | None = None

    def handle(self, items) -> list[tuple[int, bytes]]:
        d = tlv8.to_dict(items)
        st = d.get(T_STATE, b"")
        if st == b"\x01":
            return self._m1(d)
        if st == b"\x03":
            return self._m3(d)
        if st == b"\x05":
            return self._m5(d)
        return [(T_STATE, b"\x02"), (T_ERROR, bytes([ERR_UNKNOWN]))]

    def _m1(self, d):
        self.method = d.get(T_METHOD)
        self.srp = C.SrpAccessory(self.setup_code, self.salt, self.b)
        self.state = 2
        m2 = [(T_STATE, b"\x02"), (T_PUBKEY, self.srp.B_bytes), (T_SALT, self.salt)]
        k = self.mut.get("kind")
        if k == "outer2":
            m2 = mutate_items(m2, self.mut["outer"])
        if k == "error2":
            m2 = VerifyResponder._error_reply(b"\x02", self.mut, m2)
        return m2

    def _m3(self, d):
        k = self.mut.get("kind")
        if self.state != 2:
            return [(T_STATE, b"\x04"), (T_ERROR, bytes([ERR_UNKNOWN]))]
        try:
            self.srp.receive_A(d.get(T_PUBKEY, b""))
        except ValueError:
            return [(T_STATE, b"\x04"), (T_ERROR, bytes([ERR_AUTH]))]
        self.m3_ok = self.srp.check_M1(d.get(T_PROOF, b""))
        if not self.m3_ok:
            self.state = 0
            m4 = [(T_STATE, b"\x04"), (T_ERROR, bytes([ERR_AUTH]))]
        else:
            self.state = 4
            m4 = [(T_STATE, b"\x04"), (T_PROOF, self.srp.M2)]
        if k == "forge_proof":  # accessory that does not know the code but claims success
            m4 = [(T_STATE, b"\x04"), (T_PROOF, self.mut["proof"])]
            self.state = 4
        if k == "outer4":
            m4 = mutate_items(m4, self.mut["outer"])
        if k == "error4":
            m4 = VerifyResponder._error_reply(b"\x04", self.mut, m4)
        return m4

    def _m5(self, d):
        mut = self.mut
        k = mut.get("kind")
        if self.state != 4 or self.srp is None or not hasattr(self.srp, "K"):
            return [(T_STATE, b"\x06"), (T_ERROR, bytes([ERR_UNKNOWN]))]
        K = self.srp.K
        kenc = C.hkdf(K, b"Pair-Setup-Encrypt-Salt", b"Pair-Setup-Encrypt-Info")
        ok, why = self._check_m5(d, K, kenc)
        self.m5_ok = ok
        self.m5_reason = why
        if not ok:
            m6 = [(T_STATE, b"\x06"), (T_ERROR, bytes([ERR_AUTH]))]
        else:
            ax = C.hkdf(K, b"Pair-Setup-Accessory-Sign-Salt", b"Pair-Setup-Accessory-Sign-Info")
            ident = self.ident.pairing_id.encode()
            ltsk, ltpk = self.ident.ltsk, self.ident.ltpk
            sign_id, sign_pk = ident, ltpk
            if k == "m6_wrong_ltsk":  # presents genuine LTPK but signs with another key
                ltsk = mut["ltsk"]
            if k == "m6_sign_other_id":
                sign_id = mut["id"].encode()
            if k == "m6_sign_other_pk":
                sign_pk = mut["pk"]
            if k == "m6_wrong_x":
                ax = C.hkdf(K, b"Pair-Setup-Controller-Sign-Salt", b"Pair-Setup-Controller-Sign-Info")
            sig = C.ed_sign(ltsk, ax + sign_id + sign_pk)
            sub = [(T_ID, ident), (T_PUBKEY, ltpk), (T_SIG, sig)]
            if k == "inner6":
                sub = mutate_items(sub, mut["inner"])
            if k == "m6_rival":
                # a second, different identity in the same (correctly encrypted) M6, not adjacent to the first so that
                # no TLV decoder merges them; 'signed' = the rival carries a valid signature of its own
                rid, rltsk = mut["id"].encode(), mut["ltsk"]
                rpk = C.ed_pub(rltsk)
                rival = [(T_ID, rid), (T_PUBKEY, rpk)] + ([(T_SIG, C.ed_sign(rltsk, ax + rid + rpk))] if mut.get("signed") else [])
                sub = sub + rival if mut.get("where") == "after" else rival + sub
            key, nonce = kenc, C.nonce_label(b"PS-Msg06")
            if k == "m6_wrong_key":
                key = mut["key"]
            if k == "m6_wrong_nonce":
                nonce = C.nonce_label(mut["label"])
            m6 = [(T_STATE, b"\x06"), (T_ENC, C.seal(key, nonce, tlv8.encode(sub)))]
            self.m6_sent_honest = k is None
        if k == "outer6":
            m6 = mutate_items(m6, mut["outer"])
            self.m6_sent_honest = False
        if k == "error6":
            m6 = VerifyResponder._error_reply(b"\x06", mut, m6)
            self.m6_sent_honest = False
        self.state = 6
        return m6

    def _check_m5(self, d, K, kenc) -> tuple[bool, str]:
        pt = C.unseal(kenc, C.nonce_label(b"PS-Msg05"), d.get(T_ENC, b""))
        if pt is None:
            return False, "M5 does not decrypt under Pair-Setup-Encrypt key / PS-Msg05"
        try:
            sub = tlv8.to_dict(tlv8.decode(pt))
        except tlv8.TLVError as e:
            return False, f"M5 sub-TLV not canonical: {e}"
        ios_id, ltpk, sig = sub.get(T_ID), sub.get(T_PUBKEY), sub.get(T_SIG)
        if not ios_id or ltpk is None or len(ltpk) != 32 or sig is None:
            return False, "M5 lacks identifier / 32-byte key / signature"
        ix = C.hkdf(K, b"Pair-Setup-Controller-Sign-Salt", b"Pair-Setup-Controller-Sign-Info")
        if not C.ed_verify(ltpk, sig, ix + ios_id + ltpk):
            return False, "M5 signature does not cover iOSDeviceX|id|LTPK"
        self.paired_controller = (ios_id.decode("utf-8", "replace"), ltpk)
        return True, ""
