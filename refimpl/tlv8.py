"""Independent TLV8 codec written from the HAP specification (no aiohomekit imports).

An item list is a list of (type:int, value:bytes).  Encoding splits values > 255 bytes into
maximal 255-byte fragments; a zero-length value is one `type 00` item.  Separators between
equal-typed neighbours are ordinary items of type 0xFF and length 0 (pairing TLVs) - the
caller puts them in the list.
"""

from __future__ import annotations


class TLVError(Exception):
    pass


def encode(items) -> bytes:
    out = bytearray()
    for t, v in items:
        v = bytes(v)
        if not 0 <= t <= 255:
            raise TLVError("type out of range")
        if len(v) == 0:
            out += bytes([t, 0])
            continue
        for i in range(0, len(v), 255):
            frag = v[i : i + 255]
            out += bytes([t, len(frag)]) + frag
    return bytes(out)


def decode(data: bytes, strict: bool = True) -> list[tuple[int, bytes]]:
    """Decode; consecutive fragments of one type are joined when the previous fragment was
    255 bytes long (the only case a conformant encoder produces).  With strict=True a
    continuation after a non-maximal fragment is an error; with strict=False equal-typed
    neighbours are joined regardless (what lenient decoders do)."""
    data = bytes(data)
    items: list[list] = []
    i = 0
    prev_len = None
    while i < len(data):
        if i + 2 > len(data):
            raise TLVError("truncated header")
        t, ln = data[i], data[i + 1]
        i += 2
        if i + ln > len(data):
            raise TLVError("truncated value")
        v = data[i : i + ln]
        i += ln
        if items and items[-1][0] == t and (prev_len == 255 or not strict):
            items[-1][1] += v
        elif items and items[-1][0] == t and strict and t != 0xFF:
            raise TLVError("equal-typed neighbours without separator")
        else:
            items.append([t, bytearray(v)])
        prev_len = ln
    return [(t, bytes(v)) for t, v in items]


def to_dict(items) -> dict[int, bytes]:
    d: dict[int, bytes] = {}
    for t, v in items:
        d.setdefault(t, v)
    return d


def is_canonical(data: bytes) -> bool:
    """True iff data is exactly what encode() produces for the items it decodes to."""
    try:
        return encode(decode(data, strict=True)) == bytes(data)
    except TLVError:
        return False
