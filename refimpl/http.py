"""Reference HTTP/1.1 pieces for the simulated HAP accessory: a strict request parser, the
canonical-form checker used by C09, and response / EVENT emitters."""

from __future__ import annotations

import json
import re

REASONS = {200: "OK", 204: "No Content", 207: "Multi-Status", 400: "Bad Request", 404: "Not Found",
           422: "Unprocessable Entity", 429: "Too Many Requests", 470: "Connection Authorization Required",
           500: "Internal Server Error", 503: "Service Unavailable"}


class Request:
    __slots__ = ("method", "target", "headers", "body", "raw")

    def __init__(self, method, target, headers, body, raw):
        self.method = method
        self.target = target
        self.headers = headers  # list of (name, value) as sent
        self.body = body
        self.raw = raw

    def header(self, name: str):
        for k, v in self.headers:
            if k.lower() == name.lower():
                return v
        return None


class RequestParser:
    """Incremental parser; tolerant enough to extract requests, the *strict* judgement is
    canonical_problems()."""

    def __init__(self) -> None:
        self.buf = bytearray()

    def feed(self, data: bytes) -> list[Request]:
        self.buf += data
        out = []
        while True:
            end = self.buf.find(b"\r\n\r\n")
            if end < 0:
                # tolerate bare-LF requests so that the checker (not the parser) reports them
                end2 = self.buf.find(b"\n\n")
                if end2 < 0:
                    return out
                head = bytes(self.buf[:end2])
                hlen = end2 + 2
                lines = head.split(b"\n")
            else:
                head = bytes(self.buf[:end])
                hlen = end + 4
                lines = head.split(b"\r\n")
            try:
                method, target, _version = lines[0].decode("latin-1").split(" ", 2)
            except ValueError:
                raise ValueError(f"bad request line {lines[0]!r}")
            headers = []
            clen = 0
            for ln in lines[1:]:
                k, _, v = ln.decode("latin-1").partition(":")
                headers.append((k, v.strip()))
                if k.strip().lower() == "content-length":
                    clen = int(v.strip())
            if len(self.buf) < hlen + clen:
                return out
            body = bytes(self.buf[hlen : hlen + clen])
            raw = bytes(self.buf[: hlen + clen])
            del self.buf[: hlen + clen]
            out.append(Request(method, target, headers, body, raw))


_REQ_LINE = re.compile(rb"^(GET|PUT|POST) (/[!-~]*) HTTP/1\.1$")
_IPV4 = re.compile(r"^\d{1,3}(\.\d{1,3}){3}$")
_IPV6 = re.compile(r"^\[[0-9A-Fa-f:.]+(%[A-Za-z0-9_.~-]+)?\]$")


def compact_json(value) -> bytes:
    """The encoding an iPhone sends: no insignificant whitespace, UTF-8, key order kept."""
    return json.dumps(value, separators=(",", ":"), ensure_ascii=False).encode("utf-8")


def has_insignificant_whitespace(body: bytes) -> bool:
    """True iff the JSON text has whitespace outside string literals (number formatting and
    string escaping are free choices of an encoder and are not judged)."""
    in_str = False
    esc = False
    for b in body:
        if in_str:
            if esc:
                esc = False
            elif b == 0x5C:
                esc = True
            elif b == 0x22:
                in_str = False
        else:
            if b == 0x22:
                in_str = True
            elif b in (0x20, 0x09, 0x0A, 0x0D):
                return True
    return False


def canonical_problems(raw: bytes) -> list[str]:
    """Byte-level check of one complete request against the canonical iOS form:
    request line, Host (IPv4 literal or bracketed IPv6, no port), then Content-Length and
    Content-Type in that order iff there is a body, CRLF only, nothing else; a JSON body is
    the compact encoding of its own value."""
    p: list[str] = []
    sep = raw.find(b"\r\n\r\n")
    if sep < 0:
        return ["no-terminator|no CRLFCRLF terminator"]
    head, body = raw[:sep], raw[sep + 4 :]
    if b"\n" in head.replace(b"\r\n", b"") or b"\r" in head.replace(b"\r\n", b""):
        p.append("bare-cr-lf|bare CR or LF in header block")
    lines = head.split(b"\r\n")
    if not _REQ_LINE.match(lines[0]):
        p.append(f"request-line|request line not canonical: {lines[0]!r}")
    hdrs = lines[1:]
    if not hdrs or not hdrs[0].startswith(b"Host: "):
        p.append("host-missing|second line is not 'Host: '")
    else:
        host = hdrs[0][6:].decode("latin-1")
        if not (_IPV4.match(host) or _IPV6.match(host)):
            p.append(f"host-value|Host value not an IPv4 literal or bracketed IPv6 literal without port: {host!r}")
    rest = hdrs[1:]
    if body:
        if len(rest) != 2:
            p.append(f"body-headers|with a body exactly Content-Length and Content-Type must follow Host, got {rest!r}")
        else:
            if rest[0] != b"Content-Length: %d" % len(body):
                p.append(f"content-length|Content-Length header wrong/misplaced: {rest[0]!r} for {len(body)} body bytes")
            if not re.match(rb"^Content-Type: application/(hap\+json|pairing\+tlv8|octet-stream)$", rest[1]):
                p.append(f"content-type|Content-Type header wrong/misplaced: {rest[1]!r}")
            if rest[1].endswith(b"hap+json"):
                try:
                    json.loads(body.decode("utf-8"))
                    if has_insignificant_whitespace(body):
                        p.append("json-whitespace|JSON body contains insignificant whitespace")
                except Exception as e:  # noqa: BLE001
                    p.append(f"json-unparsable|JSON body unparsable: {e}")
    else:
        if rest:
            p.append(f"extra-headers|headers other than Host on a body-less request: {rest!r}")
    return p


def response(code: int, body: bytes = b"", ctype: str | None = "application/hap+json", *, chunks=None,
             extra_headers=(), lower=False, omit_length=False) -> bytes:
    reason = REASONS.get(code, "Status")
    lines = [f"HTTP/1.1 {code} {reason}"]
    hdrs = []
    if body or chunks is not None:
        if ctype:
            hdrs.append(("Content-Type", ctype))
    if chunks is not None:
        hdrs.append(("Transfer-Encoding", "chunked"))
    elif (body or code != 204) and not omit_length:
        hdrs.append(("Content-Length", str(len(body))))
    hdrs.extend(extra_headers)
    for k, v in hdrs:
        lines.append(f"{k.lower() if lower else k}: {v}")
    head = ("\r\n".join(lines) + "\r\n\r\n").encode("latin-1")
    if chunks is not None:
        out = bytearray(head)
        i = 0
        for n in chunks:
            piece = body[i : i + n]
            if not piece:
                break
            out += b"%x\r\n" % len(piece) + piece + b"\r\n"
            i += n
        if i < len(body):
            piece = body[i:]
            out += b"%x\r\n" % len(piece) + piece + b"\r\n"
        out += b"0\r\n\r\n"
        return bytes(out)
    return head + body


def event(body: bytes, *, lower=False) -> bytes:
    h = "EVENT/1.0 200 OK\r\nContent-Type: application/hap+json\r\nContent-Length: %d\r\n\r\n" % len(body)
    if lower:
        h = "EVENT/1.0 200 OK\r\ncontent-type: application/hap+json\r\ncontent-length: %d\r\n\r\n" % len(body)
    return h.encode() + body
