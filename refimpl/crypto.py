"""Independent HAP cryptography written from RFC 5054 / 5869 / 7539 and the HAP spec.

Only hashlib, hmac, struct and `cryptography` primitives; nothing from aiohomekit.
"""

from __future__ import annotations

import hashlib
import hmac
import struct

from cryptography.exceptions import InvalidSignature, InvalidTag
from cryptography.hazmat.primitives import serialization
from cryptography.hazmat.primitives.asymmetric.ed25519 import Ed25519PrivateKey, Ed25519PublicKey
from cryptography.hazmat.primitives.asymmetric.x25519 import X25519PrivateKey, X25519PublicKey
from cryptography.hazmat.primitives.ciphers.aead import ChaCha20Poly1305

RAW = dict(encoding=serialization.Encoding.Raw, format=serialization.PublicFormat.Raw)


# ---- HKDF-SHA512 (RFC 5869) -------------------------------------------------------------
def hkdf(ikm: bytes, salt: bytes, info: bytes, length: int = 32) -> bytes:
    prk = hmac.new(salt, ikm, hashlib.sha512).digest()
    okm = b""
    t = b""
    i = 1
    while len(okm) < length:
        t = hmac.new(prk, t + info + bytes([i]), hashlib.sha512).digest()
        okm += t
        i += 1
    return okm[:length]


# ---- ChaCha20-Poly1305 (RFC 7539) -----------------------------------------------------------
def nonce_label(label: bytes) -> bytes:
    """HAP pairing nonces: 4 zero bytes + 8 ASCII bytes."""
    assert len(label) == 8
    return b"\x00\x00\x00\x00" + label


def nonce_counter(n: int) -> bytes:
    """HAP session nonces: 4 zero bytes + LE64 counter."""
    return b"\x00\x00\x00\x00" + struct.pack("<Q", n)


def seal(key: bytes, nonce: bytes, plaintext: bytes, aad: bytes = b"") -> bytes:
    return ChaCha20Poly1305(key).encrypt(nonce, plaintext, aad)


def unseal(key: bytes, nonce: bytes, data: bytes, aad: bytes = b"") -> bytes | None:
    try:
        return ChaCha20Poly1305(key).decrypt(nonce, data, aad)
    except InvalidTag:
        return None


# ---- Curve25519 -----------------------------------------------------------------------------
def x25519_pub(priv: bytes) -> bytes:
    return X25519PrivateKey.from_private_bytes(priv).public_key().public_bytes(**RAW)


def x25519_shared(priv: bytes, peer_pub: bytes) -> bytes:
    return X25519PrivateKey.from_private_bytes(priv).exchange(X25519PublicKey.from_public_bytes(peer_pub))


def ed_pub(priv: bytes) -> bytes:
    return Ed25519PrivateKey.from_private_bytes(priv).public_key().public_bytes(**RAW)


def ed_sign(priv: bytes, msg: bytes) -> bytes:
    return Ed25519PrivateKey.from_private_bytes(priv).sign(msg)


def ed_verify(pub: bytes, sig: bytes, msg: bytes) -> bool:
    try:
        Ed25519PublicKey.from_public_bytes(pub).verify(sig, msg)
        return True
    except (InvalidSignature, ValueError):
        return False


# ---- SRP-6a, RFC 5054 3072-bit group, SHA-512, HomeKit conventions ----------------------------
N_HEX = """
FFFFFFFF FFFFFFFF C90FDAA2 2168C234 C4C6628B 80DC1CD1 29024E08 8A67CC74
020BBEA6 3B139B22 514A0879 8E3404DD EF9519B3 CD3A431B 302B0A6D F25F1437
4FE1356D 6D51C245 E485B576 625E7EC6 F44C42E9 A637ED6B 0BFF5CB6 F406B7ED
EE386BFB 5A899FA5 AE9F2411 7C4B1FE6 49286651 ECE45B3D C2007CB8 A163BF05
98DA4836 1C55D39A 69163FA8 FD24CF5F 83655D23 DCA3AD96 1C62F356 208552BB
9ED52907 7096966D 670C354E 4ABC9804 F1746C08 CA18217C 32905E46 2E36CE3B
E39E772C 180E8603 9B2783A2 EC07A28F B5C55DF0 6F4C52C9 DE2BCBF6 95581718
3995497C EA956AE5 15D22618 98FA0510 15728E5A 8AAAC42D AD33170D 04507A33
A85521AB DF1CBA64 ECFB8504 58DBEF0A 8AEA7157 5D060C7D B3970F85 A6E1E4C7
ABF5AE8C DB0933D7 1E8C94E0 4A25619D CEE3D226 1AD2EE6B F12FFA06 D98A0864
D8760273 3EC86A64 521F2B18 177B200C BBE11757 7A615D6C 770988C0 BAD946E2
08E24FA0 74E5AB31 43DB5BFC E0FD108E 4B82D120 A93AD2CA FFFFFFFF FFFFFFFF
"""
N = int("".join(N_HEX.split()), 16)
G = 5
NLEN = 384


def H(*parts: bytes) -> bytes:
    return hashlib.sha512(b"".join(parts)).digest()


def PAD(x: int) -> bytes:
    return x.to_bytes(NLEN, "big")


K_MULT = int.from_bytes(H(PAD(N), PAD(G)), "big")  # k = H(N | PAD(g))


def srp_x(salt: bytes, user: bytes, password: bytes) -> int:
    return int.from_bytes(H(salt, H(user + b":" + password)), "big")


class SrpAccessory:
    """Accessory (server) side of HomeKit SRP.  salt and b are supplied by the caller."""

    def __init__(self, setup_code: str, salt: bytes, b: int, user: bytes = b"Pair-Setup") -> None:
        self.user = user
        self.salt = salt
        self.b = b
        x = srp_x(salt, user, setup_code.encode())
        self.v = pow(G, x, N)
        self.B = (K_MULT * self.v + pow(G, b, N)) % N
        self.B_bytes = PAD(self.B)

    def receive_A(self, A_bytes: bytes) -> None:
        self.A_bytes_raw = bytes(A_bytes)
        self.A = int.from_bytes(A_bytes, "big")
        if self.A % N == 0:
            raise ValueError("A mod N == 0")
        u = int.from_bytes(H(PAD(self.A), PAD(self.B)), "big")
        self.S = pow(self.A * pow(self.v, u, N), self.b, N)
        self.K = H(PAD(self.S))
        hn = H(PAD(N))
        hg = H(bytes([G]))
        hgroup = bytes(a ^ b for a, b in zip(hn, hg))
        self.M1 = H(hgroup, H(self.user), self.salt, PAD(self.A), PAD(self.B), self.K)
        self.M2 = H(PAD(self.A), self.M1, self.K)

    def check_M1(self, m1: bytes) -> bool:
        return hmac.compare_digest(bytes(m1), self.M1)


def srp_client_values(setup_code: str, salt: bytes, a: int, B_bytes: bytes, user: bytes = b"Pair-Setup"):
    """What a conformant controller computes for (I, P, s, a, B): A, S, K, M1 (bytes)."""
    B = int.from_bytes(B_bytes, "big")
    A = pow(G, a, N)
    u = int.from_bytes(H(PAD(A), PAD(B)), "big")
    x = srp_x(salt, user, setup_code.encode())
    S = pow((B - K_MULT * pow(G, x, N)) % N, a + u * x, N)
    K = H(PAD(S))
    hn = H(PAD(N))
    hg = H(bytes([G]))
    hgroup = bytes(p ^ q for p, q in zip(hn, hg))
    M1 = H(hgroup, H(user), salt, PAD(A), PAD(B), K)
    M2 = H(PAD(A), M1, K)
    return PAD(A), PAD(S), K, M1, M2


# ---- HAP session framing (IP) -------------------------------------------------------------------
class FrameCodec:
    """One direction of a HAP IP secure session: LE16 length as AAD, <=1024-byte frames,
    nonce = 4 zero bytes + LE64 counter, 16-byte tag."""

    def __init__(self, key: bytes) -> None:
        self.key = key
        self.counter = 0
        self.buf = bytearray()

    def seal_frame(self, chunk: bytes) -> bytes:
        assert 0 < len(chunk) <= 1024
        ln = struct.pack("<H", len(chunk))
        out = ln + seal(self.key, nonce_counter(self.counter), chunk, ln)
        self.counter += 1
        return out

    def seal_stream(self, data: bytes, sizes) -> list[bytes]:
        """Split data into frames with the given plaintext sizes (iterator; each 1..1024)."""
        frames = []
        i = 0
        while i < len(data):
            n = max(1, min(1024, next(sizes)))
            frames.append(self.seal_frame(data[i : i + n]))
            i += n
        return frames

    def feed(self, data: bytes) -> list[bytes]:
        """Decode as many complete frames as available; raises ValueError on a bad tag or
        an oversize length."""
        self.buf += data
        out = []
        while len(self.buf) >= 2:
            n = struct.unpack("<H", self.buf[:2])[0]
            if n > 1024:
                raise ValueError(f"frame length {n} > 1024")
            if len(self.buf) < 2 + n + 16:
                break
            pt = unseal(self.key, nonce_counter(self.counter), bytes(self.buf[2 : 2 + n + 16]), bytes(self.buf[:2]))
            if pt is None:
                raise ValueError(f"frame {self.counter} failed authentication")
            self.counter += 1
            del self.buf[: 2 + n + 16]
            out.append(pt)
        return out
