"""Demonstration for change k10b (reconnect back-off bookkeeping of the IP connection).

Everything here is real: a real selector event loop, real loopback TCP
sockets on 127.0.0.1/127.0.0.2/127.0.0.3, the real IpPairing /
SecureHomeKitConnection classes and the real (threaded) test accessory
server from tests/accessoryserver.py as pair-verify peer.  Nothing of
aiohomekit is mocked; the code under test is only *observed* through a
pass-through spy around ``_connect_once`` / ``_get_connect_hosts`` and through
the accept log of the fault injecting TCP front ends.

The only trick is that the event loop clock runs DEMO_SCALE (default 20) times
faster than the wall clock (loop.time() and the selector timeout are scaled),
so that several minutes of back-off fit in a few seconds.  Set DEMO_SCALE=1 to
run everything in real time (slow).

All checks are phrased at the level of property C10 (growing delay <= 60 s,
no busy loop, immediate retry only to move on to another address and at most
once per address, single connector, bounded callers that do not abort the
connector, no address excluded forever, nothing after close, only an
authentication failure or close ends the retries).  They do not depend on the
concrete numbers of the back-off schedule, so the demo passes on the
unmodified code and with the change applied.

Run:  PYTHONPATH=/tmp/wt/k10b /venv/bin/python demo_k10b.py
 or:  PYTHONPATH=/tmp/wt/k10b /venv/bin/python -m pytest -q -p no:cacheprovider demo_k10b.py
"""

from __future__ import annotations

import asyncio
import json
import logging
import os
import selectors
import socket
import sys
import tempfile
import threading
import time
from collections import deque
from unittest import mock

sys.path.insert(0, os.path.dirname(os.path.abspath(__file__)))

from cryptography.hazmat.primitives import serialization  # noqa: E402
from cryptography.hazmat.primitives.asymmetric import ed25519  # noqa: E402

import tests.accessoryserver as accessoryserver  # noqa: E402
from aiohomekit.characteristic_cache import CharacteristicCacheMemory  # noqa: E402
from aiohomekit.controller.ip.pairing import IpPairing  # noqa: E402
from aiohomekit.exceptions import AccessoryDisconnectedError, AuthenticationError  # noqa: E402
from aiohomekit.model import Accessory  # noqa: E402
from aiohomekit.model.categories import Categories  # noqa: E402
from aiohomekit.model.characteristics import CharacteristicsTypes  # noqa: E402
from aiohomekit.model.services import ServicesTypes  # noqa: E402
from aiohomekit.protocol.tlv import TLV  # noqa: E402
from aiohomekit.zeroconf import HomeKitService  # noqa: E402

SCALE = float(os.environ.get("DEMO_SCALE", "20"))

A, B, C = "127.0.0.1", "127.0.0.2", "127.0.0.3"

# Property level thresholds, in (virtual) seconds
IMMEDIATE = 0.25  # a gap below this is an "immediate retry"
MIN_BACKOFF = 0.45  # anything that is not immediate must wait at least this long
MAX_BACKOFF = 60.0
TOL = 0.5  # timer / scheduling tolerance

ACCESSORY_LTPK = "7986cf939de8986f428744e36ed72d86189bea46b4dcdc8d9d79a3e4fceb92b9"
ACCESSORY_LTSK = "3d99f3e959a1f93af4056966f858074b2a1fdec1c5fd84a51ea96f9fa004156a"
ACCESSORY_ID = "12:34:56:00:01:0A"
IOS_ID = "decc6fa3-de3e-41c9-adba-ef7409821bfc"
IOS_LTPK = "d708df2fbf4a8779669f0ccd43f4962d6d49e4274f88b1292f822edc3bcf8ed8"
IOS_LTSK = "fa45f082ef87efc6c8c8d043d74084a3ea923a2253e323a7eb9917b4090c2fcc"


# --------------------------------------------------------------------------
# A real selector event loop whose clock runs SCALE times faster
# --------------------------------------------------------------------------
class _WarpSelector:
    def __init__(self, inner: selectors.BaseSelector) -> None:
        self._inner = inner

    def select(self, timeout=None):
        if timeout is not None and timeout > 0:
            timeout = timeout / SCALE
        return self._inner.select(timeout)

    def __getattr__(self, name):
        return getattr(self._inner, name)


class WarpLoop(asyncio.SelectorEventLoop):
    def __init__(self) -> None:
        super().__init__(_WarpSelector(selectors.DefaultSelector()))
        self._t0 = time.monotonic()

    def time(self) -> float:
        return (time.monotonic() - self._t0) * SCALE


# --------------------------------------------------------------------------
# Real accessory back ends (threads) and fault injecting TCP front ends
# --------------------------------------------------------------------------
def _free_port(hosts=(A,)) -> int:
    for _ in range(200):
        s = socket.socket()
        s.bind((hosts[0], 0))
        port = s.getsockname()[1]
        s.close()
        ok = True
        for h in hosts[1:]:
            t = socket.socket()
            try:
                t.bind((h, port))
            except OSError:
                ok = False
            finally:
                t.close()
        if ok:
            return port
    raise RuntimeError("no free port")


class Backend:
    """A real tests.accessoryserver.AccessoryServer running in a thread."""

    def __init__(self, pairing_id: str, ltpk: str, ltsk: str) -> None:
        self.port = _free_port()
        cfg = {
            "accessory_ltpk": ltpk,
            "accessory_ltsk": ltsk,
            "accessory_pairing_id": pairing_id,
            "accessory_pin": "031-45-154",
            "c#": 1,
            "category": "Lightbulb",
            "host_ip": A,
            "host_port": self.port,
            "name": "demoLight",
            "peers": {IOS_ID: {"admin": True, "key": IOS_LTPK}},
            "unsuccessful_tries": 0,
        }
        f = tempfile.NamedTemporaryFile("w", suffix=".json", delete=False)
        json.dump(cfg, f)
        f.close()
        self.cfg_file = f.name
        # Do not open multicast sockets: loopback only
        with mock.patch.object(accessoryserver, "Zeroconf", mock.MagicMock()):
            self.httpd = accessoryserver.AccessoryServer(self.cfg_file, None)
        acc = Accessory.create_with_info(1, "Demo", "demo", "Demoserver", "0001", "0.1")
        svc = acc.add_service(ServicesTypes.LIGHTBULB)
        svc.add_char(CharacteristicsTypes.ON, value=False)
        self.httpd.add_accessory(acc)
        self.thread = threading.Thread(target=self.httpd.serve_forever, daemon=True)
        self.thread.start()

    def stop(self) -> None:
        self.httpd.shutdown()
        self.thread.join(5)
        os.unlink(self.cfg_file)


def _http(code: int, body: bytes) -> bytes:
    reason = {200: "OK", 400: "Bad Request"}[code]
    return (
        f"HTTP/1.1 {code} {reason}\r\nContent-Type: application/pairing+tlv8\r\n"
        f"Content-Length: {len(body)}\r\n\r\n"
    ).encode() + body


class Front:
    """Fault injecting listener on one loopback address.

    mode / script entries:
      refuse   nothing is listening (real ECONNREFUSED)
      drop     accept and close at once (peer closes during verify)
      hang     accept and never answer
      http400  answer pair-verify M1 with HTTP 400
      auth     answer M1 with the authentication error TLV
      badkey   answer M1 with a malformed curve point (unexpected exception)
      good / wrong / badsig   pipe the bytes to the matching real accessory
    """

    def __init__(self, host: str, port: int, backends: dict[str, Backend]) -> None:
        self.host = host
        self.port = port
        self.backends = backends
        self.mode = "refuse"
        self.script: deque[str] = deque()
        self.accepts: list[tuple[float, str]] = []
        self.server: asyncio.AbstractServer | None = None
        self.writers: set[asyncio.StreamWriter] = set()
        self.tasks: set[asyncio.Task] = set()

    async def set_mode(self, mode: str) -> None:
        self.mode = mode
        if mode == "refuse" and self.server:
            self.server.close()
            await self.server.wait_closed()
            self.server = None
        elif mode != "refuse" and not self.server:
            self.server = await asyncio.start_server(self._handle, self.host, self.port, reuse_address=True)

    def kill_live(self) -> None:
        """Drop every established connection (later drop)."""
        for w in list(self.writers):
            w.transport.abort()

    async def stop(self) -> None:
        await self.set_mode("refuse")
        self.kill_live()
        for t in list(self.tasks):
            t.cancel()
        await asyncio.sleep(0)

    async def _read_request(self, r: asyncio.StreamReader) -> None:
        head = await r.readuntil(b"\r\n\r\n")
        length = 0
        for line in head.split(b"\r\n"):
            if line.lower().startswith(b"content-length:"):
                length = int(line.split(b":")[1])
        if length:
            await r.readexactly(length)

    async def _handle(self, r: asyncio.StreamReader, w: asyncio.StreamWriter) -> None:
        task = asyncio.current_task()
        self.tasks.add(task)
        self.writers.add(w)
        mode = self.script.popleft() if self.script else self.mode
        self.accepts.append((asyncio.get_running_loop().time(), mode))
        try:
            if mode == "drop":
                return
            if mode == "hang":
                await r.read()
                return
            if mode in ("http400", "auth", "badkey"):
                await self._read_request(r)
                if mode == "http400":
                    w.write(_http(400, b""))
                elif mode == "auth":
                    body = TLV.encode_list(
                        [(TLV.kTLVType_State, TLV.M2), (TLV.kTLVType_Error, TLV.kTLVError_Authentication)]
                    )
                    w.write(_http(200, body))
                else:
                    body = TLV.encode_list(
                        [
                            (TLV.kTLVType_State, TLV.M2),
                            (TLV.kTLVType_PublicKey, b"\x01" * 5),
                            (TLV.kTLVType_EncryptedData, b"\x00" * 24),
                        ]
                    )
                    w.write(_http(200, body))
                await w.drain()
                await r.read()
                return
            # pipe to a real accessory
            br, bw = await asyncio.open_connection(A, self.backends[mode].port)
            self.writers.add(bw)

            async def pump(src: asyncio.StreamReader, dst: asyncio.StreamWriter) -> None:
                try:
                    while data := await src.read(65536):
                        dst.write(data)
                        await dst.drain()
                except (OSError, asyncio.IncompleteReadError):
                    pass
                finally:
                    dst.close()

            other = asyncio.ensure_future(pump(br, w))
            try:
                await pump(r, bw)
            finally:
                other.cancel()
                self.writers.discard(bw)
                bw.close()
        except (OSError, asyncio.IncompleteReadError, asyncio.CancelledError):
            pass
        finally:
            self.writers.discard(w)
            self.tasks.discard(task)
            w.close()


# --------------------------------------------------------------------------
# Observation of the code under test
# --------------------------------------------------------------------------
class Attempt:
    def __init__(self, start: float) -> None:
        self.start = start
        self.end: float | None = None
        self.outcome = "?"
        self.hosts: list[str] | None = None
        self.connected_host: str | None = None
        self.failed_before: set[str] = set()
        self.failed_after: set[str] = set()
        self.connector: asyncio.Task | None = None

    def __repr__(self) -> str:
        return f"<{self.start:.2f}-{(self.end or -1):.2f} {self.outcome} hosts={self.hosts} peer={self.connected_host}>"


class Spy:
    """Pass-through observer around the real _connect_once/_get_connect_hosts."""

    def __init__(self, pairing: IpPairing) -> None:
        self.conn = conn = pairing.connection
        self.loop = asyncio.get_running_loop()
        self.attempts: list[Attempt] = []
        self.inflight = 0
        self.max_inflight = 0
        self.hasten: list[float] = []
        real_connect_once = conn._connect_once
        real_get_hosts = conn._get_connect_hosts

        def get_hosts():
            hosts = real_get_hosts()
            if self.attempts and self.attempts[-1].end is None:
                self.attempts[-1].hosts = list(hosts)
            return hosts

        async def connect_once():
            att = Attempt(self.loop.time())
            att.failed_before = set(conn._pair_verify_failed_hosts)
            att.connector = asyncio.current_task()
            self.attempts.append(att)
            self.inflight += 1
            self.max_inflight = max(self.max_inflight, self.inflight)
            try:
                await real_connect_once()
                att.outcome = "ok"
            except BaseException as ex:
                att.outcome = type(ex).__name__
                raise
            finally:
                self.inflight -= 1
                att.end = self.loop.time()
                att.connected_host = conn.connected_host
                att.failed_after = set(conn._pair_verify_failed_hosts)

        conn._connect_once = connect_once
        conn._get_connect_hosts = get_hosts

    def reconnect_soon(self) -> None:
        self.hasten.append(self.loop.time())
        self.conn.reconnect_soon()

    # ---- property level checks on the recorded attempt sequence ----
    def check(self, label: str, n_hosts: int) -> dict:
        assert self.max_inflight <= 1, f"{label}: {self.max_inflight} connection attempts in flight at once"
        gaps = []
        streak: list[float] = []  # un-hastened back-off gaps of the current connector
        immediates_since_wait: list[str] = []
        for prev, nxt in zip(self.attempts, self.attempts[1:]):
            if prev.outcome in ("ok", "AuthenticationError", "CancelledError") or prev.connector is not nxt.connector:
                # a new connector was started by a drop / a caller / a trigger
                streak = []
                immediates_since_wait = []
                continue
            gap = nxt.start - prev.end
            hastened = any(prev.end - 1e-9 <= t <= nxt.start + 1e-9 for t in self.hasten)
            gaps.append(gap)
            assert gap <= MAX_BACKOFF + TOL, f"{label}: waited {gap:.2f}s (> 60s) after {prev}"
            if gap < IMMEDIATE and not hastened:
                # immediate retry: only to move on from a newly excluded address
                # to another advertised one, once per address
                assert prev.outcome == "IncorrectPairingIdError", f"{label}: busy retry after {prev} -> {nxt}"
                new = prev.failed_after - prev.failed_before
                assert len(new) == 1, f"{label}: immediate retry without newly excluded address {prev}"
                (addr,) = new
                assert addr not in immediates_since_wait, f"{label}: second immediate retry for {addr}"
                immediates_since_wait.append(addr)
                assert len(immediates_since_wait) <= n_hosts - 1, f"{label}: too many immediate retries"
                assert nxt.hosts is not None and addr not in nxt.hosts and nxt.hosts, (
                    f"{label}: immediate retry did not move on to another address: {prev} -> {nxt}"
                )
                continue
            immediates_since_wait = []
            if hastened:
                continue
            assert gap >= MIN_BACKOFF, f"{label}: retry after only {gap:.3f}s: {prev} -> {nxt}"
            if streak:
                assert gap >= streak[-1] - TOL, f"{label}: back-off shrank {streak[-1]:.2f} -> {gap:.2f}"
            streak.append(gap)
        return {"attempts": len(self.attempts), "gaps": [round(g, 2) for g in gaps]}


class _ControllerStub:
    def __init__(self) -> None:
        self._char_cache = CharacteristicCacheMemory()


def make_pairing(hosts: list[str], port: int) -> tuple[IpPairing, Spy]:
    pairing_data = {
        "Connection": "IP",
        "iOSDeviceLTPK": IOS_LTPK,
        "iOSPairingId": IOS_ID,
        "iOSDeviceLTSK": IOS_LTSK,
        "AccessoryLTPK": ACCESSORY_LTPK,
        "AccessoryPairingID": ACCESSORY_ID,
        "AccessoryPort": port,
        "AccessoryIP": hosts[0],
        "AccessoryIPs": list(hosts),
    }
    pairing = IpPairing(_ControllerStub(), pairing_data)
    return pairing, Spy(pairing)


def description(addresses: list[str], port: int) -> HomeKitService:
    return HomeKitService(
        name="demoLight",
        id=ACCESSORY_ID.lower(),
        model="Demoserver",
        feature_flags=0,
        status_flags=0,
        config_num=1,
        state_num=0,
        category=Categories.LIGHTBULB,
        protocol_version="1.0",
        type="_hap._tcp.local",
        address=addresses[0],
        addresses=list(addresses),
        port=port,
    )


async def wait_until(pred, timeout: float, what: str) -> None:
    loop = asyncio.get_running_loop()
    deadline = loop.time() + timeout
    while not pred():
        assert loop.time() < deadline, f"timed out after {timeout} virtual s waiting for {what}"
        await asyncio.sleep(0.05)


class Env:
    def __init__(self, backends: dict[str, Backend], hosts: list[str]) -> None:
        self.port = _free_port((A, B, C))
        self.fronts = {h: Front(h, self.port, backends) for h in hosts}
        self.pairing, self.spy = make_pairing(hosts, self.port)
        self.conn = self.pairing.connection

    async def finish(self) -> None:
        await self.pairing.shutdown()
        for f in self.fronts.values():
            await f.stop()


# --------------------------------------------------------------------------
# Scenarios
# --------------------------------------------------------------------------
async def s1_long_failure_run(backends) -> str:
    """One address, every kind of failure in turn, minutes of virtual time."""
    env = Env(backends, [A])
    conn, spy, front = env.conn, env.spy, env.fronts[A]
    loop = asyncio.get_running_loop()
    t0 = loop.time()
    conn._start_connector()
    connector = conn._connector
    await asyncio.sleep(6)  # nothing listens: refused
    await front.set_mode("drop")
    front.script.extend(["http400", "badsig", "badkey", "drop", "http400", "badkey", "badsig"])
    await asyncio.sleep(330 - (loop.time() - t0))
    assert conn._connector is connector and not connector.done(), "connector gave up"
    res = spy.check("s1", 1)
    outcomes = {a.outcome for a in spy.attempts}
    assert {"ConnectionError", "InvalidSignatureError", "ValueError"} <= outcomes, outcomes
    assert len(outcomes) >= 5, outcomes
    assert max(res["gaps"]) >= 30, f"back-off never grew: {res['gaps']}"
    assert len(spy.attempts) <= 40, "too many attempts for 330 s"
    # success ends the streak: the accessory comes back
    await front.set_mode("good")
    await wait_until(lambda: conn.is_connected, 62, "reconnect after the accessory came back")
    assert await env.pairing.get_characteristics([(1, 9)]) == {(1, 9): {"value": False}}
    await asyncio.wait_for(connector, 1)
    spy.check("s1", 1)
    await env.finish()
    return f"outcomes={sorted(outcomes)} gaps={res['gaps']}"


async def s2_wrong_pairing_ids(backends) -> str:
    """Three addresses that all belong to another accessory, then A turns good."""
    env = Env(backends, [A, B, C])
    conn, spy = env.conn, env.spy
    for f in env.fronts.values():
        await f.set_mode("wrong")
    conn._start_connector()
    connector = conn._connector
    await asyncio.sleep(14)
    assert not connector.done()
    first = spy.attempts[:3]
    assert [a.connected_host for a in first] == [A, B, C], first
    assert first[1].start - first[0].end < IMMEDIATE and first[2].start - first[1].end < IMMEDIATE, first
    assert len(spy.attempts) >= 4 and spy.attempts[3].start - first[2].end >= MIN_BACKOFF
    # every address keeps being tried: none is excluded forever
    tried = {a.connected_host for a in spy.attempts[3:]}
    res = spy.check("s2", 3)
    await env.fronts[A].set_mode("good")
    await wait_until(lambda: conn.is_connected, 130, "connection to the address that was excluded")
    assert conn.connected_host == A
    await asyncio.wait_for(connector, 1)
    res = spy.check("s2", 3)
    assert {a.connected_host for a in spy.attempts[3:]} >= {A, B, C}, tried
    await env.finish()
    return f"peers={[a.connected_host[-1] for a in spy.attempts]} gaps={res['gaps']}"


async def s3_concurrent_triggers_and_callers(backends) -> str:
    """Many triggers at once: one connector; callers are bounded and harmless."""
    env = Env(backends, [A])
    conn, spy, pairing = env.conn, env.spy, env.pairing
    loop = asyncio.get_running_loop()
    await env.fronts[A].set_mode("drop")

    async def timed(coro):
        t = loop.time()
        try:
            await coro
            return ("returned", loop.time() - t)
        except BaseException as ex:
            return (type(ex).__name__, loop.time() - t, ex)

    callers = [
        asyncio.ensure_future(timed(pairing._ensure_connected())),
        asyncio.ensure_future(timed(pairing.get_characteristics([(1, 9)]))),
        asyncio.ensure_future(timed(asyncio.wait_for(conn.ensure_connection(), 1.0))),
        asyncio.ensure_future(timed(asyncio.wait_for(conn.ensure_connection(), 3.0))),
    ]
    victim = asyncio.ensure_future(conn.ensure_connection())
    await asyncio.sleep(0)
    connector = conn._connector
    assert connector is not None
    for _ in range(3):
        conn._start_connector()
        conn._start_reconnecting()
        spy.reconnect_soon()
    await asyncio.sleep(0.3)
    victim.cancel()  # caller cancellation must not abort the connector
    for delay in (0.4, 0.9, 2.3, 2.31, 5.0):
        await asyncio.sleep(delay)
        before = len(spy.attempts)
        sleeping = conn._reconnect_future is not None
        t = loop.time()
        spy.reconnect_soon()
        conn._start_connector()
        if sleeping:
            # zeroconf saw the device: the wait is cut short
            await wait_until(lambda: len(spy.attempts) > before, 0.4, "hastened attempt")
            assert spy.attempts[before].start - t < IMMEDIATE
        assert conn._connector is connector
    results = await asyncio.gather(*callers)
    assert victim.cancelled()
    assert conn._connector is connector and not connector.done(), "a caller aborted the connector"
    for r in results[:2]:
        assert r[0] == "AccessoryDisconnectedError" and 9.5 <= r[1] <= 11, r
    assert results[2][0] == "TimeoutError" and 0.9 <= results[2][1] <= 1.5, results[2]
    assert results[3][0] == "TimeoutError" and 2.9 <= results[3][1] <= 3.5, results[3]
    n = len(spy.attempts)
    await asyncio.sleep(61)
    assert len(spy.attempts) > n and not connector.done(), "retries stopped after the callers gave up"
    res = spy.check("s3", 1)
    # the accessory comes back; a waiting caller now succeeds through the same connector
    await env.fronts[A].set_mode("good")
    spy.reconnect_soon()
    await pairing._ensure_connected()
    assert conn.is_connected and connector.done()
    spy.check("s3", 1)
    await env.finish()
    return f"callers={[(r[0], round(r[1], 1)) for r in results]} attempts={res['attempts']}"


async def s4_authentication_failure(backends) -> str:
    """Only an authentication failure ends the retries (until someone asks again)."""
    env = Env(backends, [A, B])
    conn, spy, pairing = env.conn, env.spy, env.pairing
    await env.fronts[A].set_mode("drop")
    await env.fronts[B].set_mode("refuse")
    env.fronts[A].script.extend(["drop", "http400", "auth"])
    conn._start_connector()
    connector = conn._connector
    try:
        await asyncio.wait_for(conn.ensure_connection(), 30)
        raise AssertionError("expected AuthenticationError")
    except AuthenticationError:
        pass
    assert connector.done() and isinstance(connector.exception(), AuthenticationError)
    assert isinstance(conn.last_connector_error, AuthenticationError)
    n = len(spy.attempts)
    assert spy.attempts[-1].outcome == "AuthenticationError" and n == 3, spy.attempts
    await asyncio.sleep(100)
    assert len(spy.attempts) == n, "retried after an authentication failure"
    # a later request starts over and the authentication error reaches the caller
    env.fronts[A].script.extend(["auth"])
    try:
        await pairing._ensure_connected()
        raise AssertionError("expected AuthenticationError")
    except AuthenticationError:
        pass
    assert len(spy.attempts) == n + 1
    await env.fronts[A].set_mode("good")
    await pairing._ensure_connected()
    assert conn.is_connected
    res = spy.check("s4", 2)
    await env.finish()
    return f"attempts={[a.outcome for a in spy.attempts]}"


async def s5_later_drops(backends) -> str:
    """Established sessions are dropped; reconnects follow, then a failing phase."""
    env = Env(backends, [A])
    conn, spy, pairing, front = env.conn, env.spy, env.pairing, env.fronts[A]
    await front.set_mode("good")
    await pairing._ensure_connected()
    for i in range(3):
        n = len(spy.attempts)
        front.kill_live()
        await wait_until(lambda: len(spy.attempts) > n and conn.is_connected, 5, f"reconnect #{i}")
        assert await pairing.get_characteristics([(1, 9)]) == {(1, 9): {"value": False}}
    # drop again while the accessory is unwell for a while
    await front.set_mode("drop")
    front.script.extend(["http400", "badkey"])
    front.kill_live()
    await asyncio.sleep(25)
    assert not conn.is_connected and conn._connector and not conn._connector.done()
    await front.set_mode("good")
    await wait_until(lambda: conn.is_connected, 62, "reconnect after failing phase")
    # once more: after a success the next loss is followed by a new attempt
    n = len(spy.attempts)
    front.kill_live()
    await wait_until(lambda: len(spy.attempts) > n and conn.is_connected, 5, "final reconnect")
    res = spy.check("s5", 1)
    await env.finish()
    return f"attempts={[a.outcome for a in spy.attempts]} gaps={res['gaps']}"


async def s6_close(backends) -> str:
    """Nothing happens after close, whatever the connector was doing."""
    out = []
    loop = asyncio.get_running_loop()
    # (a) close during the back-off wait, with a zeroconf trigger in the same tick
    env = Env(backends, [A, B])
    conn, spy, pairing = env.conn, env.spy, env.pairing
    await env.fronts[A].set_mode("drop")
    await env.fronts[B].set_mode("wrong")
    conn._start_connector()
    connector = conn._connector
    await wait_until(lambda: len(spy.attempts) >= 3 and conn._reconnect_future is not None, 20, "back-off wait")
    loop.call_soon(conn.reconnect_soon)  # runs between the cancel and the connector seeing it
    await pairing.shutdown()
    assert connector.done()
    n = len(spy.attempts)
    pairing._async_description_update(description([A, B], env.port))  # zeroconf update after shutdown
    await asyncio.sleep(100)
    assert len(spy.attempts) == n and spy.inflight == 0, "attempt after close"
    assert conn._reconnect_future is None and not conn.is_connected
    assert all(t > 0 for t, _ in env.fronts[A].accepts) and len(env.fronts[A].accepts) + len(env.fronts[B].accepts) <= n
    spy.check("s6a", 2)
    out.append(f"a:{n}")
    await env.finish()

    # (b) close while an attempt is in flight (peer accepted but never answers)
    env = Env(backends, [A])
    conn, spy, pairing = env.conn, env.spy, env.pairing
    await env.fronts[A].set_mode("hang")
    caller = asyncio.ensure_future(pairing._ensure_connected())
    await wait_until(lambda: spy.inflight == 1 and env.fronts[A].accepts, 5, "in-flight attempt")
    await asyncio.sleep(2)
    await pairing.close()
    assert spy.attempts[-1].outcome == "CancelledError" and spy.inflight == 0
    try:
        await asyncio.wait_for(caller, 11)
        raise AssertionError("caller should not succeed")
    except (AccessoryDisconnectedError, asyncio.CancelledError):
        pass
    n = len(spy.attempts)
    accepts = len(env.fronts[A].accepts)
    await asyncio.sleep(100)
    assert len(spy.attempts) == n == 1 and len(env.fronts[A].accepts) == accepts, "attempt after close"
    assert conn.transport is None
    out.append(f"b:{n}")
    await env.finish()

    # (c) close right after a success and a drop
    env = Env(backends, [A])
    conn, spy, pairing = env.conn, env.spy, env.pairing
    await env.fronts[A].set_mode("good")
    await pairing._ensure_connected()
    await env.fronts[A].set_mode("drop")
    env.fronts[A].kill_live()
    await wait_until(lambda: len(spy.attempts) >= 3, 20, "failing reconnects")
    await pairing.close()
    n = len(spy.attempts)
    await asyncio.sleep(100)
    assert len(spy.attempts) == n and spy.inflight == 0, "attempt after close"
    spy.check("s6c", 1)
    out.append(f"c:{n}")
    await env.finish()
    return " ".join(out)


async def s7_host_change(backends) -> str:
    """A zeroconf update with new addresses clears the exclusions."""
    env = Env(backends, [A, B])
    conn, spy, pairing = env.conn, env.spy, env.pairing
    front_c = Front(C, env.port, backends)
    env.fronts[C] = front_c
    await env.fronts[A].set_mode("wrong")
    await env.fronts[B].set_mode("wrong")
    await front_c.set_mode("good")
    conn._start_connector()
    connector = conn._connector
    await wait_until(lambda: len(spy.attempts) >= 2 and conn._reconnect_future is not None, 10, "first round")
    assert [a.connected_host for a in spy.attempts[:2]] == [A, B]
    assert spy.attempts[1].start - spy.attempts[0].end < IMMEDIATE
    # the accessory is now advertised on B (still the wrong device) and C
    pairing.description = description([B, C], env.port)
    spy.reconnect_soon()
    await wait_until(lambda: conn.is_connected, 130, "connection through the new address")
    assert conn.connected_host == C and set(conn.hosts) == {B, C}
    assert conn._connector is connector
    await asyncio.wait_for(connector, 1)
    res = spy.check("s7", 2)
    await env.finish()
    return f"peers={[a.connected_host[-1] for a in spy.attempts]} gaps={res['gaps']}"


SCENARIOS = [
    s1_long_failure_run,
    s2_wrong_pairing_ids,
    s3_concurrent_triggers_and_callers,
    s4_authentication_failure,
    s5_later_drops,
    s6_close,
    s7_host_change,
]


async def _main() -> None:
    # a second, valid ed25519 identity for the "bad signature" accessory
    sk = ed25519.Ed25519PrivateKey.generate()
    bad_ltsk = sk.private_bytes(
        serialization.Encoding.Raw, serialization.PrivateFormat.Raw, serialization.NoEncryption()
    ).hex()
    bad_ltpk = sk.public_key().public_bytes(serialization.Encoding.Raw, serialization.PublicFormat.Raw).hex()
    backends = {
        "good": Backend(ACCESSORY_ID, ACCESSORY_LTPK, ACCESSORY_LTSK),
        "wrong": Backend("AA:BB:CC:00:01:0A", ACCESSORY_LTPK, ACCESSORY_LTSK),
        "badsig": Backend(ACCESSORY_ID, bad_ltpk, bad_ltsk),
    }
    try:
        only = os.environ.get("DEMO_ONLY")
        for scenario in SCENARIOS:
            if only and only not in scenario.__name__:
                continue
            t = time.monotonic()
            info = await scenario(backends)
            print(f"PASS {scenario.__name__} ({time.monotonic() - t:.1f}s real): {info}", flush=True)
    finally:
        for b in backends.values():
            b.stop()


def run() -> None:
    # the "unexpected exception" outcome is logged with a traceback by the library
    logging.getLogger("aiohomekit").setLevel(logging.CRITICAL)
    loop = WarpLoop()
    try:
        loop.run_until_complete(_main())
        loop.run_until_complete(asyncio.sleep(0.5))
    finally:
        loop.close()


def test_demo_k10b() -> None:
    run()


if __name__ == "__main__":
    import aiohomekit

    print("aiohomekit from", aiohomekit.__file__, "scale", SCALE)
    run()
    print("ALL PASS")
