#!/usr/bin/env python
"""
demo_k11a.py - demonstration for property C11
("a pairing never holds more than one open connection and leaks none").

Everything here is real: a real asyncio event loop, real loopback TCP sockets,
the real aiohappyeyeballs/asyncio transports, a real IpPairing talking to the
threaded HomeKit accessory server from tests/accessoryserver.py.  In between
sits a small fault injecting TCP proxy (127.0.0.1 and 127.0.0.2) that can close
a connection at a given request, answer a request itself (HTTP errors, TLV
errors, garbage) or stall.

The ground truth for "open connection held by the controller" is taken on the
client side: every socket returned by the real aiohappyeyeballs.start_connection
is recorded, and a socket counts as open while sock.fileno() != -1 (asyncio
transports close the very socket object they were given).  The count is sampled
whenever a new socket appears, every millisecond in between, and at the
checkpoints of each scenario.

Run:  PYTHONPATH=/tmp/wt/k11a /venv/bin/python /tmp/wt/k11a/demo_k11a.py
  or  PYTHONPATH=/tmp/wt/k11a /venv/bin/python -m pytest -q -p no:cacheprovider demo_k11a.py
It must pass on the unmodified code and with patch.diff applied.
"""

from __future__ import annotations

import asyncio
import contextlib
import gc
import logging
import os
import sys
import tempfile
import threading
import time
from unittest import mock

import aiohappyeyeballs

import aiohomekit
from aiohomekit import Controller, exceptions as hk
from aiohomekit.controller.ip import connection as conn_mod
from aiohomekit.controller.ip.pairing import IpPairing
from aiohomekit.model import Accessory
from aiohomekit.model.characteristics import CharacteristicsTypes
from aiohomekit.model.services import ServicesTypes
from aiohomekit.protocol import get_session_keys as real_get_session_keys
from aiohomekit.protocol.tlv import TLV

from tests.accessoryserver import AccessoryServer

STEP_TIMEOUT = 20.0
ON_CHAR = (1, 9)


# --------------------------------------------------------------------------
# client side socket ledger
# --------------------------------------------------------------------------
class Ledger:
    def __init__(self) -> None:
        self.socks: list = []
        self.times: list[float] = []
        self.max_open = 0
        self.samples = 0
        self.violations: list[tuple[str, int]] = []

    def reset(self) -> None:
        assert not self.open(), f"sockets left open by previous scenario: {self.open()}"
        self.socks.clear()
        self.times.clear()
        self.max_open = 0
        self.violations.clear()

    def open(self) -> list:
        return [s for s in self.socks if s.fileno() != -1]

    def sample(self, where: str) -> int:
        n = len(self.open())
        self.samples += 1
        self.max_open = max(self.max_open, n)
        if n > 1:
            self.violations.append((where, n))
        return n


LEDGER = Ledger()
_real_start_connection = aiohappyeyeballs.start_connection


async def recording_start_connection(*args, **kwargs):
    sock = await _real_start_connection(*args, **kwargs)
    LEDGER.socks.append(sock)
    LEDGER.times.append(time.monotonic())
    # At the very moment a new connection exists, every older one must be shut.
    LEDGER.sample("new socket")
    return sock


async def monitor() -> None:
    while True:
        LEDGER.sample("tick")
        await asyncio.sleep(0.001)


# --------------------------------------------------------------------------
# fault injecting proxy
# --------------------------------------------------------------------------
class Upstream(asyncio.Protocol):
    def __init__(self, client: ProxyConn) -> None:
        self.client = client

    def connection_made(self, transport) -> None:
        self.transport = transport

    def data_received(self, data: bytes) -> None:
        if self.client.open:
            self.client.transport.write(data)

    def connection_lost(self, exc) -> None:
        if self.client.open:
            self.client.transport.close()


class ProxyConn(asyncio.Protocol):
    """Accessory facing side of one controller connection."""

    def __init__(self, proxy: Proxy) -> None:
        self.proxy = proxy
        self.open = False
        self.requests = 0
        self.stall = False
        self.upstream: Upstream | None = None
        self.backlog: list[bytes] = []

    def connection_made(self, transport) -> None:
        self.transport = transport
        self.open = True
        self.local = transport.get_extra_info("sockname")[0]
        self.script = self.proxy.scripts.pop(0) if self.proxy.scripts else {}
        self.proxy.conns.append(self)
        if self.script.get("close_on_request") == 0:
            transport.close()
            return
        self.connect_task = asyncio.ensure_future(self._connect_upstream())

    async def _connect_upstream(self) -> None:
        loop = asyncio.get_running_loop()
        _, self.upstream = await loop.create_connection(lambda: Upstream(self), "127.0.0.1", self.proxy.accessory_port)
        if not self.open:
            self.upstream.transport.close()
            return
        for chunk in self.backlog:
            self.upstream.transport.write(chunk)
        self.backlog.clear()

    def data_received(self, data: bytes) -> None:
        self.requests += 1
        script = self.script
        if self.stall or script.get("stall_on_request") == self.requests:
            self.stall = True
            return
        if script.get("close_on_request") == self.requests:
            self.transport.close()
            return
        reply = script.get("reply_on_request", {}).get(self.requests)
        if reply is not None:
            self.transport.write(reply)
            return
        if self.upstream is None:
            self.backlog.append(data)
        else:
            self.upstream.transport.write(data)

    def connection_lost(self, exc) -> None:
        self.open = False
        if self.upstream is not None:
            self.upstream.transport.close()

    def peer_close(self) -> None:
        """The accessory closes the connection."""
        self.transport.close()


class Proxy:
    def __init__(self, accessory_port: int) -> None:
        self.accessory_port = accessory_port
        self.conns: list[ProxyConn] = []
        self.scripts: list[dict] = []

    async def start(self) -> None:
        loop = asyncio.get_running_loop()
        first = await loop.create_server(lambda: ProxyConn(self), host="127.0.0.1", port=0)
        self.port = first.sockets[0].getsockname()[1]
        second = await loop.create_server(lambda: ProxyConn(self), host="127.0.0.2", port=self.port)
        self.servers = [first, second]

    def reset(self, scripts: list[dict]) -> None:
        assert not self.open_conns(), "proxy still sees open connections from previous scenario"
        self.conns.clear()
        self.scripts = list(scripts)

    def open_conns(self) -> list[ProxyConn]:
        return [c for c in self.conns if c.open]

    async def stop(self) -> None:
        for server in self.servers:
            server.close()
        for conn in self.open_conns():
            conn.transport.close()


def http_reply(code: int, reason: str, body: bytes = b"") -> bytes:
    return (
        f"HTTP/1.1 {code} {reason}\r\nContent-Type: application/pairing+tlv8\r\nContent-Length: {len(body)}\r\n\r\n"
    ).encode() + body


def tlv_error_reply(state, error) -> bytes:
    return http_reply(200, "OK", TLV.encode_list([(TLV.kTLVType_State, state), (TLV.kTLVType_Error, error)]))


# --------------------------------------------------------------------------
# pair-verify state machine fault injection (wraps the real state machine)
# --------------------------------------------------------------------------
SESSION_SCRIPTS: list = []  # one entry per upcoming get_session_keys call: None or (exc, at_step)


def scripted_get_session_keys(pairing_data, *args, **kwargs):
    real = real_get_session_keys(pairing_data, *args, **kwargs)
    script = SESSION_SCRIPTS.pop(0) if SESSION_SCRIPTS else None
    if script is None:
        return real
    exc, at_step = script

    def machine():
        step = 0
        value = None
        while True:
            if step == at_step:
                raise exc
            try:
                request = real.send(value)
            except StopIteration as stop:
                return stop.value
            value = yield request
            step += 1

    return machine()


# --------------------------------------------------------------------------
# helpers
# --------------------------------------------------------------------------
async def until(predicate, what: str, timeout: float = STEP_TIMEOUT) -> None:
    deadline = time.monotonic() + timeout
    while not predicate():
        if time.monotonic() > deadline:
            raise AssertionError(f"timed out waiting for: {what}")
        await asyncio.sleep(0.002)


class Env:
    def __init__(self, proxy: Proxy) -> None:
        self.proxy = proxy
        self.controller = Controller()
        self.checks = 0

    def pairing(self, hosts=("127.0.0.1",)) -> IpPairing:
        data = {
            "Connection": "IP",
            "iOSDeviceLTPK": "d708df2fbf4a8779669f0ccd43f4962d6d49e4274f88b1292f822edc3bcf8ed8",
            "iOSPairingId": "decc6fa3-de3e-41c9-adba-ef7409821bfc",
            "AccessoryLTPK": "7986cf939de8986f428744e36ed72d86189bea46b4dcdc8d9d79a3e4fceb92b9",
            "AccessoryPairingID": "12:34:56:00:01:0A",
            "AccessoryPort": self.proxy.port,
            "AccessoryIP": hosts[0],
            "AccessoryIPs": list(hosts),
            "iOSDeviceLTSK": "fa45f082ef87efc6c8c8d043d74084a3ea923a2253e323a7eb9917b4090c2fcc",
        }
        return IpPairing(self.controller, data)

    def begin(self, proxy_scripts=(), session_scripts=()) -> None:
        LEDGER.reset()
        self.proxy.reset(list(proxy_scripts))
        SESSION_SCRIPTS[:] = list(session_scripts)

    def check(self, cond, msg: str) -> None:
        self.checks += 1
        if not cond:
            raise AssertionError(msg)

    def check_open(self, expected: int, where: str) -> None:
        n = LEDGER.sample(where)
        self.check(n == expected, f"{where}: expected {expected} open client socket(s), found {n}")
        self.check(not LEDGER.violations, f"{where}: more than one open connection seen: {LEDGER.violations}")

    async def read(self, pairing: IpPairing):
        return await asyncio.wait_for(pairing.get_characteristics([ON_CHAR]), STEP_TIMEOUT)

    async def read_retrying(self, pairing: IpPairing):
        """Read like a caller that simply tries again when told the accessory is (still) disconnected."""
        deadline = time.monotonic() + STEP_TIMEOUT
        while True:
            try:
                return await self.read(pairing)
            except hk.AccessoryDisconnectedError:
                if time.monotonic() > deadline:
                    raise
                await asyncio.sleep(0.01)

    async def read_ok(self, pairing: IpPairing, where: str) -> None:
        result = await self.read(pairing)
        self.check(ON_CHAR in result and "value" in result[ON_CHAR], f"{where}: unexpected read result {result}")

    async def skip_backoff(self, pairing: IpPairing) -> None:
        """Use the public reconnect_soon() API to end the connector's backoff wait early."""
        connection = pairing.connection
        await until(
            lambda: connection._reconnect_future is not None or connection.is_connected,
            "connector to enter its backoff wait",
        )
        if not connection.is_connected:
            connection.reconnect_soon()

    async def close_and_verify(self, pairing: IpPairing, where: str) -> None:
        """pairing.close() must not raise and must leave nothing open the moment it returns."""
        try:
            await asyncio.wait_for(pairing.close(), STEP_TIMEOUT)
        except BaseException as ex:  # noqa: BLE001
            raise AssertionError(f"{where}: close() raised {ex!r}") from ex
        self.check_open(0, f"{where}: right after close() returned")
        self.check(not pairing.is_connected, f"{where}: still connected after close()")
        # and the accessory side agrees once the FIN has travelled
        await until(lambda: not self.proxy.open_conns(), f"{where}: accessory side to see every connection closed")
        # nothing comes back to life afterwards
        await asyncio.sleep(0.05)
        self.check_open(0, f"{where}: 50ms after close()")
        self.check(not self.proxy.open_conns(), f"{where}: accessory side sees a connection after close()")


# --------------------------------------------------------------------------
# scenarios
# --------------------------------------------------------------------------
STATE_MACHINE_ERRORS = [
    hk.AuthenticationError,
    hk.IncorrectPairingIdError,
    hk.InvalidAuthTagError,
    hk.InvalidSignatureError,
    hk.InvalidError,
    hk.IllegalData,
    hk.UnavailableError,
    hk.BusyError,
    hk.BackoffError,
    hk.MaxPeersError,
    hk.MaxTriesError,
    hk.UnknownError,
    hk.AccessoryDisconnectedError,
    hk.TimeoutError,
    hk.EncryptionError,
    RuntimeError,
    ValueError,
    KeyError,
    asyncio.TimeoutError,
    OSError,
]


async def failed_verify_then_retry(env: Env, name: str, proxy_script=None, session_script=None, ends_connector=False):
    """One attempt whose secure-session setup fails in the given way, a retry that works, then close."""
    env.begin([proxy_script or {}], [session_script])
    pairing = env.pairing()
    if ends_connector:
        # AuthenticationError ends the connector: the caller sees it and retries himself
        try:
            await env.read(pairing)
        except hk.AuthenticationError:
            pass
        else:
            raise AssertionError(f"{name}: expected AuthenticationError")
        env.check(pairing.connection._connector.done(), f"{name}: connector should have ended")
        await asyncio.sleep(0)
        env.check_open(0, f"{name}: after the failed attempt")
        await env.read_ok(pairing, name)
    else:
        reader = asyncio.ensure_future(env.read_retrying(pairing))
        await env.skip_backoff(pairing)
        result = await reader
        env.check(ON_CHAR in result, f"{name}: unexpected read result {result}")
    env.check(len(LEDGER.socks) == 2, f"{name}: expected 2 connection attempts, saw {len(LEDGER.socks)}")
    env.check_open(1, f"{name}: after the retry")
    env.check(LEDGER.socks[0].fileno() == -1, f"{name}: the failed connection was leaked")
    await until(lambda: len(env.proxy.open_conns()) == 1, f"{name}: accessory side to see exactly one connection")
    await env.read_ok(pairing, name)
    await env.close_and_verify(pairing, name)


async def scenario_verify_failures(env: Env) -> int:
    count = 0
    for exc_class in STATE_MACHINE_ERRORS:
        for step in (1, 2):
            name = f"pair-verify raises {exc_class.__name__} after response {step}"
            await failed_verify_then_retry(
                env,
                name,
                session_script=(exc_class(f"injected at step {step}"), step),
                ends_connector=exc_class is hk.AuthenticationError,
            )
            count += 1
    for request in (0, 1, 2):
        await failed_verify_then_retry(
            env, f"peer closes at request {request}", proxy_script={"close_on_request": request}
        )
        count += 1
    replies = {
        "HTTP 470": (lambda state: http_reply(470, "Connection Authorization Required"), False),
        "HTTP 400": (lambda state: http_reply(400, "Bad Request"), False),
        "HTTP 500": (lambda state: http_reply(500, "Internal Server Error"), False),
        "TLV Busy": (lambda state: tlv_error_reply(state, TLV.kTLVError_Busy), False),
        "TLV MaxPeers": (lambda state: tlv_error_reply(state, TLV.kTLVError_MaxPeers), False),
        "TLV Unavailable": (lambda state: tlv_error_reply(state, TLV.kTLVError_Unavailable), False),
        "TLV Authentication": (lambda state: tlv_error_reply(state, TLV.kTLVError_Authentication), True),
    }
    for label, (make_reply, ends) in replies.items():
        for request, state in ((1, TLV.M2), (2, TLV.M4)):
            if label == "HTTP 500" and request == 2:
                # An empty M4 without error is accepted by the state machine and a 5xx does not make the
                # controller close, so this is not a failed setup (the session merely has unusable keys).
                continue
            await failed_verify_then_retry(
                env,
                f"peer answers request {request} with {label}",
                proxy_script={"reply_on_request": {request: make_reply(state)}},
                ends_connector=ends,
            )
            count += 1
    return count


async def scenario_close_states(env: Env) -> int:
    # a) never used
    env.begin()
    pairing = env.pairing()
    await env.close_and_verify(pairing, "close of a never used pairing")
    env.check(len(LEDGER.socks) == 0, "close of a never used pairing connected")

    # b) connected, close twice, reuse, close again
    env.begin()
    pairing = env.pairing()
    await env.read_ok(pairing, "close when connected")
    env.check_open(1, "close when connected: before")
    await env.close_and_verify(pairing, "close when connected")
    await env.close_and_verify(pairing, "second close")
    await env.read_ok(pairing, "reuse after close")
    env.check_open(1, "reuse after close")
    env.check(len(LEDGER.socks) == 2, "reuse after close: expected exactly one new connection")
    await env.close_and_verify(pairing, "close after reuse")

    # c) connector ended with AuthenticationError (both ways of getting there), no retry
    for label, proxy_script, session_script in (
        ("state machine", {}, (hk.AuthenticationError("injected"), 1)),
        ("TLV error from peer", {"reply_on_request": {1: tlv_error_reply(TLV.M2, TLV.kTLVError_Authentication)}}, None),
    ):
        env.begin([proxy_script], [session_script])
        pairing = env.pairing()
        with contextlib.suppress(hk.AuthenticationError):
            await env.read(pairing)
            raise AssertionError("expected AuthenticationError")
        connector = pairing.connection._connector
        env.check(connector.done() and isinstance(connector.exception(), hk.AuthenticationError), "connector state")
        await env.close_and_verify(pairing, f"close after AuthenticationError ({label})")
        await env.close_and_verify(pairing, f"second close after AuthenticationError ({label})")

    # d) close while the connector is in the middle of pair-verify (accessory never answers)
    for request in (1, 2):
        env.begin([{"stall_on_request": request}])
        pairing = env.pairing()
        reader = asyncio.ensure_future(env.read(pairing))
        await until(
            lambda: env.proxy.conns and env.proxy.conns[0].requests >= request,
            f"accessory to receive pair-verify request {request}",
        )
        env.check_open(1, f"close during pair-verify request {request}: before")
        await env.close_and_verify(pairing, f"close during pair-verify request {request}")
        with contextlib.suppress(asyncio.CancelledError, hk.HomeKitException):
            await reader
        env.check_open(0, f"close during pair-verify request {request}: after the caller unwound")

    # e) close while the connector waits in its backoff after a failed attempt
    env.begin([{"close_on_request": 1}])
    pairing = env.pairing()
    reader = asyncio.ensure_future(env.read(pairing))
    await until(lambda: pairing.connection._reconnect_future is not None, "connector to enter backoff")
    await env.close_and_verify(pairing, "close during backoff")
    with contextlib.suppress(asyncio.CancelledError, hk.HomeKitException):
        await reader
    env.check(len(LEDGER.socks) == 1, "close during backoff: a new attempt was made")

    # f) close in the same loop iteration the connector was started in
    env.begin()
    pairing = env.pairing()
    reader = asyncio.ensure_future(env.read(pairing))
    await asyncio.sleep(0)
    await env.close_and_verify(pairing, "close right after the connector was started")
    with contextlib.suppress(asyncio.CancelledError, hk.HomeKitException):
        await reader
    await asyncio.sleep(0.05)
    env.check_open(0, "close right after the connector was started: later")
    return 9


async def scenario_peer_closes_and_stale_loss(env: Env) -> int:
    env.begin()
    pairing = env.pairing()
    connection = pairing.connection
    await env.read_ok(pairing, "stale: first connection")
    proto_a, transport_a = connection.protocol, connection.transport

    # peer closes the connection in use -> the controller replaces it on its own
    env.proxy.conns[0].peer_close()
    await until(lambda: len(LEDGER.socks) == 2 and connection.is_connected, "automatic reconnect (B)")
    env.check_open(1, "stale: after reconnect B")
    proto_b, transport_b = connection.protocol, connection.transport
    env.check(transport_b is not transport_a and proto_b is not proto_a, "stale: B should be a new connection")

    # a late (duplicate) loss notification of abandoned A must not disturb B
    proto_a.connection_lost(ConnectionResetError("late loss of A"))
    await asyncio.sleep(0.05)
    env.check(connection.transport is transport_b and connection.protocol is proto_b, "stale: loss of A replaced B")
    env.check(connection.is_connected and not transport_b.is_closing(), "stale: loss of A tore down B")
    env.check(len(LEDGER.socks) == 2, "stale: loss of A triggered a new connection attempt")
    await env.read_ok(pairing, "stale: read on B after loss of A")

    # peer closes B -> C; then losses of B and A (in that order) arrive late
    env.proxy.conns[1].peer_close()
    await until(lambda: len(LEDGER.socks) == 3 and connection.is_connected, "automatic reconnect (C)")
    proto_c, transport_c = connection.protocol, connection.transport
    proto_b.connection_lost(None)
    proto_a.connection_lost(OSError("again"))
    await asyncio.sleep(0.05)
    env.check(connection.transport is transport_c and connection.protocol is proto_c, "stale: old losses replaced C")
    env.check(len(LEDGER.socks) == 3, "stale: old losses triggered a new connection attempt")
    env.check_open(1, "stale: after late losses of B and A")
    await env.read_ok(pairing, "stale: read on C")

    # the caller abandons a request in flight: that connection is closed and replaced
    env.proxy.conns[2].stall = True
    seen = env.proxy.conns[2].requests
    reader = asyncio.ensure_future(env.read(pairing))
    await until(lambda: env.proxy.conns[2].requests > seen, "accessory to receive the request that will be abandoned")
    reader.cancel()
    with contextlib.suppress(asyncio.CancelledError):
        await reader
    await until(lambda: len(LEDGER.socks) == 4 and connection.is_connected, "automatic reconnect (D)")
    env.check_open(1, "stale: after abandoned request")
    env.check(LEDGER.socks[2].fileno() == -1, "stale: abandoned connection C was leaked")
    await env.read_ok(pairing, "stale: read on D")

    # peer closes D and we close while the replacement is being set up
    env.proxy.scripts.append({"stall_on_request": 2})
    env.proxy.conns[3].peer_close()
    await until(lambda: len(env.proxy.conns) == 5 and env.proxy.conns[4].requests >= 2, "replacement E mid-verify")
    env.check_open(1, "stale: replacement E in setup")
    await env.close_and_verify(pairing, "close while replacing a peer-closed connection")
    env.check(len(LEDGER.socks) == 5, "unexpected number of connection attempts")
    return 1


async def scenario_wrong_accessory_immediate_retry(env: Env) -> int:
    """Two advertised addresses: the first answers with the wrong pairing id, the retry is immediate, so the
    loss of the dropped connection is delivered while its replacement is being set up."""
    env.begin([], [(hk.IncorrectPairingIdError("step 3"), 1)])
    pairing = env.pairing(hosts=("127.0.0.1", "127.0.0.2"))
    await env.read_ok(pairing, "wrong accessory")
    env.check(len(LEDGER.socks) == 2, "wrong accessory: expected 2 attempts")
    # the shortest backoff is 0.5s
    env.check(LEDGER.times[1] - LEDGER.times[0] < 0.45, "wrong accessory: retry was not immediate")
    env.check([c.local for c in env.proxy.conns] == ["127.0.0.1", "127.0.0.2"], "wrong accessory: address order")
    env.check_open(1, "wrong accessory: after retry")
    env.check(LEDGER.socks[0].fileno() == -1, "wrong accessory: first connection leaked")
    await until(lambda: len(env.proxy.open_conns()) == 1, "wrong accessory: accessory side sees one connection")
    await env.close_and_verify(pairing, "wrong accessory")
    return 1


async def scenario_resubscribe_fails(env: Env) -> int:
    """Setup fails after pair-verify: the peer closes while the controller re-subscribes."""
    env.begin()
    pairing = env.pairing()
    await env.read_ok(pairing, "resubscribe")
    await asyncio.wait_for(pairing.subscribe([ON_CHAR]), STEP_TIMEOUT)
    env.check(pairing.subscriptions == {ON_CHAR}, "resubscribe: subscription not recorded")
    # the replacement connection is closed by the peer at its third request (the re-subscribe)
    env.proxy.scripts.append({"close_on_request": 3})
    env.proxy.conns[0].peer_close()
    await until(lambda: len(LEDGER.socks) >= 3 and pairing.connection.is_connected, "reconnect after failed re-subscribe")
    env.check_open(1, "resubscribe: after recovery")
    await env.read_ok(pairing, "resubscribe: read after recovery")
    env.check(len(LEDGER.socks) == 3, f"resubscribe: expected 3 attempts, saw {len(LEDGER.socks)}")
    await env.close_and_verify(pairing, "resubscribe")
    return 1


# --------------------------------------------------------------------------
# set up / main
# --------------------------------------------------------------------------
ACCESSORY_CONFIG = """{
    "accessory_ltpk": "7986cf939de8986f428744e36ed72d86189bea46b4dcdc8d9d79a3e4fceb92b9",
    "accessory_ltsk": "3d99f3e959a1f93af4056966f858074b2a1fdec1c5fd84a51ea96f9fa004156a",
    "accessory_pairing_id": "12:34:56:00:01:0A",
    "accessory_pin": "031-45-154",
    "c#": 1,
    "category": "Lightbulb",
    "host_ip": "127.0.0.1",
    "host_port": %d,
    "name": "unittestLight",
    "peers": {
        "decc6fa3-de3e-41c9-adba-ef7409821bfc": {
            "admin": true,
            "key": "d708df2fbf4a8779669f0ccd43f4962d6d49e4274f88b1292f822edc3bcf8ed8"
        }
    },
    "unsuccessful_tries": 0
}"""


def free_port() -> int:
    import socket

    with socket.socket() as s:
        s.bind(("127.0.0.1", 0))
        return s.getsockname()[1]


def start_accessory() -> tuple[AccessoryServer, threading.Thread, str, int]:
    port = free_port()
    config = tempfile.NamedTemporaryFile("w", suffix=".json", delete=False)
    config.write(ACCESSORY_CONFIG % port)
    config.close()
    # the accessory server only needs zeroconf to publish itself, which we never do: keep multicast out of it
    with mock.patch("tests.accessoryserver.Zeroconf"):
        httpd = AccessoryServer(config.name, None)
    accessory = Accessory.create_with_info(1, "Testlicht", "lusiardi.de", "Demoserver", "0001", "0.1")
    bulb = accessory.add_service(ServicesTypes.LIGHTBULB)
    bulb.add_char(CharacteristicsTypes.ON, value=False)
    httpd.add_accessory(accessory)
    thread = threading.Thread(target=httpd.serve_forever, daemon=True)
    thread.start()
    return httpd, thread, config.name, port


async def main() -> int:
    print(f"aiohomekit from {aiohomekit.__file__}")
    logging.getLogger("aiohomekit").setLevel(logging.CRITICAL)
    logging.getLogger("asyncio").setLevel(logging.CRITICAL)

    loop = asyncio.get_running_loop()
    loop_errors: list[dict] = []
    loop.set_exception_handler(lambda _loop, context: loop_errors.append(context))

    httpd, thread, config_name, accessory_port = start_accessory()
    proxy = Proxy(accessory_port)
    await proxy.start()
    env = Env(proxy)
    monitor_task = asyncio.ensure_future(monitor())
    failures = 0
    try:
        with (
            mock.patch.object(aiohappyeyeballs, "start_connection", recording_start_connection),
            mock.patch.object(conn_mod, "get_session_keys", scripted_get_session_keys),
        ):
            for scenario in (
                scenario_close_states,
                scenario_peer_closes_and_stale_loss,
                scenario_wrong_accessory_immediate_retry,
                scenario_resubscribe_fails,
                scenario_verify_failures,
            ):
                started = time.monotonic()
                try:
                    n = await scenario(env)
                except Exception as ex:  # noqa: BLE001
                    failures += 1
                    print(f"FAIL {scenario.__name__}: {type(ex).__name__}: {ex}")
                    # clean up whatever the failed scenario left behind so the next one starts clean
                    for sock in LEDGER.open():
                        sock.close()
                    for conn in proxy.open_conns():
                        conn.transport.abort()
                    await asyncio.sleep(0.1)
                else:
                    print(f"ok   {scenario.__name__}: {n} case(s) in {time.monotonic() - started:.1f}s")
    finally:
        monitor_task.cancel()
        await proxy.stop()
        await loop.run_in_executor(None, httpd.shutdown)
        os.unlink(config_name)

    gc.collect()
    await asyncio.sleep(0.05)
    # Errors reported to the loop's exception handler are shown for information. A peer answering with
    # garbage is not part of this demo, so none are expected.
    for context in loop_errors:
        print(f"note: loop exception handler got: {context.get('message')!r} {context.get('exception')!r}")
    if loop_errors:
        failures += 1
    print(f"{env.checks} checks, {LEDGER.samples} samples of the open-socket count, {failures} failing scenario(s)")
    print("DEMO PASSED" if not failures else "DEMO FAILED")
    return 1 if failures else 0


def test_demo() -> None:
    assert asyncio.run(main()) == 0


if __name__ == "__main__":
    sys.exit(asyncio.run(main()))
