"""demo_k13a.py - C13 demonstration for the k13a change.

Exercises IpPairing.get_characteristics / put_characteristics (and with them
format_characteristic_list and to_status_code) against a REAL peer:

  * real asyncio event loop, real loopback TCP sockets,
  * the HomeKit accessory server from tests/accessoryserver.py running in a
    thread (real pair-verify, real ChaCha20-Poly1305 session encryption),
  * only GET/PUT /characteristics are scripted, so that the "accessory" can
    answer with any status vector / malformed reply the property quantifies
    over, drop the connection, refuse with a bare 4xx/5xx, or answer late.

The checks are an oracle written from the property text (C13), not from the
code: it must pass both on the unmodified code and with the change applied.

Run:  PYTHONPATH=/tmp/wt/k13a /venv/bin/python demo_k13a.py
Exit code 0 and a final line "DEMO k13a: PASS" mean success.  Lines starting
with "MECHANICS" are informational only (they differ between the two
versions of the code; nothing is asserted about them).
"""

from __future__ import annotations

import asyncio
import copy
import hashlib
import json
import logging
import os
import random
import socket
import sys
import tempfile
import threading
import time
from unittest.mock import AsyncMock, MagicMock, patch

sys.path.insert(0, os.path.dirname(os.path.abspath(__file__)))

from zeroconf import DNSCache, SignalRegistrationInterface  # noqa: E402

import aiohomekit  # noqa: E402
from aiohomekit import Controller  # noqa: E402
from aiohomekit.exceptions import AccessoryDisconnectedError, HttpErrorResponse  # noqa: E402
from aiohomekit.model import Accessories, Accessory  # noqa: E402
from aiohomekit.model.characteristics import CharacteristicsTypes  # noqa: E402
from aiohomekit.model.services import ServicesTypes  # noqa: E402
from aiohomekit.protocol.statuscodes import HapStatusCode, to_status_code  # noqa: E402

import tests.accessoryserver as accessoryserver  # noqa: E402
from tests.accessoryserver import AccessoryRequestHandler, AccessoryServer  # noqa: E402

logging.disable(logging.CRITICAL)

SEED = 13_013
RANDOM_WRITE_CASES = 400
RANDOM_READ_CASES = 200

DEFINED = [c.value for c in HapStatusCode if c not in (HapStatusCode.SUCCESS, HapStatusCode.UNKNOWN)]
POSITIVE = [-v for v in DEFINED]  # some accessories send the codes with a positive sign
UNKNOWN = [-70499, 70500, 5, -1, 1, -70400, 99999]
NONZERO = DEFINED + POSITIVE + UNKNOWN
MALFORMED = [True, False, None, 5, "x", [], [1, 9], {"status": -70402}, {"aid": 1, "status": -70402}, {"iid": 9}]


# --------------------------------------------------------------------------
# the scripted peer
# --------------------------------------------------------------------------
class Script:
    """What the accessory answers to the next GET/PUT /characteristics."""

    def __init__(self) -> None:
        self.action = None
        self.trace: list[tuple] = []

    def arm(self, action) -> None:
        self.action = action
        self.trace = []


SCRIPT = Script()


def _respond(handler: AccessoryRequestHandler) -> None:
    action = SCRIPT.action
    if action[0] == "delay":
        time.sleep(action[1])
        action = action[2]
    if action[0] == "drop":
        # the accessory dies without answering
        try:
            handler.connection.shutdown(socket.SHUT_RDWR)
        except OSError:
            pass
        handler.close_connection = True
        return
    _, code, body = action
    handler.send_response(code)
    if body is None:
        handler.end_headers()
    else:
        data = body if isinstance(body, bytes) else json.dumps(body).encode()
        handler.send_header("Content-Type", "application/hap+json")
        handler.send_header("Content-Length", len(data))
        handler.end_headers()
        handler.wfile.write(data)
    SCRIPT.trace.append(("peer-replied", code))


def scripted_put(handler: AccessoryRequestHandler) -> None:
    SCRIPT.trace.append(("peer-got-PUT", json.loads(handler.body.decode())))
    _respond(handler)


def scripted_get(handler: AccessoryRequestHandler) -> None:
    SCRIPT.trace.append(("peer-got-GET", handler.path))
    _respond(handler)


class QuietServer(AccessoryServer):
    def handle_error(self, request, client_address):  # a late reply into a closed socket
        pass


def free_port() -> int:
    s = socket.socket(socket.AF_INET, socket.SOCK_STREAM)
    s.bind(("127.0.0.1", 0))
    port = s.getsockname()[1]
    s.close()
    return port


class AsyncServiceBrowserStub:
    types = ["_hap._tcp.local.", "_hap._udp.local."]

    def __init__(self, *a, **k):
        self._handlers = []
        self.service_state_changed = SignalRegistrationInterface(self._handlers)


def build_accessories() -> list[Accessory]:
    accessories = []
    for aid in (1, 2):
        acc = Accessory.create_with_info(aid, f"Light{aid}", "demo", "k13a", "0001", "0.1")
        bulb = acc.add_service(ServicesTypes.LIGHTBULB)
        bulb.add_char(CharacteristicsTypes.ON, value=False)  # pr pw ev
        bulb.add_char(CharacteristicsTypes.BRIGHTNESS, value=0)  # pr pw ev
        lock = acc.add_service(ServicesTypes.LOCK_MECHANISM)
        lock.add_char(CharacteristicsTypes.LOCK_MECHANISM_TARGET_STATE, value=0, perms=["pr", "pw", "ev", "tw"])
        lock.add_char(CharacteristicsTypes.LOCK_MECHANISM_CURRENT_STATE, value=0, perms=["pw", "tw"])  # write only
        accessories.append(acc)
    return accessories


# --------------------------------------------------------------------------
# the oracle (written from the property text)
# --------------------------------------------------------------------------
class Failure(AssertionError):
    pass


def check(cond: bool, msg: str, *ctx) -> None:
    if not cond:
        raise Failure(msg + " | " + " | ".join(repr(c) for c in ctx))


def wellformed(reply) -> list[dict]:
    if not isinstance(reply, dict):
        return []
    return [e for e in reply.get("characteristics", []) if isinstance(e, dict) and "aid" in e and "iid" in e]


def check_write(writes, readable, reply, result, notified_calls) -> None:
    """reply is None for a 204, else the decoded 207 body."""
    ctx = (writes, reply, result, notified_calls)
    global_status = reply.get("status", 0) if reply else 0
    per_key: dict[tuple[int, int], list[int]] = {}
    for e in wellformed(reply):
        per_key.setdefault((e["aid"], e["iid"]), []).append(e["status"])

    notified: dict[tuple[int, int], object] = {}
    for call in notified_calls:
        for key, val in call.items():
            check(key not in notified, "characteristic notified twice", key, *ctx)
            notified[key] = val

    value_of = {(aid, iid): value for aid, iid, value in writes}
    expect_notified = set()
    for key in value_of:
        statuses = per_key.get(key)
        if statuses is None:
            rejected_with = [global_status] if global_status != 0 else []
            accepted = global_status == 0
        else:
            rejected_with = [s for s in statuses if s != 0]
            accepted = not rejected_with
        if accepted:
            # no accepted one is reported with a non-zero status
            check(key not in result or result[key].get("status", 0) == 0, "accepted reported as failed", key, *ctx)
            if key in readable:
                expect_notified.add(key)
        else:
            # never presented as written
            check(key not in notified, "rejected characteristic notified to listeners", key, *ctx)
            check(key in result, "rejected characteristic missing from the result", key, *ctx)
            ambiguous = statuses is not None and len(set(statuses)) > 1  # contradicting duplicates
            allowed = statuses if ambiguous else rejected_with
            check(result[key]["status"] in allowed, "rejected characteristic has the wrong status", key, *ctx)
            if result[key]["status"] != 0:
                check(
                    result[key]["description"] == to_status_code(result[key]["status"]).description,
                    "wrong description",
                    key,
                    *ctx,
                )
    check(set(notified) == expect_notified, "listeners not notified for exactly accepted+readable", expect_notified, *ctx)
    for key in expect_notified:
        check(notified[key] == {"value": value_of[key]}, "listener got the wrong value", key, *ctx)


def check_read(requested, reply, result, url) -> None:
    ctx = (requested, reply, result, url)
    # what the peer saw: every requested id exactly once, nothing else
    ids = url.split("?id=")[1].split(",")
    seen = [tuple(int(x) for x in i.split(".")) for i in ids]
    check(len(seen) == len(set(seen)), "duplicate id in request", *ctx)
    check(set(seen) == set(requested), "request does not ask for the requested set", *ctx)

    global_status = reply.get("status", 0)
    last: dict[tuple[int, int], dict] = {}
    for e in wellformed(reply):
        last[(e["aid"], e["iid"])] = e
    for key in set(requested):
        if key in last:
            e = last[key]
            check(key in result, "mentioned characteristic missing from result", key, *ctx)
            if e.get("status", 0) != 0:
                check(result[key].get("status") == e["status"], "wrong error status", key, *ctx)
                check("value" not in result[key] or "value" in e, "value invented", key, *ctx)
                check(bool(result[key].get("description")), "no description", key, *ctx)
            else:
                check("status" not in result[key], "success reported with a status", key, *ctx)
                check(result[key].get("value") == e.get("value"), "wrong value", key, *ctx)
        elif global_status != 0:
            check(key in result, "request-wide error not applied", key, *ctx)
            check(result[key].get("status") == global_status, "request-wide error: wrong status", key, *ctx)
            check("value" not in result[key], "value invented", key, *ctx)


# --------------------------------------------------------------------------
# case generators
# --------------------------------------------------------------------------
def gen_request(rng: random.Random, pool) -> list[tuple[int, int, object]]:
    n = rng.randint(1, 4)
    chosen = rng.sample(pool, n)
    return [(aid, iid, rng.choice([True, False, 0, 1, 2, 50, 100])) for aid, iid in chosen]


def gen_status(rng: random.Random, p_ok: float = 0.5) -> int:
    return 0 if rng.random() < p_ok else rng.choice(NONZERO)


def gen_write_reply(rng: random.Random, writes, pool):
    """Returns (code, body-or-None)."""
    keys = [(a, i) for a, i, _ in writes]
    form = rng.choice(
        ["204", "full", "full", "shuffled", "global+partial", "global-only", "global0+full", "missing",
         "dup-same", "dup-mixed", "malformed", "extra", "kitchen-sink"]
    )  # fmt: skip
    if form == "204":
        return 204, None
    entries = [{"aid": a, "iid": i, "status": gen_status(rng)} for a, i in keys]
    body: dict = {"characteristics": entries}
    if form == "shuffled":
        rng.shuffle(entries)
    elif form == "global+partial":
        body["status"] = rng.choice(NONZERO)
        body["characteristics"] = [e for e in entries if rng.random() < 0.5]
    elif form == "global-only":
        body = {"status": rng.choice(NONZERO)}
    elif form == "global0+full":
        body["status"] = 0
    elif form == "missing":
        body["characteristics"] = [e for e in entries if rng.random() < 0.6]
    elif form == "dup-same":
        e = rng.choice(entries)
        entries.insert(rng.randrange(len(entries) + 1), dict(e))
    elif form == "dup-mixed":
        e = rng.choice(entries)
        entries.insert(rng.randrange(len(entries) + 1), {"aid": e["aid"], "iid": e["iid"], "status": gen_status(rng)})
    elif form == "malformed":
        for _ in range(rng.randint(1, 3)):
            entries.insert(rng.randrange(len(entries) + 1), copy.deepcopy(rng.choice(MALFORMED)))
    elif form == "extra":
        others = [k for k in pool if k not in keys]
        a, i = rng.choice(others)
        entries.insert(rng.randrange(len(entries) + 1), {"aid": a, "iid": i, "status": gen_status(rng)})
    elif form == "kitchen-sink":
        if rng.random() < 0.5:
            body["status"] = rng.choice(NONZERO + [0])
        kept = [e for e in entries if rng.random() < 0.7]
        for _ in range(rng.randint(0, 2)):
            kept.insert(rng.randrange(len(kept) + 1), copy.deepcopy(rng.choice(MALFORMED)))
        if kept and rng.random() < 0.5:
            real = [e for e in kept if isinstance(e, dict) and "aid" in e and "iid" in e]
            if real:
                kept.append(dict(rng.choice(real)))
        rng.shuffle(kept)
        body["characteristics"] = kept
    return 207, body


def gen_read_reply(rng: random.Random, keys):
    entries = []
    for a, i in keys:
        r = rng.random()
        if r < 0.5:
            entries.append({"aid": a, "iid": i, "value": rng.choice([True, False, 0, 7, 23.5, "txt"])})
        elif r < 0.6:
            entries.append({"aid": a, "iid": i, "value": 3, "status": 0})
        else:
            entries.append({"aid": a, "iid": i, "status": rng.choice(NONZERO)})
    body: dict = {"characteristics": entries}
    form = rng.choice(["full", "full", "shuffled", "global+partial", "global-only", "global+empty", "malformed", "dup"])
    if form == "shuffled":
        rng.shuffle(entries)
    elif form == "global+partial":
        body["status"] = rng.choice(NONZERO)
        body["characteristics"] = [e for e in entries if rng.random() < 0.5]
    elif form == "global-only":
        body = {"status": rng.choice(NONZERO)}
    elif form == "global+empty":
        body = {"status": rng.choice(NONZERO), "characteristics": []}
    elif form == "malformed":
        for _ in range(rng.randint(1, 3)):
            entries.insert(rng.randrange(len(entries) + 1), copy.deepcopy(rng.choice(MALFORMED)))
    elif form == "dup":
        entries.append(dict(rng.choice(entries)))
    code = 200 if all(isinstance(e, dict) and "value" in e for e in body.get("characteristics", [])) else 207
    return code, body


# --------------------------------------------------------------------------
# the demonstration
# --------------------------------------------------------------------------
async def run(pairing, pool, readable) -> dict:
    rng = random.Random(SEED)
    stats = {"writes": 0, "reads": 0, "faults": 0, "notified": 0, "rejected": 0}
    digest = hashlib.sha256()  # over every returned dict and every listener call, to compare two runs

    def record(*things) -> None:
        digest.update(repr(things).encode())
    calls: list[dict] = []

    def listener(update: dict) -> None:
        if not update:
            return  # the empty "connection is back" ping after a reconnect carries no values
        calls.append(copy.deepcopy(update))
        SCRIPT.trace.append(("listener", sorted(update)))

    await pairing.list_accessories_and_characteristics()
    assert pairing.accessories is not None
    pairing.dispatcher_connect(listener)

    async def one_write(writes, code, body, as_iterator=False):
        SCRIPT.arm(("reply", code, body))
        calls.clear()
        arg = iter(list(writes)) if as_iterator else list(writes)
        result = await pairing.put_characteristics(arg)
        # what the peer received is what was asked, in order
        got = [t for t in SCRIPT.trace if t[0] == "peer-got-PUT"]
        check(len(got) == 1, "not exactly one PUT", SCRIPT.trace)
        sent = [(c["aid"], c["iid"], c["value"]) for c in got[0][1]["characteristics"]]
        check(sent == list(writes), "PUT body does not carry the request", sent, writes)
        check(set(got[0][1]) == {"characteristics"}, "unexpected keys in the PUT body", got[0][1])
        check_write(writes, readable, body if code != 204 else None, result, list(calls))
        record("w", sorted(result.items(), key=repr), [sorted(c.items(), key=repr) for c in calls])
        stats["writes"] += 1
        stats["notified"] += sum(len(c) for c in calls)
        stats["rejected"] += sum(1 for v in result.values() if v.get("status", 0) != 0)
        return result

    # 1. every status, alone, on a readable / write-only / timed-write characteristic
    kinds = {"readable": pool[0], "timed-write": pool[2], "write-only": pool[3]}
    for kind, (aid, iid) in kinds.items():
        for status in [0] + NONZERO:
            await one_write([(aid, iid, 1)], 207, {"characteristics": [{"aid": aid, "iid": iid, "status": status}]})
            if status != 0:
                await one_write([(aid, iid, 1)], 207, {"status": status})  # only a request-wide status
        await one_write([(aid, iid, 1)], 204, None)

    # 2. hand-written mixed multi-status replies over two accessories
    w = [(1, pool[0][1], True), (2, pool[4][1], 50), (1, pool[3][1], 1), (2, pool[6][1], 1)]
    k = [(a, i) for a, i, _ in w]
    mixed = {
        "characteristics": [
            {"aid": k[0][0], "iid": k[0][1], "status": 0},
            {"aid": k[1][0], "iid": k[1][1], "status": -70402},
            {"aid": k[2][0], "iid": k[2][1], "status": 70410},
            {"aid": k[3][0], "iid": k[3][1], "status": 0},
        ]
    }
    r = await one_write(w, 207, mixed)
    check(calls == [{k[0]: {"value": True}, k[3]: {"value": 1}}], "mixed reply: wrong notification", calls)
    check(r[k[1]]["status"] == -70402 and r[k[2]]["status"] == 70410, "mixed reply: wrong statuses", r)
    r = await one_write(w, 207, {"status": -70403, "characteristics": [mixed["characteristics"][0], True, {"iid": 3}]})
    check(calls == [{k[0]: {"value": True}}], "global+partial: wrong notification", calls)
    check(all(r[x]["status"] == -70403 for x in k[1:]), "global+partial: wrong statuses", r)
    await one_write(w, 207, mixed, as_iterator=True)  # the argument may be a one-shot iterable
    await one_write(w, 204, None, as_iterator=True)
    check(calls == [{k[0]: {"value": True}, k[1]: {"value": 50}, k[3]: {"value": 1}}], "204: wrong notification", calls)

    # 3. random status vectors and reply shapes
    for _ in range(RANDOM_WRITE_CASES):
        writes = gen_request(rng, pool)
        code, body = gen_write_reply(rng, writes, pool)
        await one_write(writes, code, body, as_iterator=rng.random() < 0.2)

    # 4. reads
    async def one_read(requested, code, body, as_set=False):
        SCRIPT.arm(("reply", code, body))
        calls.clear()
        result = await pairing.get_characteristics(set(requested) if as_set else list(requested))
        got = [t for t in SCRIPT.trace if t[0] == "peer-got-GET"]
        check(len(got) == 1, "not exactly one GET", SCRIPT.trace)
        check_read(requested, body, result, got[0][1])
        check(calls == [], "a read notified listeners", calls)
        record("r", sorted(result.items(), key=repr))
        stats["reads"] += 1
        return got[0][1]

    for _ in range(RANDOM_READ_CASES):
        keys = rng.sample(pool, rng.randint(1, 4))
        code, body = gen_read_reply(rng, keys)
        requested = list(keys)
        if rng.random() < 0.2:
            requested.append(rng.choice(keys))  # the caller repeats an id
        await one_read(requested, code, body, as_set=rng.random() < 0.3)
    descending = sorted(pool, reverse=True)[:4]
    url = await one_read(descending, 207, {"status": -70402, "characteristics": []})
    print("MECHANICS read of", descending, "-> request line", url)

    # 5. MECHANICS (informational): order of peer / model / listener steps for one mixed write
    lookups_before_put = lookups_after_reply = 0
    original_aid = Accessories.aid

    def traced_aid(self, aid):
        SCRIPT.trace.append(("model-lookup", aid))
        return original_aid(self, aid)

    with patch.object(Accessories, "aid", traced_aid):
        await one_write(w, 207, mixed)
    names = [t[0] for t in SCRIPT.trace]
    lookups_before_put = names[: names.index("peer-got-PUT")].count("model-lookup")
    lookups_after_reply = names[names.index("peer-replied") :].count("model-lookup")
    print("MECHANICS write trace:", " ".join(names))
    print("MECHANICS model lookups before the PUT / after the reply:", lookups_before_put, "/", lookups_after_reply)

    # 6. faults: the call fails, nothing is presented as written
    async def failing_write(action, expected, label):
        SCRIPT.arm(action)
        calls.clear()
        try:
            result = await pairing.put_characteristics(list(w))
        except expected:
            pass
        else:
            raise Failure(f"{label}: expected the call to fail, got {result!r}")
        check(calls == [], f"{label}: listeners notified although the call failed", calls)
        stats["faults"] += 1

    async def write_after_reconnect(writes, code, body):
        # a closed session is only replaced once the loop has seen the loss; callers retry
        for _ in range(100):
            try:
                return await one_write(writes, code, body)
            except AccessoryDisconnectedError:
                check(calls == [], "failed write notified listeners", calls)
                await asyncio.sleep(0.05)
        raise Failure("the pairing never reconnected")

    await failing_write(("reply", 400, None), HttpErrorResponse, "bare 400")
    await failing_write(("reply", 400, {"status": -70401}), HttpErrorResponse, "400 with a status body")
    await failing_write(("reply", 422, {"status": -70411}), HttpErrorResponse, "422 with a status body")
    await one_write(w, 204, None)  # the session survives 4xx refusals
    await failing_write(("reply", 500, None), AccessoryDisconnectedError, "bare 500")
    await write_after_reconnect(w, 207, mixed)  # reconnects and carries on
    await failing_write(("reply", 207, b"\xff\xfe not json"), AccessoryDisconnectedError, "207 with garbage")
    await write_after_reconnect(w, 207, mixed)
    await failing_write(("drop",), AccessoryDisconnectedError, "accessory drops the connection")
    await write_after_reconnect(w, 204, None)

    # a status-carrying 5xx body is a request-wide error like any other
    r = await one_write(w, 500, {"status": -70402})
    check(all(r[x]["status"] == -70402 for x in k), "5xx with status body", r)

    # cancellation while the accessory is still thinking; its late 204 must not notify anybody
    SCRIPT.arm(("delay", 0.4, ("reply", 204, None)))
    calls.clear()
    task = asyncio.ensure_future(pairing.put_characteristics(list(w)))
    for _ in range(200):
        if any(t[0] == "peer-got-PUT" for t in SCRIPT.trace):
            break
        await asyncio.sleep(0.01)
    else:
        raise Failure("the PUT never reached the peer")
    task.cancel()
    try:
        await task
    except asyncio.CancelledError:
        pass
    else:
        raise Failure("cancelled write did not raise CancelledError")
    await asyncio.sleep(0.6)
    check(calls == [], "cancelled write notified listeners", calls)
    stats["faults"] += 1
    await write_after_reconnect(w, 207, mixed)

    # two writes in flight at once keep their own outcomes
    SCRIPT.arm(("reply", 204, None))
    calls.clear()
    w1, w2 = [(1, pool[0][1], 11)], [(2, pool[4][1], 22)]
    r1, r2 = await asyncio.gather(pairing.put_characteristics(w1), pairing.put_characteristics(w2))
    check(r1 == {} and r2 == {}, "concurrent writes", r1, r2)
    check(
        sorted(calls, key=repr) == sorted([{(1, pool[0][1]): {"value": 11}}, {(2, pool[4][1]): {"value": 22}}], key=repr),
        "concurrent writes: notifications",
        calls,
    )
    stats["outcome-digest"] = digest.hexdigest()[:16]
    return stats


def check_status_code_normalisation() -> None:
    by_value = {c.value: c for c in HapStatusCode}
    for x in range(-70500, 70501):
        expected = by_value.get(-abs(x), HapStatusCode.UNKNOWN)
        check(to_status_code(x) is expected, "to_status_code", x)
    check(to_status_code(0) is HapStatusCode.SUCCESS, "to_status_code(0)")
    check(to_status_code(70402.0) is HapStatusCode.UNABLE_TO_COMMUNICATE, "float status")
    check(to_status_code(True) is HapStatusCode.UNKNOWN, "bool status")


async def main() -> int:
    assert aiohomekit.__file__.startswith(os.path.dirname(os.path.abspath(__file__))), aiohomekit.__file__
    check_status_code_normalisation()
    port = free_port()
    tmpdir = tempfile.mkdtemp(prefix="k13a-")
    acc_cfg = os.path.join(tmpdir, "accessory.json")
    ctl_cfg = os.path.join(tmpdir, "controller.json")
    with open(acc_cfg, "w") as f:
        json.dump(
            {
                "accessory_ltpk": "7986cf939de8986f428744e36ed72d86189bea46b4dcdc8d9d79a3e4fceb92b9",
                "accessory_ltsk": "3d99f3e959a1f93af4056966f858074b2a1fdec1c5fd84a51ea96f9fa004156a",
                "accessory_pairing_id": "12:34:56:00:01:0A",
                "accessory_pin": "031-45-154",
                "c#": 1,
                "category": "Lightbulb",
                "host_ip": "127.0.0.1",
                "host_port": port,
                "name": "unittestLight",
                "peers": {
                    "decc6fa3-de3e-41c9-adba-ef7409821bfc": {
                        "admin": True,
                        "key": "d708df2fbf4a8779669f0ccd43f4962d6d49e4274f88b1292f822edc3bcf8ed8",
                    }
                },
                "unsuccessful_tries": 0,
            },
            f,
        )
    with open(ctl_cfg, "w") as f:
        json.dump(
            {
                "alias": {
                    "Connection": "IP",
                    "iOSDeviceLTPK": "d708df2fbf4a8779669f0ccd43f4962d6d49e4274f88b1292f822edc3bcf8ed8",
                    "iOSPairingId": "decc6fa3-de3e-41c9-adba-ef7409821bfc",
                    "AccessoryLTPK": "7986cf939de8986f428744e36ed72d86189bea46b4dcdc8d9d79a3e4fceb92b9",
                    "AccessoryPairingID": "12:34:56:00:01:0A",
                    "AccessoryPort": port,
                    "AccessoryIP": "127.0.0.1",
                    "iOSDeviceLTSK": "fa45f082ef87efc6c8c8d043d74084a3ea923a2253e323a7eb9917b4090c2fcc",
                }
            },
            f,
        )

    # the accessory: real server thread on loopback; no mDNS (nothing beyond loopback)
    with patch.object(accessoryserver, "Zeroconf", MagicMock()):
        httpd = QuietServer(acc_cfg, None)
    accessories = build_accessories()
    for acc in accessories:
        httpd.add_accessory(acc)
    pool, readable = [], set()
    for acc in accessories:
        for svc in acc.services:
            if svc.type == ServicesTypes.ACCESSORY_INFORMATION:
                continue
            for ch in svc.characteristics:
                pool.append((acc.aid, ch.iid))
                if "pr" in ch.perms:
                    readable.add((acc.aid, ch.iid))
    assert len(pool) == 8 and len(readable) == 6, (pool, readable)

    server_thread = threading.Thread(target=httpd.serve_forever, daemon=True)
    rc = 1
    with (
        patch.object(AccessoryRequestHandler, "_put_characteristics", scripted_put),
        patch.object(AccessoryRequestHandler, "_get_characteristics", scripted_get),
        patch("aiohomekit.zeroconf.AsyncServiceBrowser", AsyncServiceBrowserStub),
        patch("aiohomekit.zeroconf.AsyncZeroconf") as mock_zc,
    ):
        server_thread.start()
        zc = mock_zc.return_value
        zc.async_register_service = AsyncMock()
        zc.async_close = AsyncMock()
        zeroconf = MagicMock(name="zeroconf_mock")
        zeroconf.cache = DNSCache()
        zeroconf.async_wait_for_start = AsyncMock()
        zeroconf.listeners = [AsyncServiceBrowserStub()]
        zc.zeroconf = zeroconf

        controller = Controller(async_zeroconf_instance=zc)
        try:
            async with controller:
                controller.load_data(ctl_cfg)
                pairing = controller.aliases["alias"]
                try:
                    stats = await asyncio.wait_for(run(pairing, pool, readable), 600)
                    print("cases:", stats)
                    assert stats["notified"] > 100 and stats["rejected"] > 100, stats
                    rc = 0
                finally:
                    await pairing.close()
        except Failure as exc:
            print("DEMO k13a: FAIL:", exc)
        finally:
            httpd.shutdown()
            httpd.server_close()
            for name in (acc_cfg, ctl_cfg):
                try:
                    os.unlink(name)
                except OSError:
                    pass
            try:
                os.rmdir(tmpdir)
            except OSError:
                pass
    if rc == 0:
        print("DEMO k13a: PASS")
    return rc


def test_demo_k13a() -> None:
    """So that `pytest demo_k13a.py` works too."""
    assert asyncio.run(main()) == 0


if __name__ == "__main__":
    sys.exit(asyncio.run(main()))
