"""Demonstration for change k08b (property C08).

Drives a REAL aiohomekit HomeKitConnection / InsecureHomeKitProtocol over REAL
loopback TCP sockets on a REAL selector event loop against a scripted fake
accessory (an asyncio.start_server peer living in the same loop).  The only
non-standard piece is WarpLoop.time(), which adds an adjustable offset to the
monotonic clock so that the 30 s request timeout can be reached without
waiting 30 real seconds; timers are still scheduled and fired by the stock
BaseEventLoop machinery.

It checks the externally visible contract of C08 only (never how it is
implemented), so it must pass on the unmodified code and on the patched code:

  * every request completes with the response the accessory sent for it,
    also when the response arrives in pieces and EVENT messages are interleaved;
  * EVENTs go to the owner's event listener and are never consumed as responses;
  * after a timeout / cancellation / peer close / unsolicited response the
    connection is abandoned (the peer sees EOF, no later request is written to
    it, no later request receives a stale response);
  * every outstanding or queued request then fails promptly with
    AccessoryDisconnectedError instead of hanging;
  * the timeout is 30 s: still pending at 29 s, failed just after 30 s.

Run:  PYTHONPATH=/tmp/wt/k08b /venv/bin/python demo_k08b.py
  or  PYTHONPATH=/tmp/wt/k08b /venv/bin/python -m pytest -q -p no:cacheprovider demo_k08b.py
"""

from __future__ import annotations

import asyncio
import json
import signal
import socket
import sys

from aiohomekit.controller.ip.connection import HomeKitConnection
from aiohomekit.exceptions import AccessoryDisconnectedError

REAL = 5.0  # real-time bound (seconds) that counts as "promptly" / "not hanging"


class WarpLoop(asyncio.SelectorEventLoop):
    """A stock selector loop whose clock can be moved forward."""

    _offset = 0.0

    def time(self) -> float:
        return super().time() + self._offset

    def warp(self, seconds: float) -> None:
        self._offset += seconds


def http(body: bytes, code: int = 200) -> bytes:
    return (
        b"HTTP/1.1 %d OK\r\nContent-Type: application/hap+json\r\nContent-Length: %d\r\n\r\n" % (code, len(body))
    ) + body


def event(payload: dict) -> bytes:
    body = json.dumps(payload).encode()
    return (b"EVENT/1.0 200 OK\r\nContent-Type: application/hap+json\r\nContent-Length: %d\r\n\r\n" % len(body)) + body


class PeerConn:
    """One accepted TCP connection on the fake accessory."""

    def __init__(self, reader: asyncio.StreamReader, writer: asyncio.StreamWriter) -> None:
        self.reader = reader
        self.writer = writer
        self.targets: list[str] = []
        writer.get_extra_info("socket").setsockopt(socket.IPPROTO_TCP, socket.TCP_NODELAY, 1)

    async def next_request(self) -> str:
        """Read one whole HTTP request, return its target."""
        head = await asyncio.wait_for(self.reader.readuntil(b"\r\n\r\n"), REAL)
        lines = head.decode().split("\r\n")
        method, target, _ = lines[0].split(" ")
        assert any(line.lower().startswith("host:") for line in lines[1:]), lines
        for line in lines[1:]:
            if line.lower().startswith("content-length:"):
                await self.reader.readexactly(int(line.split(":")[1]))
        self.targets.append(target)
        return target

    async def send(self, *pieces: bytes) -> None:
        """Write the pieces as separate TCP writes with a pause in between."""
        for i, piece in enumerate(pieces):
            if i:
                await asyncio.sleep(0.01)
            try:
                self.writer.write(piece)
                await self.writer.drain()
            except OSError:
                pass  # the client already reset the abandoned connection

    async def wait_eof(self) -> bytes:
        """Wait until the client half-closes/closes; return whatever else it sent before that."""
        try:
            return await asyncio.wait_for(self.reader.read(-1), REAL)
        except (ConnectionResetError, BrokenPipeError):
            return b""

    def close(self) -> None:
        self.writer.close()


class Peer:
    """The fake accessory: accepts connections and hands them to the script."""

    def __init__(self) -> None:
        self.accepted: asyncio.Queue[PeerConn] = asyncio.Queue()
        self.all: list[PeerConn] = []

    async def start(self) -> int:
        self.server = await asyncio.start_server(self._on_conn, "127.0.0.1", 0)
        return self.server.sockets[0].getsockname()[1]

    async def _on_conn(self, reader, writer) -> None:
        pc = PeerConn(reader, writer)
        self.all.append(pc)
        self.accepted.put_nowait(pc)

    async def next_conn(self) -> PeerConn:
        return await asyncio.wait_for(self.accepted.get(), REAL)

    async def stop(self) -> None:
        for pc in self.all:
            pc.close()
        self.server.close()
        await self.server.wait_closed()


class Owner:
    """Stands in for IpPairing: only what HomeKitConnection uses."""

    name = "demo"
    description = None

    def __init__(self) -> None:
        self.events: list[dict] = []

    async def connection_made(self, secure: bool) -> None:
        pass

    def event_received(self, parsed: dict) -> None:
        self.events.append(parsed)


class Rig:
    def __init__(self, concurrency_limit: int = 1) -> None:
        self.limit = concurrency_limit

    async def __aenter__(self) -> Rig:
        self.peer = Peer()
        port = await self.peer.start()
        self.owner = Owner()
        self.conn = HomeKitConnection(self.owner, ["127.0.0.1"], port, concurrency_limit=self.limit)
        await asyncio.wait_for(self.conn.ensure_connection(), REAL)
        self.pc = await self.peer.next_conn()
        return self

    async def reconnect(self) -> PeerConn:
        """Wait for the automatic reconnect after an abandonment."""
        await asyncio.wait_for(self.conn.ensure_connection(), REAL)
        self.pc = await self.peer.next_conn()
        return self.pc

    async def __aexit__(self, *exc) -> None:
        await asyncio.wait_for(self.conn.close(), REAL)
        await self.peer.stop()

    def get(self, target: str) -> asyncio.Task:
        return asyncio.ensure_future(self.conn.get(target))


async def outcome(task: asyncio.Task):
    """Wait (bounded in real time) for the task; return its result or exception."""
    done, _ = await asyncio.wait({task}, timeout=REAL)
    assert done, "request is hanging"
    if task.cancelled():
        return asyncio.CancelledError()
    return task.exception() or task.result()


async def expect_disconnected(task: asyncio.Task) -> None:
    res = await outcome(task)
    assert isinstance(res, AccessoryDisconnectedError), f"expected AccessoryDisconnectedError, got {res!r}"


async def expect_body(task: asyncio.Task, body: bytes) -> None:
    res = await outcome(task)
    assert not isinstance(res, BaseException), f"expected a response, got {res!r}"
    assert bytes(res.body) == body, f"wrong response: {bytes(res.body)!r} != {body!r}"


async def fresh_request_works(rig: Rig, target: str, stale: bytes) -> None:
    """After an abandonment: reconnect, issue a request, it gets its OWN answer on the NEW connection."""
    old = rig.pc
    pc = await rig.reconnect()
    assert pc is not old
    t = rig.get(target)
    assert await pc.next_request() == target
    own = b'{"own":"%s"}' % target.encode()
    assert own != stale
    await pc.send(http(own))
    await expect_body(t, own)


# --------------------------------------------------------------------------- scenarios


async def s1_events_pieces_queued_callers() -> None:
    """Three queued callers (limit 1); responses in pieces; events before, between and glued to responses."""
    async with Rig() as rig:
        tasks = {t: rig.get(t) for t in ("/a", "/b", "/c")}
        pc = rig.pc

        assert await pc.next_request() == "/a"
        ra = http(b'{"r":"a-response-body"}')
        await pc.send(event({"e": 1}), ra[:25], ra[25:70] + b"", ra[70:] + event({"e": 2}))
        await expect_body(tasks["/a"], b'{"r":"a-response-body"}')

        assert await pc.next_request() == "/b"
        # event and response glued together in one segment, and an event split in two
        e4 = event({"e": 4})
        await pc.send(event({"e": 3}) + http(b'{"r":"b"}') + e4[:10], e4[10:])
        await expect_body(tasks["/b"], b'{"r":"b"}')

        assert await pc.next_request() == "/c"
        rc = http(b'{"r":"c"}')
        await pc.send(*[rc[i : i + 7] for i in range(0, len(rc), 7)])  # 7-byte dribble
        await expect_body(tasks["/c"], b'{"r":"c"}')

        await pc.send(event({"e": 5}))
        await asyncio.sleep(0.05)
        assert rig.owner.events == [{"e": i} for i in range(1, 6)], rig.owner.events
        assert pc.targets == ["/a", "/b", "/c"]


async def s2_pipelined_callers() -> None:
    """concurrency_limit=3: three requests on the wire at once, answered in order with events in between."""
    async with Rig(concurrency_limit=3) as rig:
        tasks = [rig.get(t) for t in ("/p1", "/p2", "/p3")]
        pc = rig.pc
        assert [await pc.next_request() for _ in range(3)] == ["/p1", "/p2", "/p3"]
        r2 = http(b'{"r":"p2"}')
        await pc.send(http(b'{"r":"p1"}') + event({"e": 1}) + r2[:30], r2[30:] + event({"e": 2}) + http(b'{"r":"p3"}'))
        await expect_body(tasks[0], b'{"r":"p1"}')
        await expect_body(tasks[1], b'{"r":"p2"}')
        await expect_body(tasks[2], b'{"r":"p3"}')
        assert rig.owner.events == [{"e": 1}, {"e": 2}]

        # Peer closes with three requests outstanding and one more queued behind the semaphore.
        tasks = [rig.get(t) for t in ("/q1", "/q2", "/q3", "/q4")]
        assert [await pc.next_request() for _ in range(3)] == ["/q1", "/q2", "/q3"]
        r = http(b'{"r":"q1"}')
        await pc.send(r[:40])  # half a response, then the peer goes away
        pc.close()
        for t in tasks:
            await expect_disconnected(t)
        await fresh_request_works(rig, "/fresh-after-peer-close", b'{"r":"q1"}')


async def s3_cancel_then_late_response() -> None:
    async with Rig() as rig:
        pc = rig.pc
        slow = rig.get("/slow")
        queued = rig.get("/queued")
        assert await pc.next_request() == "/slow"
        slow.cancel()
        assert isinstance(await outcome(slow), asyncio.CancelledError)
        # the queued caller neither hangs nor is sent down the abandoned connection
        await expect_disconnected(queued)
        # the late answer for the cancelled request arrives now
        stale = b'{"r":"late-slow"}'
        await pc.send(http(stale))
        rest = await pc.wait_eof()  # abandoned: peer sees EOF ...
        assert rest == b"", rest  # ... and nothing else was ever written to it
        await fresh_request_works(rig, "/fresh-after-cancel", stale)
        assert pc.targets == ["/slow"]
        assert rig.owner.events == []


async def s4_timeout_30s() -> None:
    loop = asyncio.get_running_loop()
    async with Rig(concurrency_limit=2) as rig:
        pc = rig.pc
        never = rig.get("/never")
        second = rig.get("/second")  # pipelined behind it (limit 2)
        queued = rig.get("/queued")  # waiting for the semaphore
        assert [await pc.next_request() for _ in range(2)] == ["/never", "/second"]
        await pc.send(event({"e": "keeps-coming"}))  # events do not satisfy or extend the request

        loop.warp(29.0)
        await asyncio.sleep(0.05)
        assert not never.done() and not second.done() and not queued.done(), "timed out before 30 s"

        loop.warp(1.5)
        t0 = loop.time()
        await expect_disconnected(never)
        await expect_disconnected(second)
        await expect_disconnected(queued)
        assert loop.time() - t0 < 1.0, "failure was not prompt after the 30 s mark"

        stale = b'{"r":"late-never"}'
        await pc.send(http(stale), http(b'{"r":"late-second"}'))
        assert await pc.wait_eof() == b""
        await fresh_request_works(rig, "/fresh-after-timeout", stale)
        assert pc.targets == ["/never", "/second"]
        assert rig.owner.events == [{"e": "keeps-coming"}]


async def s5_peer_closes() -> None:
    async with Rig() as rig:
        pc = rig.pc
        t1, t2, t3 = rig.get("/x"), rig.get("/y"), rig.get("/z")
        assert await pc.next_request() == "/x"
        pc.close()
        for t in (t1, t2, t3):
            await expect_disconnected(t)
        await fresh_request_works(rig, "/fresh-after-close", b"")


async def s6_unsolicited_response() -> None:
    loop = asyncio.get_running_loop()
    reported: list[dict] = []
    loop.set_exception_handler(lambda _loop, ctx: reported.append(ctx))
    try:
        async with Rig() as rig:
            pc = rig.pc
            stale = b'{"r":"nobody-asked"}'
            await pc.send(http(stale))
            assert await pc.wait_eof() == b""  # client drops the out-of-sync connection
            await fresh_request_works(rig, "/fresh-after-unsolicited", stale)
    finally:
        loop.set_exception_handler(None)
    assert len(reported) == 1 and "data_received" in reported[0]["message"], reported


async def s7_cancel_races_with_response() -> None:
    """Cancel k loop iterations after the peer wrote the response, k = 0..7.

    Either outcome is legal (own response, or cancelled + connection abandoned);
    anything else (stale data later, a hang, a foreign response) is not.
    """
    seen = set()
    async with Rig() as rig:
        for k in list(range(8)) * 2:
            pc = rig.pc
            target = f"/race{k}"
            own = b'{"r":"race%d"}' % k
            t = rig.get(target)
            follower = rig.get(target + "/queued")
            assert await pc.next_request() == target
            pc.writer.write(http(own))
            for _ in range(k):
                await asyncio.sleep(0)
            t.cancel()
            res = await outcome(t)
            if isinstance(res, asyncio.CancelledError):
                seen.add("cancelled")
                await expect_disconnected(follower)
                assert await pc.wait_eof() == b""
                await fresh_request_works(rig, target + "/fresh", own)
            else:
                seen.add("answered")
                assert bytes(res.body) == own, res.body
                assert await pc.next_request() == target + "/queued"
                await pc.send(http(b"follower"))
                await expect_body(follower, b"follower")
    assert seen == {"cancelled", "answered"}, seen


async def s8_close_races_with_response() -> None:
    """Peer writes the response and closes in the same breath; a second caller is queued."""
    async with Rig() as rig:
        pc = rig.pc
        t1, t2 = rig.get("/last"), rig.get("/after-last")
        assert await pc.next_request() == "/last"
        pc.writer.write(http(b'{"r":"last"}'))
        pc.close()
        await expect_body(t1, b'{"r":"last"}')  # it was delivered before the EOF: it is its own response
        res = await outcome(t2)
        # t2 was either refused outright or written to the dying connection; it must not hang
        # and it must not get somebody else's data.
        assert isinstance(res, AccessoryDisconnectedError), res
        await fresh_request_works(rig, "/fresh-after-race", b'{"r":"last"}')


async def s9_deadline_races_with_response() -> None:
    """The response reaches the client socket and the clock passes the 30 s mark before the loop runs again.

    Either outcome is legal at the boundary (own response and the connection lives on, or a
    disconnection error and the connection is abandoned); a hang or a foreign response is not.
    """
    loop = asyncio.get_running_loop()
    outcomes = []
    async with Rig() as rig:
        for i in range(4):
            pc = rig.pc
            target = f"/edge{i}"
            own = b'{"r":"edge%d"}' % i
            t = rig.get(target)
            follower = rig.get(target + "/queued")
            assert await pc.next_request() == target
            loop.warp(29.0)
            await asyncio.sleep(0.02)
            assert not t.done()
            pc.writer.write(http(own))  # synchronous send() on loopback ...
            loop.warp(1.0 + i * 0.001)  # ... and the deadline passes before the next loop iteration
            res = await outcome(t)
            if isinstance(res, BaseException):
                assert isinstance(res, AccessoryDisconnectedError), res
                outcomes.append("timeout")
                await expect_disconnected(follower)
                assert await pc.wait_eof() == b""
                await fresh_request_works(rig, target + "/fresh", own)
            else:
                outcomes.append("answered")
                assert bytes(res.body) == own, res.body
                assert await pc.next_request() == target + "/queued"
                await pc.send(http(b"follower"))
                await expect_body(follower, b"follower")
    print("   s9 outcomes:", outcomes)


SCENARIOS = [
    s1_events_pieces_queued_callers,
    s2_pipelined_callers,
    s3_cancel_then_late_response,
    s4_timeout_30s,
    s5_peer_closes,
    s6_unsolicited_response,
    s7_cancel_races_with_response,
    s8_close_races_with_response,
    s9_deadline_races_with_response,
]


def run_all() -> None:
    signal.alarm(180)  # real-time watchdog; loop-time timeouts would be hit by the clock warps
    for scenario in SCENARIOS:
        loop = WarpLoop()
        try:
            loop.run_until_complete(scenario())
        finally:
            loop.run_until_complete(loop.shutdown_asyncgens())
            loop.close()
        print(f"PASS {scenario.__name__}")
    signal.alarm(0)


def test_demo_k08b() -> None:
    run_all()


if __name__ == "__main__":
    import aiohomekit

    print("aiohomekit from", aiohomekit.__file__)
    run_all()
    print("ALL PASS")
    sys.exit(0)
