#!/usr/bin/env python
"""
demo_k04a.py - demonstration for change k04a (property C04).

C04: an accessory error or out-of-sequence reply never completes as success.

What runs here (everything is real, nothing is mocked inside aiohomekit):

  part 1  the three pairing state machines (perform_pair_setup_part1/2 and
          get_session_keys) are driven exactly like the transports drive them
          (encode -> bytes -> TLV.decode_bytes(expected=...) -> generator.send)
          against a complete accessory implementation, for every step x error
          code x state value x subset of the other reply items x item order.
  part 2  the same faults over IP: a real event loop, a real loopback TCP
          server speaking HAP HTTP (plain and, after pair-verify, with the
          encrypted framing), the real IpDiscovery / SecureHomeKitConnection /
          IpPairing.add_pairing / IpPairing.remove_pairing.
  part 3  the same faults over BLE: the real AIOHomeKitBleakClient (a real
          bleak.BleakClient) on a fake bleak *backend* with a real
          BleakGATTServiceCollection, HAP PDUs fragmented to the MTU, the real
          drive_pairing_state_machine / BlePairing._async_pair_verify /
          BlePairing.add_pairing / BlePairing.remove_pairing.

Only what property C04 promises is asserted, so the demonstration passes on
the unmodified code and with patch.diff applied:

  * pair-setup / pair-verify: a reply carrying an error item fails with the
    exception class documented for the code (0x02 AuthenticationError, 0x03
    BackoffError, 0x04 MaxPeersError, 0x05 MaxTriesError, 0x06
    UnavailableError, 0x07 BusyError, anything else InvalidError); a reply with
    a wrong step number and no error item fails with InvalidError; a reply with
    both fails with one of the two; no pairing data / session keys come back
    and the accessory sees no further request of that exchange.
  * add / remove pairing: a reply with an error item or a wrong step number
    fails with a library error (HomeKitException) and is not reported as done.

Things the property leaves open (which class when both are wrong, which
library error for add/remove pairing, the message texts) are only *printed*
as a digest at the end; that digest is where the old and the new code differ.

Run:  PYTHONPATH=/tmp/wt/k04a /venv/bin/python demo_k04a.py
  or  PYTHONPATH=/tmp/wt/k04a /venv/bin/python -m pytest -q -p no:cacheprovider demo_k04a.py
"""

from __future__ import annotations

import asyncio
import collections
import itertools
import logging
import sys
import time
import uuid
from dataclasses import dataclass
from typing import Any
from unittest.mock import MagicMock

from bleak.backends.characteristic import BleakGATTCharacteristic
from bleak.backends.client import BaseBleakClient
from bleak.backends.descriptor import BleakGATTDescriptor
from bleak.backends.service import BleakGATTService, BleakGATTServiceCollection
from cryptography.hazmat.primitives import serialization
from cryptography.hazmat.primitives.asymmetric import ed25519, x25519

import aiohomekit
from aiohomekit.characteristic_cache import CharacteristicCacheMemory
from aiohomekit.controller.ble.bleak import CHAR_DESCRIPTOR_ID, AIOHomeKitBleakClient
from aiohomekit.controller.ble.client import drive_pairing_state_machine
from aiohomekit.controller.ble.controller import BleController
from aiohomekit.controller.ble.pairing import BlePairing
from aiohomekit.controller.ip.connection import SecureHomeKitConnection
from aiohomekit.controller.ip.controller import IpController
from aiohomekit.controller.ip.discovery import IpDiscovery
from aiohomekit.controller.ip.pairing import IpPairing
from aiohomekit.crypto import (
    NONCE_PADDING,
    PACK_NONCE,
    ChaCha20Poly1305Decryptor,
    ChaCha20Poly1305Encryptor,
    SrpServer,
    hkdf_derive,
)
from aiohomekit.exceptions import (
    AuthenticationError,
    BackoffError,
    BusyError,
    HomeKitException,
    InvalidError,
    MaxPeersError,
    MaxTriesError,
    ProtocolError,
    UnavailableError,
)
from aiohomekit.model import Accessories, AccessoriesState, Accessory
from aiohomekit.model.categories import Categories
from aiohomekit.model.characteristics import CharacteristicsTypes
from aiohomekit.model.feature_flags import FeatureFlags
from aiohomekit.model.services import ServicesTypes
from aiohomekit.model.status_flags import StatusFlags
from aiohomekit.protocol import (
    get_session_keys,
    perform_pair_setup_part1,
    perform_pair_setup_part2,
)
from aiohomekit.protocol.tlv import TLV
from aiohomekit.zeroconf import HomeKitService

PIN = "031-45-154"
ACCESSORY_ID = b"12:34:56:00:01:0A"

STATE = TLV.kTLVType_State
ERROR = TLV.kTLVType_Error

DOCUMENTED = {
    2: AuthenticationError,
    3: BackoffError,
    4: MaxPeersError,
    5: MaxTriesError,
    6: UnavailableError,
    7: BusyError,
}


def documented(code: bytes) -> type[Exception]:
    """The exception class the library documents for an error code."""
    if len(code) == 1:
        return DOCUMENTED.get(code[0], InvalidError)
    return InvalidError


# ---------------------------------------------------------------------------
# faults
# ---------------------------------------------------------------------------


@dataclass(frozen=True)
class Fault:
    """Replace the accessory's reply of one step."""

    path: str  # /pair-setup, /pair-verify or /pairings
    step: int  # 2, 4 or 6: the step of the reply that is replaced
    error: bytes | None  # value of the error item; None: no error item
    state: bytes | None  # value of the state item; None: no state item
    keep: frozenset[int] | None = None  # other items of the genuine reply to keep (None: all)
    extra: tuple[tuple[int, bytes], ...] = ()  # other items the genuine reply does not have
    error_first: bool = True  # [state, error, others...] or [others..., error, state]
    http_status: int = 200  # IP only

    @property
    def wrong_state(self) -> bool:
        return self.state is not None and self.state != bytes([self.step])

    @property
    def is_fault(self) -> bool:
        return self.error is not None or self.wrong_state

    def build(self, genuine: list[tuple[int, bytes]]) -> list[tuple[int, bytes]]:
        others = [
            (k, v) for k, v in genuine if k not in (STATE, ERROR) and (self.keep is None or k in self.keep)
        ]
        others += list(self.extra)
        head = []
        if self.state is not None:
            head.append((STATE, self.state))
        if self.error is not None:
            head.append((ERROR, self.error))
        return head + others if self.error_first else others + head[::-1]

    def allowed(self) -> tuple[type[Exception], ...]:
        """What C04 allows a pair-setup / pair-verify step to raise for this fault."""
        if self.error is not None and self.wrong_state:
            return (InvalidError, documented(self.error))
        if self.error is not None:
            return (documented(self.error),)
        return (InvalidError,)

    def kind(self) -> str:
        if self.error is not None and self.wrong_state:
            return f"error 0x{self.error.hex()} + wrong state"
        if self.error is not None:
            return f"error 0x{self.error.hex()}"
        return "wrong state"


# ---------------------------------------------------------------------------
# the accessory (transport independent)
# ---------------------------------------------------------------------------


def _raw_public(key) -> bytes:
    return key.public_key().public_bytes(
        encoding=serialization.Encoding.Raw, format=serialization.PublicFormat.Raw
    )


class FakeAccessory:
    """A complete accessory side of pair-setup, pair-verify and add/remove pairing."""

    def __init__(self) -> None:
        self.ltsk = ed25519.Ed25519PrivateKey.generate()
        self.ltpk = _raw_public(self.ltsk)
        self.peers: dict[bytes, bytes] = {}
        self.fault: Fault | None = None
        self.requests: list[tuple[str, int]] = []  # (path, step of the request)
        self.effects: list[tuple[str, bytes]] = []  # what the accessory really did
        self.fault_hits = 0

    def done(self) -> list[tuple[str, bytes]]:
        """What the accessory really did, leaving out sessions it let in."""
        return [effect for effect in self.effects if effect[0] != "verified"]

    def handle(self, session: dict, path: str, items: list) -> tuple[list[tuple[int, bytes]], int]:
        req = {k: bytes(v) for k, v in items}
        step = req[STATE][0] + 1
        self.requests.append((path, step - 1))
        fault = self.fault
        hit = fault is not None and fault.path == path and fault.step == step
        handler = {
            "/pair-setup": self._pair_setup,
            "/pair-verify": self._pair_verify,
            "/pairings": self._pairings,
        }[path]
        # An accessory that answers with an error did not do what was asked.
        genuine = handler(session, req, commit=not hit)
        if hit:
            self.fault_hits += 1
            return fault.build(genuine), fault.http_status
        return genuine, 200

    # -- pair setup -------------------------------------------------------
    def _pair_setup(self, session: dict, req: dict, commit: bool) -> list[tuple[int, bytes]]:
        step = req[STATE]
        if step == TLV.M1:
            if commit:
                srp = SrpServer("Pair-Setup", PIN)
            else:
                # this exchange ends with the faulted M2, any valid salt and key will do
                srp = self._spare_srp = getattr(self, "_spare_srp", None) or SrpServer("Pair-Setup", PIN)
            session["srp"] = srp
            return [
                (STATE, TLV.M2),
                (TLV.kTLVType_PublicKey, bytes(srp.B_b)),
                (TLV.kTLVType_Salt, bytes(srp.salt_b)),
            ]
        srp: SrpServer = session["srp"]
        if step == TLV.M3:
            srp.set_client_public_key(req[TLV.kTLVType_PublicKey])
            proof = req[TLV.kTLVType_Proof]
            if not srp.verify_clients_proof_bytes(proof):
                return [(STATE, TLV.M4), (ERROR, TLV.kTLVError_Authentication)]
            session["K"] = srp.get_session_key_bytes()
            return [(STATE, TLV.M4), (TLV.kTLVType_Proof, srp.get_proof_bytes(proof))]
        assert step == TLV.M5, step
        K = session["K"]
        session_key = hkdf_derive(K, b"Pair-Setup-Encrypt-Salt", b"Pair-Setup-Encrypt-Info")
        decrypted = ChaCha20Poly1305Decryptor(session_key).decrypt(
            b"", NONCE_PADDING + b"PS-Msg05", req[TLV.kTLVType_EncryptedData]
        )
        sub = {k: bytes(v) for k, v in TLV.decode_bytes(decrypted)}
        ios_x = hkdf_derive(K, b"Pair-Setup-Controller-Sign-Salt", b"Pair-Setup-Controller-Sign-Info")
        ios_id, ios_ltpk = sub[TLV.kTLVType_Identifier], sub[TLV.kTLVType_PublicKey]
        ed25519.Ed25519PublicKey.from_public_bytes(ios_ltpk).verify(
            sub[TLV.kTLVType_Signature], ios_x + ios_id + ios_ltpk
        )
        if commit:
            self.peers[ios_id] = ios_ltpk
            self.effects.append(("paired", ios_id))
        acc_x = hkdf_derive(K, b"Pair-Setup-Accessory-Sign-Salt", b"Pair-Setup-Accessory-Sign-Info")
        sub_tlv = TLV.encode_list(
            [
                (TLV.kTLVType_Identifier, ACCESSORY_ID),
                (TLV.kTLVType_PublicKey, self.ltpk),
                (TLV.kTLVType_Signature, self.ltsk.sign(acc_x + ACCESSORY_ID + self.ltpk)),
            ]
        )
        encrypted = ChaCha20Poly1305Encryptor(session_key).encrypt(
            b"", NONCE_PADDING + b"PS-Msg06", bytes(sub_tlv)
        )
        return [(STATE, TLV.M6), (TLV.kTLVType_EncryptedData, encrypted)]

    # -- pair verify ------------------------------------------------------
    def _pair_verify(self, session: dict, req: dict, commit: bool) -> list[tuple[int, bytes]]:
        step = req[STATE]
        if step == TLV.M1:
            # (a resume request is answered like a plain M1, which is allowed)
            key = x25519.X25519PrivateKey.generate()
            spk = _raw_public(key)
            ios_pk = req[TLV.kTLVType_PublicKey]
            shared = key.exchange(x25519.X25519PublicKey.from_public_bytes(ios_pk))
            session_key = hkdf_derive(shared, b"Pair-Verify-Encrypt-Salt", b"Pair-Verify-Encrypt-Info")
            sub_tlv = TLV.encode_list(
                [
                    (TLV.kTLVType_Identifier, ACCESSORY_ID),
                    (TLV.kTLVType_Signature, self.ltsk.sign(spk + ACCESSORY_ID + ios_pk)),
                ]
            )
            encrypted = ChaCha20Poly1305Encryptor(session_key).encrypt(
                b"", NONCE_PADDING + b"PV-Msg02", bytes(sub_tlv)
            )
            session.update(v_shared=shared, v_key=session_key, v_spk=spk, v_ios_pk=ios_pk)
            return [(STATE, TLV.M2), (TLV.kTLVType_PublicKey, spk), (TLV.kTLVType_EncryptedData, encrypted)]
        assert step == TLV.M3, step
        decrypted = ChaCha20Poly1305Decryptor(session["v_key"]).decrypt(
            b"", NONCE_PADDING + b"PV-Msg03", req[TLV.kTLVType_EncryptedData]
        )
        sub = {k: bytes(v) for k, v in TLV.decode_bytes(decrypted)}
        ios_id = sub[TLV.kTLVType_Identifier]
        if ios_id not in self.peers:
            return [(STATE, TLV.M4), (ERROR, TLV.kTLVError_Authentication)]
        ed25519.Ed25519PublicKey.from_public_bytes(self.peers[ios_id]).verify(
            sub[TLV.kTLVType_Signature], session["v_ios_pk"] + ios_id + session["v_spk"]
        )
        if commit:
            shared = session["v_shared"]
            session["c2a"] = hkdf_derive(shared, b"Control-Salt", b"Control-Write-Encryption-Key")
            session["a2c"] = hkdf_derive(shared, b"Control-Salt", b"Control-Read-Encryption-Key")
            self.effects.append(("verified", ios_id))
        return [(STATE, TLV.M4)]

    # -- add / remove pairing ---------------------------------------------
    def _pairings(self, session: dict, req: dict, commit: bool) -> list[tuple[int, bytes]]:
        assert req[STATE] == TLV.M1
        method = req[TLV.kTLVType_Method]
        ident = req[TLV.kTLVType_Identifier]
        if commit and method == TLV.AddPairing:
            self.peers[ident] = req[TLV.kTLVType_PublicKey]
            self.effects.append(("added", ident))
        elif commit and method == TLV.RemovePairing:
            self.peers.pop(ident, None)
            self.effects.append(("removed", ident))
        return [(STATE, TLV.M2)]


# ---------------------------------------------------------------------------
# digest of what the property leaves open (printed, never asserted)
# ---------------------------------------------------------------------------

DIGEST: dict[tuple[str, str], dict[str, set[str]]] = collections.defaultdict(
    lambda: collections.defaultdict(set)
)
SAMPLES: dict[tuple[str, str], str] = {}
CELLS: collections.Counter = collections.Counter()


def observe(section: str, fault: Fault, exc: BaseException) -> None:
    CELLS[section] += 1
    if type(exc).__name__ in ("InvalidError", "AuthenticationError", "UnknownError"):
        SAMPLES.setdefault((section, type(exc).__name__), str(exc))
    if fault.error is None:
        kind = "wrong state"
    elif fault.wrong_state:
        kind = "error + wrong state"
    elif fault.path == "/pairings":
        kind = "error"
    else:
        return  # fully determined by the property
    codes = "-" if fault.error is None else (fault.error.hex() or "empty")
    DIGEST[(section, kind)][type(exc).__name__].add(codes)


def check_setup_or_verify_failure(section: str, fault: Fault, outcome: tuple[str, Any]) -> None:
    what, value = outcome
    assert what == "raised", f"{section}: {fault} completed as success: {value!r}"
    assert isinstance(value, ProtocolError), f"{section}: {fault}: {value!r}"
    assert type(value) in fault.allowed(), (
        f"{section}: {fault}: raised {type(value).__name__}, C04 allows {[c.__name__ for c in fault.allowed()]}"
    )
    observe(section, fault, value)


def check_pairings_failure(section: str, fault: Fault, outcome: tuple[str, Any]) -> None:
    what, value = outcome
    assert what == "raised", f"{section}: {fault} was reported as done: {value!r}"
    assert isinstance(value, HomeKitException), f"{section}: {fault}: not a library error: {value!r}"
    observe(section, fault, value)


# ---------------------------------------------------------------------------
# fault matrices
# ---------------------------------------------------------------------------

ALL_CODES = [bytes([c]) for c in range(1, 8)] + [b"\x00", b"\x08", b"\xff", b"", b"\x02\x02"]
FEW_CODES = [bytes([c]) for c in range(1, 8)] + [b"\x08", b""]

OTHER_ITEMS = {
    # step -> (items of the genuine reply, items a reply may carry in addition)
    ("/pair-setup", 2): ((TLV.kTLVType_PublicKey, TLV.kTLVType_Salt), ()),
    ("/pair-setup", 4): ((TLV.kTLVType_Proof,), ((TLV.kTLVType_EncryptedData, b"\x55" * 24),)),
    ("/pair-setup", 6): ((TLV.kTLVType_EncryptedData,), ()),
    ("/pair-verify", 2): ((TLV.kTLVType_PublicKey, TLV.kTLVType_EncryptedData), ()),
    ("/pair-verify", 4): ((), ()),
    ("/pairings", 2): ((), ((TLV.kTLVType_Identifier, b"someone"),)),
}


def states_for(step: int, full: bool) -> list[bytes | None]:
    good = bytes([step])
    states: list[bytes | None] = [good, None, bytes([step + 1])]
    if full:
        states += [b"", bytes([step - 1])]
    return states


def subsets(path: str, step: int, full: bool):
    genuine, optional = OTHER_ITEMS[(path, step)]
    if not full:
        yield None, ()
        yield frozenset(), ()
        return
    for n in range(len(genuine) + 1):
        for keep in itertools.combinations(genuine, n):
            for m in range(len(optional) + 1):
                for extra in itertools.combinations(optional, m):
                    yield frozenset(keep), extra


def faults(path: str, step: int, full: bool, orders=(True,), codes=None) -> list[Fault]:
    out = []
    for error in [None] + (codes or (ALL_CODES if full else FEW_CODES)):
        for state in states_for(step, full):
            for keep, extra in subsets(path, step, full):
                for error_first in orders:
                    fault = Fault(path, step, error, state, keep, extra, error_first)
                    if fault.is_fault:
                        out.append(fault)
    return out


# ---------------------------------------------------------------------------
# part 1: the state machines driven directly
# ---------------------------------------------------------------------------


def drive(generator, accessory: FakeAccessory, session: dict, path: str):
    """Drive a pairing state machine the way every transport does."""
    request, expected = generator.send(None)
    while True:
        reply, _ = accessory.handle(session, path, request)
        wire = bytes(TLV.encode_list(reply))
        try:
            request, expected = generator.send(TLV.decode_bytes(wire, expected=expected))
        except StopIteration as result:
            return result.value


def attempt(func) -> tuple[str, Any]:
    try:
        return "returned", func()
    except Exception as exc:  # noqa: BLE001
        return "raised", exc


def part1_state_machines() -> None:
    accessory = FakeAccessory()

    def pair_setup():
        session: dict = {}
        salt, pub_key = drive(perform_pair_setup_part1(False), accessory, session, "/pair-setup")
        return drive(
            perform_pair_setup_part2(PIN, str(uuid.uuid4()), salt, pub_key),
            accessory,
            session,
            "/pair-setup",
        )

    # no fault: pairing data comes back, and omitting the state item alone is tolerated
    pairing_data = pair_setup()
    assert pairing_data["AccessoryPairingID"] == ACCESSORY_ID.decode()
    assert accessory.effects == [("paired", pairing_data["iOSPairingId"].encode())]

    def pair_verify(resume: bool = False):
        kwargs = {}
        if resume:
            kwargs = {
                "session_id": b"12345678",
                "derive": lambda salt, info, length=32: hkdf_derive(b"k" * 32, salt, info, length=length),
            }
        return drive(get_session_keys(pairing_data, **kwargs), accessory, {}, "/pair-verify")

    session_id, derive = pair_verify()
    assert len(session_id) == 8 and len(derive(b"Control-Salt", b"Control-Write-Encryption-Key")) == 32
    for path, step, run in (
        ("/pair-setup", 2, pair_setup),
        ("/pair-setup", 4, pair_setup),
        ("/pair-setup", 6, pair_setup),
        ("/pair-verify", 2, pair_verify),
        ("/pair-verify", 4, pair_verify),
    ):
        accessory.fault = Fault(path, step, None, None)
        assert attempt(run)[0] == "returned", (path, step)
    accessory.fault = None

    # (M4 and M6 of pair-setup cost a complete SRP exchange per cell: fewer codes there)
    for path, step, run, orders, codes in (
        ("/pair-setup", 2, pair_setup, (True, False), ALL_CODES),
        ("/pair-setup", 4, pair_setup, (True,), FEW_CODES),
        ("/pair-setup", 6, pair_setup, (True,), FEW_CODES),
        ("/pair-verify", 2, pair_verify, (True, False), ALL_CODES),
        ("/pair-verify", 2, lambda: pair_verify(resume=True), (True,), ALL_CODES),
        ("/pair-verify", 4, pair_verify, (True, False), ALL_CODES),
    ):
        section = f"state machine {path} M{step}"
        for fault in faults(path, step, full=True, orders=orders, codes=codes):
            accessory.fault = fault
            effects, hits = list(accessory.effects), accessory.fault_hits
            outcome = attempt(run)
            assert accessory.fault_hits == hits + 1, fault
            check_setup_or_verify_failure(section, fault, outcome)
            # the faulted reply was the last thing the accessory was asked in this exchange
            assert accessory.requests[-1] == (path, step - 1), (fault, accessory.requests[-3:])
            assert accessory.effects == effects, fault
        accessory.fault = None

    # a realistic back-off reply: the retry delay follows the error item
    accessory.fault = Fault(
        "/pair-setup", 2, b"\x03", b"\x02", frozenset(), ((TLV.kTLVType_RetryDelay, b"\x10\x00"),)
    )
    what, value = attempt(pair_setup)
    assert what == "raised" and type(value) is BackoffError, value
    accessory.fault = None


# ---------------------------------------------------------------------------
# part 2: IP over loopback TCP
# ---------------------------------------------------------------------------


def _parse_http_request(buf: bytearray):
    head_end = buf.find(b"\r\n\r\n")
    if head_end < 0:
        return None
    lines = bytes(buf[:head_end]).decode().split("\r\n")
    method, path, _ = lines[0].split(" ", 2)
    length = 0
    for line in lines[1:]:
        name, _, value = line.partition(":")
        if name.strip().lower() == "content-length":
            length = int(value)
    body = bytes(buf[head_end + 4 : head_end + 4 + length])
    if len(body) < length:
        return None
    return method, path, body


class IpAccessoryServer:
    """HAP over HTTP on a loopback socket, encrypted framing after pair-verify."""

    def __init__(self, accessory: FakeAccessory) -> None:
        self.accessory = accessory
        self.writers: set[asyncio.StreamWriter] = set()
        self.errors: list[BaseException] = []
        self.connections = 0

    async def start(self) -> int:
        self.server = await asyncio.start_server(self._client, "127.0.0.1", 0)
        self.port = self.server.sockets[0].getsockname()[1]
        return self.port

    async def stop(self) -> None:
        self.server.close()
        for writer in list(self.writers):
            writer.close()
        await self.server.wait_closed()

    async def _client(self, reader: asyncio.StreamReader, writer: asyncio.StreamWriter) -> None:
        self.writers.add(writer)
        self.connections += 1
        session: dict = {}
        c2a_count = a2c_count = 0
        try:
            while True:
                secure = "c2a" in session
                plain = bytearray()
                while (parsed := _parse_http_request(plain)) is None:
                    if secure:
                        length = await reader.readexactly(2)
                        block = await reader.readexactly(int.from_bytes(length, "little") + 16)
                        plain += ChaCha20Poly1305Decryptor(session["c2a"]).decrypt(
                            bytes(length), PACK_NONCE(c2a_count), bytes(block)
                        )
                        c2a_count += 1
                    else:
                        chunk = await reader.read(65536)
                        if not chunk:
                            return
                        plain += chunk
                method, path, body = parsed
                assert method == "POST", method
                reply, status = self.accessory.handle(session, path, TLV.decode_bytes(body))
                payload = bytes(TLV.encode_list(reply))
                response = (
                    f"HTTP/1.1 {status} Status\r\n"
                    "Content-Type: application/pairing+tlv8\r\n"
                    f"Content-Length: {len(payload)}\r\n\r\n"
                ).encode() + payload
                if secure:
                    out = bytearray()
                    while response:
                        block, response = response[:1024], response[1024:]
                        length = len(block).to_bytes(2, "little")
                        out += length + ChaCha20Poly1305Encryptor(session["a2c"]).encrypt(
                            length, PACK_NONCE(a2c_count), block
                        )
                        a2c_count += 1
                    response = bytes(out)
                writer.write(response)
                await writer.drain()
        except (asyncio.IncompleteReadError, ConnectionError):
            pass
        except BaseException as exc:  # noqa: BLE001
            self.errors.append(exc)
            raise
        finally:
            self.writers.discard(writer)
            writer.close()


async def attempt_async(coro) -> tuple[str, Any]:
    try:
        return "returned", await coro
    except Exception as exc:  # noqa: BLE001
        return "raised", exc


async def settle(fault: Fault) -> None:
    """After a 4xx reply the library closes the socket; let the event loop see that."""
    if fault.http_status != 200:
        await asyncio.sleep(0.02)


def transport_faults(path: str, step: int, light: bool = False) -> list[Fault]:
    out = faults(path, step, full=False)
    if light:
        out = [f for f in out if f.keep is None]
    out += [
        Fault(path, step, b"\x02", bytes([step]), http_status=400),
        Fault(path, step, b"\x06", None, http_status=470),
        Fault(path, step, None, bytes([step + 1]), http_status=400),
    ]
    return out


async def part2_ip() -> None:
    accessory = FakeAccessory()
    server = IpAccessoryServer(accessory)
    port = await server.start()
    controller = IpController(char_cache=CharacteristicCacheMemory(), zeroconf_instance=MagicMock())
    description = HomeKitService(
        name="demo",
        id=ACCESSORY_ID.decode().lower(),
        model="demo",
        feature_flags=FeatureFlags(0),
        status_flags=StatusFlags.UNPAIRED,
        config_num=1,
        state_num=1,
        category=Categories.LIGHTBULB,
        protocol_version="1.1",
        type="_hap._tcp.local.",
        address="127.0.0.1",
        addresses=["127.0.0.1"],
        port=port,
    )

    async def pair_setup(alias: str):
        discovery = IpDiscovery(controller, description)
        try:
            finish_pairing = await discovery.async_start_pairing(alias)
            return await finish_pairing(PIN)
        finally:
            await discovery.close()

    # no fault: the real thing works over the loopback socket
    good = await pair_setup("good")
    assert isinstance(good, IpPairing) and controller.pairings["good"] is good
    pairing_data = dict(good.pairing_data)
    await good.close()
    assert len(accessory.peers) == 1

    # -- pair setup M2 / M4 / M6 ----------------------------------------
    for step in (2, 4, 6):
        section = f"IP /pair-setup M{step}"
        for number, fault in enumerate(transport_faults("/pair-setup", step, light=step != 2)):
            accessory.fault = fault
            alias = f"faulted-{step}-{number}"
            effects, peers, hits = list(accessory.effects), dict(accessory.peers), accessory.fault_hits
            outcome = await attempt_async(pair_setup(alias))
            await settle(fault)
            assert accessory.fault_hits == hits + 1, fault
            check_setup_or_verify_failure(section, fault, outcome)
            assert alias not in controller.pairings, fault
            assert accessory.requests[-1] == ("/pair-setup", step - 1), fault
            assert accessory.effects == effects and accessory.peers == peers, fault
        accessory.fault = None

    # -- pair verify M2 / M4 ---------------------------------------------
    async def pair_verify():
        connection = SecureHomeKitConnection(None, pairing_data)
        try:
            await connection._connect_once()
            assert connection.is_secure and connection.is_connected
            return type(connection.protocol).__name__
        except BaseException:
            # no session keys: still the plain protocol or nothing at all
            assert not connection.is_secure and not connection.is_connected
            assert connection.transport is None and connection.protocol is None
            raise
        finally:
            await connection.close()

    assert await pair_verify() == "SecureHomeKitProtocol"
    for step in (2, 4):
        section = f"IP /pair-verify M{step}"
        for fault in transport_faults("/pair-verify", step):
            accessory.fault = fault
            effects, hits = list(accessory.effects), accessory.fault_hits
            outcome = await attempt_async(pair_verify())
            await settle(fault)
            assert accessory.fault_hits == hits + 1, fault
            check_setup_or_verify_failure(section, fault, outcome)
            assert accessory.requests[-1] == ("/pair-verify", step - 1), fault
            assert accessory.effects == effects, fault
        accessory.fault = None

    # the public way in: an authentication error at M4 surfaces from the connector
    pairing = IpPairing(controller, pairing_data)
    accessory.fault = Fault("/pair-verify", 4, b"\x02", b"\x04")
    outcome = await attempt_async(pairing._ensure_connected())
    assert outcome[0] == "raised" and type(outcome[1]) is AuthenticationError, outcome
    assert not pairing.is_connected
    accessory.fault = None

    # -- add / remove pairing M2 (inside the encrypted session) -----------
    primary = pairing_data["iOSPairingId"]
    other_ltpk = "d708df2fbf4a8779669f0ccd43f4962d6d49e4274f88b1292f822edc3bcf8ed8"
    for name, call in (
        ("add", lambda: pairing.add_pairing("another-controller", other_ltpk, "User")),
        ("remove", lambda: pairing.remove_pairing(primary)),
    ):
        section = f"IP /pairings {name} M2"
        for fault in transport_faults("/pairings", 2) + faults(
            "/pairings", 2, full=True, orders=(True, False)
        ):
            accessory.fault = fault
            effects, peers, hits = accessory.done(), dict(accessory.peers), accessory.fault_hits
            outcome = await attempt_async(call())
            await settle(fault)
            assert accessory.fault_hits == hits + 1, fault
            check_pairings_failure(section, fault, outcome)
            # removing our own pairing would shut the pairing down if it had been taken as done
            assert not pairing._shutdown, fault
            assert accessory.done() == effects and accessory.peers == peers, fault
        accessory.fault = None

    # a reply that merely omits the state item is taken as done, and so is the genuine reply
    accessory.fault = Fault("/pairings", 2, None, None)
    assert await pairing.add_pairing("another-controller", other_ltpk, "User") is True
    accessory.fault = None
    assert await pairing.add_pairing("another-controller", other_ltpk, "User") is True
    assert await pairing.remove_pairing("another-controller") is True
    assert accessory.done()[-2:] == [("added", b"another-controller"), ("removed", b"another-controller")]
    assert await pairing.remove_pairing(primary) is True
    assert pairing._shutdown

    await pairing.close()
    await server.stop()
    assert not server.errors, server.errors


# ---------------------------------------------------------------------------
# part 3: BLE on a fake bleak backend
# ---------------------------------------------------------------------------

BLE_ADDRESS = "AA:BB:CC:DD:EE:FF"
BLE_PATHS = {
    CharacteristicsTypes.PAIR_SETUP: "/pair-setup",
    CharacteristicsTypes.PAIR_VERIFY: "/pair-verify",
    CharacteristicsTypes.PAIRING_PAIRINGS: "/pairings",
}


def build_model() -> Accessories:
    accessory = Accessory.create_with_info(1, "demo", "demo", "demo", "0001", "0.1")
    service = accessory.add_service(ServicesTypes.PAIRING)
    for char_type in (*BLE_PATHS, CharacteristicsTypes.PAIRING_FEATURES):
        service.add_char(char_type)
    accessories = Accessories()
    accessories.add_accessory(accessory)
    return accessories


class FakeBleBackend(BaseBleakClient):
    """A bleak backend whose peripheral is the fake accessory (HAP-BLE PDUs over GATT)."""

    accessory: FakeAccessory
    model: Accessories
    MTU = 185

    def __init__(self, address_or_ble_device, **kwargs: Any) -> None:
        super().__init__(address_or_ble_device, **kwargs)
        self._connected = False
        self._session: dict = {}
        self._incoming: dict[int, dict] = {}
        self._outgoing: dict[int, list[bytes]] = collections.defaultdict(list)
        self._iids: dict[str, int] = {}
        self.gatt_writes = 0
        self.gatt_reads = 0

    async def connect(self, pair: bool, **kwargs: Any) -> None:
        collection = BleakGATTServiceCollection()
        handle = itertools.count(1)
        for service in self.model.aid(1).services:
            gatt_service = BleakGATTService(None, next(handle), service.type.lower())
            collection.add_service(gatt_service)
            for char in service.characteristics:
                gatt_char = BleakGATTCharacteristic(
                    None, next(handle), char.type.lower(), ["read", "write"], lambda: 20, gatt_service
                )
                collection.add_characteristic(gatt_char)
                collection.add_descriptor(
                    BleakGATTDescriptor(None, next(handle), CHAR_DESCRIPTOR_ID.lower(), gatt_char)
                )
                self._iids[gatt_char.uuid] = char.iid
        self.services = collection
        self._connected = True

    async def disconnect(self) -> None:
        self._connected = False

    @property
    def is_connected(self) -> bool:
        return self._connected

    @property
    def mtu_size(self) -> int:
        return self.MTU

    async def read_gatt_descriptor(self, descriptor, **kwargs: Any) -> bytearray:
        return bytearray(self._iids[descriptor.characteristic_uuid].to_bytes(2, "little"))

    async def write_gatt_char(self, characteristic, data, response: bool) -> None:
        await asyncio.sleep(0)
        self.gatt_writes += 1
        data = bytes(data)
        assert len(data) <= self.MTU - 3, len(data)
        if data[0] & 0x80:
            pending = self._incoming[characteristic.handle]
            assert data[1] == pending["tid"]
            pending["body"] += data[2:]
        else:
            _control, opcode, tid, iid = data[0], data[1], data[2], int.from_bytes(data[3:5], "little")
            assert opcode == 0x02 and iid == self._iids[characteristic.uuid], (opcode, iid)
            pending = self._incoming[characteristic.handle] = {
                "tid": tid,
                "length": int.from_bytes(data[5:7], "little"),
                "body": bytearray(data[7:]),
            }
        if len(pending["body"]) < pending["length"]:
            return
        del self._incoming[characteristic.handle]
        params = {k: bytes(v) for k, v in TLV.decode_bytes(pending["body"])}
        assert params[TLV.kTLVHAPParamParamReturnResponse] == b"\x01"
        path = BLE_PATHS[characteristic.uuid.upper()]
        reply, _ = self.accessory.handle(self._session, path, TLV.decode_bytes(params[TLV.kTLVHAPParamValue]))
        body = bytes(TLV.encode_list([(TLV.kTLVHAPParamValue, bytes(TLV.encode_list(reply)))]))
        tid = pending["tid"]
        size = self.MTU - 3
        first, body = body[: size - 5], body[size - 5 :]
        fragments = [bytes([0x02, tid, 0x00]) + len(first + body).to_bytes(2, "little") + first]
        while body:
            fragments.append(bytes([0x82, tid]) + body[: size - 2])
            body = body[size - 2 :]
        self._outgoing[characteristic.handle] = fragments

    async def read_gatt_char(self, characteristic, **kwargs: Any) -> bytearray:
        await asyncio.sleep(0)
        self.gatt_reads += 1
        return bytearray(self._outgoing[characteristic.handle].pop(0))

    async def pair(self, *args: Any, **kwargs: Any) -> None:
        raise NotImplementedError

    async def unpair(self) -> None:
        raise NotImplementedError

    async def start_notify(self, characteristic, callback, **kwargs: Any) -> None:
        raise NotImplementedError

    async def stop_notify(self, characteristic) -> None:
        raise NotImplementedError

    async def write_gatt_descriptor(self, descriptor, data) -> None:
        raise NotImplementedError


async def part3_ble() -> None:
    accessory = FakeAccessory()
    model = build_model()
    FakeBleBackend.accessory = accessory
    FakeBleBackend.model = model

    async def connect() -> AIOHomeKitBleakClient:
        client = AIOHomeKitBleakClient(BLE_ADDRESS, backend=FakeBleBackend)
        await client.connect()
        return client

    async def pair_setup():
        client = await connect()  # a new connection is a new pair-setup session
        try:
            salt, pub_key = await drive_pairing_state_machine(
                client, CharacteristicsTypes.PAIR_SETUP, perform_pair_setup_part1(with_auth=False)
            )
            return await drive_pairing_state_machine(
                client,
                CharacteristicsTypes.PAIR_SETUP,
                perform_pair_setup_part2(PIN, str(uuid.uuid4()), salt, pub_key),
            )
        finally:
            await client.disconnect()

    pairing_data = await pair_setup()
    assert pairing_data["AccessoryPairingID"] == ACCESSORY_ID.decode()
    pairing_data["AccessoryAddress"] = BLE_ADDRESS
    pairing_data["Connection"] = "BLE"

    for step in (2, 4, 6):
        section = f"BLE pair-setup M{step}"
        for fault in transport_faults("/pair-setup", step, light=step != 2):
            accessory.fault = fault
            effects, peers, hits = list(accessory.effects), dict(accessory.peers), accessory.fault_hits
            outcome = await attempt_async(pair_setup())
            assert accessory.fault_hits == hits + 1, fault
            check_setup_or_verify_failure(section, fault, outcome)
            assert accessory.requests[-1] == ("/pair-setup", step - 1), fault
            assert accessory.effects == effects and accessory.peers == peers, fault
        accessory.fault = None

    # -- the paired side ---------------------------------------------------
    client = await connect()
    pairing = BlePairing(BleController(CharacteristicCacheMemory()), pairing_data, client=client)
    pairing._accessories_state = AccessoriesState(model, 1)

    async def already_connected(*args: Any, **kwargs: Any) -> None:
        """The connection set-up / GATT database fetch of the decorators is not what is shown here."""

    pairing._populate_accessories_and_characteristics = already_connected

    for step in (2, 4):
        section = f"BLE pair-verify M{step}"
        for fault in transport_faults("/pair-verify", step):
            accessory.fault = fault
            effects, hits = list(accessory.effects), accessory.fault_hits
            outcome = await attempt_async(pairing._async_pair_verify())
            assert accessory.fault_hits == hits + 1, fault
            check_setup_or_verify_failure(section, fault, outcome)
            # no session keys
            assert pairing._encryption_key is None and pairing._decryption_key is None, fault
            assert pairing._session_id is None and pairing._derive is None, fault
            assert not pairing.is_connected
            assert accessory.requests[-1] == ("/pair-verify", step - 1), fault
            assert accessory.effects == effects, fault
        accessory.fault = None

    await pairing._async_pair_verify()
    assert pairing._encryption_key is not None and pairing._session_id is not None
    # The fake peripheral talks plain PDUs, so forget the keys again. The session id stays: from
    # now on pair-verify asks for a resume first - and a faulted M2 must still fail.
    pairing._async_reset_connection_state()
    accessory.fault = Fault("/pair-verify", 2, b"\x07", None)
    outcome = await attempt_async(pairing._async_pair_verify())
    assert outcome[0] == "raised" and type(outcome[1]) is BusyError, outcome
    assert pairing._encryption_key is None
    accessory.fault = None

    primary = pairing_data["iOSPairingId"]
    other_ltpk = "d708df2fbf4a8779669f0ccd43f4962d6d49e4274f88b1292f822edc3bcf8ed8"
    for name, call in (
        ("add", lambda: pairing.add_pairing("another-controller", other_ltpk, "Admin")),
        ("remove", lambda: pairing.remove_pairing(primary)),
    ):
        section = f"BLE pairings {name} M2"
        for fault in transport_faults("/pairings", 2) + faults(
            "/pairings", 2, full=True, orders=(True, False)
        ):
            accessory.fault = fault
            effects, peers, hits = accessory.done(), dict(accessory.peers), accessory.fault_hits
            outcome = await attempt_async(call())
            assert accessory.fault_hits == hits + 1, fault
            check_pairings_failure(section, fault, outcome)
            assert not pairing._shutdown, fault
            assert accessory.done() == effects and accessory.peers == peers, fault
        accessory.fault = None

    accessory.fault = Fault("/pairings", 2, None, None)
    await pairing.add_pairing("another-controller", other_ltpk, "Admin")
    accessory.fault = None
    await pairing.add_pairing("another-controller", other_ltpk, "Admin")
    assert await pairing.remove_pairing("another-controller") is True
    assert accessory.done()[-2:] == [("added", b"another-controller"), ("removed", b"another-controller")]
    assert not pairing._shutdown
    assert client._backend.gatt_writes and client._backend.gatt_reads
    await client.disconnect()


# ---------------------------------------------------------------------------


def print_digest() -> None:
    print(f"\naiohomekit from {aiohomekit.__file__}")
    print("cells checked per section:")
    for section, count in CELLS.items():
        print(f"  {count:5d}  {section}")
    print(f"  {sum(CELLS.values()):5d}  total")
    print("\nwhat C04 leaves open, as observed (not asserted); {..} are the error codes:")
    for (section, kind), classes in sorted(DIGEST.items()):
        seen = ", ".join(f"{name}{{{' '.join(sorted(codes))}}}" for name, codes in sorted(classes.items()))
        print(f"  {section:34s} {kind:20s} -> {seen}")
    print("\none message per section and class (not asserted):")
    for (section, name), message in sorted(SAMPLES.items()):
        print(f"  {section:34s} {name:20s} {message!r}")


async def main() -> None:
    # The library logs the connector's failure and PDU warnings; keep the output readable.
    logging.getLogger("aiohomekit").setLevel(logging.CRITICAL + 1)
    started = time.monotonic()
    part1_state_machines()
    print(f"part 1 (state machines) ok after {time.monotonic() - started:.1f}s", flush=True)
    await part2_ip()
    print(f"part 2 (IP, loopback TCP) ok after {time.monotonic() - started:.1f}s", flush=True)
    await part3_ble()
    print(f"part 3 (BLE, fake bleak backend) ok after {time.monotonic() - started:.1f}s", flush=True)
    print_digest()
    print("\ndemo_k04a: PASS")


def test_demo_k04a() -> None:
    asyncio.run(main())


if __name__ == "__main__":
    asyncio.run(main())
    sys.exit(0)
