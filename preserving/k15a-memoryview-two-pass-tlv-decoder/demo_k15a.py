"""Demonstration for change k15a (pairing TLV codec, property C15).

Runs the same on the unmodified code and with patch.diff applied:

    PYTHONPATH=/tmp/wt/k15a /venv/bin/python demo_k15a.py
    PYTHONPATH=/tmp/wt/k15a /venv/bin/python -m pytest -q -p no:cacheprovider demo_k15a.py

Part 1 checks aiohomekit.protocol.tlv.TLV against a small reference TLV8
codec written from the specification (types 0..255, the boundary lengths,
random lists, separators, the 'expected' filter, decoder totality over all
short byte strings, random strings and mutations of valid encodings), plus
the hygiene a caller relies on (input untouched and still resizable, even
while a parse error is being held; fresh bytearray values).

Part 2 drives the BLE pairing fragment reassembly
(aiohomekit.controller.ble.client._pairing_char_write) through a REAL
AIOHomeKitBleakClient / bleak.BleakClient with a fake backend that plays the
accessory, on a real event loop, with interleaved clients and the faults the
reassembly can meet (truncated TLV, endless fragments, a failing read,
cancellation).
"""

from __future__ import annotations

import asyncio
import itertools
import logging
import random
import struct

import pytest
from bleak.backends.characteristic import BleakGATTCharacteristic
from bleak.backends.client import BaseBleakClient
from bleak.backends.service import BleakGATTService, BleakGATTServiceCollection
from bleak.exc import BleakError

from aiohomekit.controller.ble.bleak import AIOHomeKitBleakClient
from aiohomekit.controller.ble.client import MAX_REASSEMBLY, _pairing_char_write
from aiohomekit.protocol.tlv import TLV, TlvParseException

BOUNDARY_LENGTHS = [0, 1, 2, 254, 255, 256, 257, 509, 510, 511, 765, 766]
SEPARATOR = 255


# --------------------------------------------------------------------------
# reference TLV8 codec (what a conformant peer produces and accepts)
# --------------------------------------------------------------------------
class RefParseError(Exception):
    pass


def ref_encode(items) -> bytes:
    out = []
    for typ, value in items:
        value = bytes(value)
        pieces = [value[i : i + 255] for i in range(0, len(value), 255)] or [b""]
        assert all(len(p) == 255 for p in pieces[:-1])  # maximal fragments
        out += [bytes([typ, len(p)]) + p for p in pieces]
    return b"".join(out)


def ref_decode(data, expected=None):
    """Returns (items, declared) where declared[i] is the sum of the declared lengths of item i."""
    data = bytes(data)
    items: list[list] = []
    declared: list[int] = []
    i = 0
    while i < len(data):
        typ = data[i]
        if expected and typ not in expected:
            break
        if i + 1 >= len(data):
            raise RefParseError("type without length")
        n = data[i + 1]
        if i + 2 + n > len(data):
            raise RefParseError("value shorter than declared")
        piece = data[i + 2 : i + 2 + n]
        if items and items[-1][0] == typ:
            items[-1][1] += piece
            declared[-1] += n
        else:
            items.append([typ, bytearray(piece)])
            declared.append(n)
        i += 2 + n
    return items, declared


def as_lists(items):
    return [[k, bytearray(v)] for k, v in items]


def check_decode_like_reference(data, expected=None):
    """Decoding is total: the reference's items, or the codec's own parse error."""
    for candidate in (bytes(data), bytearray(data)):
        before = bytes(candidate)
        try:
            want, declared = ref_decode(candidate, expected)
        except RefParseError:
            want = None
        try:
            if isinstance(candidate, bytearray):
                got = TLV.decode_bytearray(candidate, expected)
            else:
                got = TLV.decode_bytes(candidate, expected)
        except TlvParseException:
            got = None
        # any other exception propagates and fails the demonstration
        assert bytes(candidate) == before, "decoder changed the caller's buffer"
        assert got == want, (before, expected, got, want)
        if got is not None:
            assert [len(v) for _, v in got] == declared  # never shorter than declared
            assert all(type(v) is bytearray and type(k) is int for k, v in got)


# --------------------------------------------------------------------------
# part 1: the codec
# --------------------------------------------------------------------------
def test_round_trip_boundary_lengths_all_types():
    rnd = random.Random(15)
    for length in BOUNDARY_LENGTHS:
        for typ in range(255):
            value = rnd.randbytes(length)
            items = [[typ, value]]
            wire = TLV.encode_list(items)
            assert type(wire) is bytearray
            assert wire == ref_encode(items)
            assert TLV.decode_bytes(bytes(wire)) == as_lists(items)
            assert TLV.decode_bytearray(wire) == as_lists(items)
    # the separator is one empty item
    assert TLV.encode_list([TLV.kTLVType_Separator_Pair]) == b"\xff\x00"
    assert TLV.decode_bytes(b"\xff\x00") == [[255, bytearray()]]


def test_round_trip_pairs_and_separated_equal_types():
    rnd = random.Random(16)
    for la, lb in itertools.product(BOUNDARY_LENGTHS, repeat=2):
        a, b = rnd.randbytes(la), bytearray(rnd.randbytes(lb))
        typ = rnd.randrange(255)
        other = (typ + 1 + rnd.randrange(253)) % 255
        for items in (
            [[typ, a], [other, b]],
            [[typ, a], [SEPARATOR, b""], [typ, b]],
            [[typ, a], [SEPARATOR, bytearray()], [typ, b], [SEPARATOR, b""], [typ, a]],
        ):
            wire = TLV.encode_list(items)
            assert wire == ref_encode(items)
            assert TLV.decode_bytearray(wire) == as_lists(items)
            check_decode_like_reference(wire)
        # without a separator equal-typed neighbours are one value (that is the wire format)
        joined = TLV.decode_bytes(TLV.encode_list([[typ, a], [typ, b]]))
        if la + lb:
            assert joined == [[typ, bytearray(a + b)]]
        assert a == bytes(a) and len(b) == lb  # inputs untouched


def random_items(rnd: random.Random):
    items = []
    for _ in range(rnd.randrange(0, 7)):
        typ = rnd.randrange(255)
        length = rnd.choice(BOUNDARY_LENGTHS) if rnd.random() < 0.4 else rnd.randrange(0, 2001)
        value = rnd.randbytes(length)
        value = rnd.choice([bytes, bytearray, memoryview])(value)
        if items and items[-1][0] == typ:
            items.append([SEPARATOR, b""])
        items.append([typ, value])
    return items


def test_round_trip_random_lists_and_filter():
    rnd = random.Random(17)
    for _ in range(400):
        items = random_items(rnd)
        wire = TLV.encode_list(items)
        assert wire == ref_encode(items)
        assert TLV.decode_bytes(wire) == as_lists(items)
        types = sorted({k for k, _ in items})
        for expected in (None, [], types, types[: len(types) // 2], [rnd.randrange(256)], rnd.sample(types, len(types))[:2]):
            check_decode_like_reference(wire, expected)


def test_encoder_rejects_bad_keys_and_loaded_separators():
    for bad in (-1, 256, 1000, "test"):
        with pytest.raises(ValueError):
            TLV.encode_list([[1, b"ok"], [bad, b"hello"]])
    for data in (b"x", bytearray(b"test"), b"\x00" * 300):
        with pytest.raises(ValueError):
            TLV.encode_list([[6, b"\x03"], [SEPARATOR, data], [6, b"\x04"]])


def test_decoder_total_on_short_strings():
    for n in (0, 1, 2):
        for tup in itertools.product(range(256), repeat=n):
            check_decode_like_reference(bytes(tup))
    alphabet = [0, 1, 2, 3, 6, 254, 255]
    for n in (3, 4, 5):
        for tup in itertools.product(alphabet, repeat=n):
            check_decode_like_reference(bytes(tup))
            check_decode_like_reference(bytes(tup), [0, 1, 255])
    # the lone trailing type byte
    with pytest.raises(TlvParseException):
        TLV.decode_bytes(b"\x06\x01\x03\x09")
    assert TLV.decode_bytes(b"\x06\x01\x03\x09", expected=[6]) == [[6, bytearray(b"\x03")]]


def test_decoder_total_on_random_and_mutated_strings():
    rnd = random.Random(18)
    for _ in range(1500):
        check_decode_like_reference(rnd.randbytes(rnd.randrange(0, 600)))
    for _ in range(600):
        wire = bytearray(TLV.encode_list(random_items(rnd)))
        for _ in range(rnd.randrange(1, 4)):
            op = rnd.randrange(4)
            pos = rnd.randrange(len(wire) + 1)
            if op == 0:
                del wire[pos:]  # truncation
            elif op == 1 and wire:
                wire[pos % len(wire)] = rnd.randrange(256)
            elif op == 2:
                wire[pos:pos] = rnd.randbytes(rnd.randrange(1, 4))
            elif wire:
                del wire[pos % len(wire)]
        check_decode_like_reference(wire)
        check_decode_like_reference(wire, [rnd.randrange(256), rnd.randrange(256), 255])


def test_caller_buffers_stay_usable_and_values_are_fresh():
    # after a successful decode
    buf = bytearray(ref_encode([[1, b"a" * 300], [2, b"bc"]]))
    snapshot = bytes(buf)
    items = TLV.decode_bytearray(buf)
    assert bytes(buf) == snapshot
    items[0][1][0:1] = b"Z"
    items[1][1] += b"more"
    assert bytes(buf) == snapshot  # values do not alias the input
    buf.extend(b"\x03\x01z")  # still resizable
    assert TLV.decode_bytearray(buf)[-1] == [3, bytearray(b"z")]
    assert TLV.decode_bytearray(bytearray(snapshot))[0] == [1, bytearray(b"a" * 300)]  # nor the other way

    # while a parse error is still being held (accumulate-and-retry pattern)
    stream = bytearray(b"\x05\x04ab")
    held = None
    for more in (b"c", b"d"):
        try:
            TLV.decode_bytearray(stream)
        except TlvParseException as exc:
            held = exc
            stream.extend(more)  # must not be refused
    assert held is not None
    assert TLV.decode_bytearray(stream) == [[5, bytearray(b"abcd")]]
    stream.clear()
    assert TLV.decode_bytearray(stream) == []

    # the encoder leaves its inputs alone
    value = bytearray(b"v" * 700)
    request = [[9, value], [SEPARATOR, bytearray()], [9, b"w"]]
    TLV.encode_list(request)
    assert request == [[9, bytearray(b"v" * 700)], [SEPARATOR, bytearray()], [9, b"w"]]
    value.extend(b"!")


def test_debug_logging_one_record_per_call():
    records = []

    class Grab(logging.Handler):
        def emit(self, record):
            records.append(record.getMessage())

    log = logging.getLogger("aiohomekit.protocol.tlv")
    handler, old = Grab(), log.level
    log.addHandler(handler)
    log.setLevel(logging.DEBUG)
    try:
        wire = TLV.encode_list([[6, b"\x01"], [3, b"k" * 300]])
        TLV.decode_bytes(wire)
    finally:
        log.removeHandler(handler)
        log.setLevel(old)
    assert len(records) == 2
    assert records[0].startswith("sending [") and records[1].startswith("receiving [")
    assert "3 (PublicKey): (300 bytes/<class 'bytearray'>)" in records[1]


# --------------------------------------------------------------------------
# part 2: BLE pairing reassembly over a real bleak client, fake backend
# --------------------------------------------------------------------------
class Accessory:
    """The peer: parses HAP-BLE PDUs written to it and queues the PDUs to be read."""

    def __init__(self, responder, rnd: random.Random, read_chunk: int = 60, fail_read_at: int | None = None):
        self.responder = responder  # pairing TLV bytes in -> pairing TLV bytes out
        self.rnd = rnd
        self.read_chunk = read_chunk
        self.fail_read_at = fail_read_at
        self.requests: list[bytes] = []
        self.reads: list[bytes] = []
        self.n_reads = 0
        self._pending: tuple[int, int, bytearray] | None = None

    async def _yield(self):
        for _ in range(self.rnd.randrange(0, 4)):
            await asyncio.sleep(0)

    async def write(self, data: bytes) -> None:
        await self._yield()
        data = bytes(data)
        if self._pending is None:
            control, _opcode, tid, _iid, length = struct.unpack("<BBBHH", data[:7])
            assert control == 0
            self._pending = (tid, length, bytearray(data[7:]))
        else:
            tid, length, body = self._pending
            assert data[0] & 0x80 and data[1] == tid
            body += data[2:]
        tid, length, body = self._pending
        assert len(body) <= length
        if len(body) == length:
            self._pending = None
            fields = dict((k, bytes(v)) for k, v in ref_decode(body)[0])
            assert fields[0x09] == b"\x01"
            self.requests.append(fields[0x01])
            answer = ref_encode([[0x01, self.responder(fields[0x01])]])
            pdu = bytes([0x02, tid, 0]) + struct.pack("<H", len(answer)) + answer
            self.reads.append(pdu[: self.read_chunk])
            for i in range(self.read_chunk, len(pdu), self.read_chunk - 2):
                self.reads.append(bytes([0x82, tid]) + pdu[i : i + self.read_chunk - 2])

    async def read(self) -> bytearray:
        await self._yield()
        self.n_reads += 1
        if self.fail_read_at is not None and self.n_reads == self.fail_read_at:
            self.reads.clear()
            raise BleakError("link lost")
        return bytearray(self.reads.pop(0))


class FakeBackend(BaseBleakClient):
    def __init__(self, address_or_ble_device, accessory: Accessory, **kwargs):
        super().__init__(address_or_ble_device, **kwargs)
        self.accessory = accessory
        self.services = BleakGATTServiceCollection()
        service = BleakGATTService(None, 1, "00000055-0000-1000-8000-0026bb765291")
        self.char = BleakGATTCharacteristic(
            None, 2, "0000004c-0000-1000-8000-0026bb765291", ["read", "write"], lambda: 20, service
        )
        self.services.add_service(service)
        self.services.add_characteristic(self.char)

    @property
    def mtu_size(self) -> int:
        return 64

    @property
    def is_connected(self) -> bool:
        return True

    async def connect(self, *a, **k):
        return True

    async def disconnect(self):
        return True

    async def pair(self, *a, **k):
        return True

    async def unpair(self):
        return True

    async def read_gatt_char(self, characteristic, **kwargs):
        return await self.accessory.read()

    async def write_gatt_char(self, characteristic, data, response):
        assert response is True
        await self.accessory.write(data)

    async def read_gatt_descriptor(self, *a, **k):
        raise NotImplementedError

    async def write_gatt_descriptor(self, *a, **k):
        raise NotImplementedError

    async def start_notify(self, *a, **k):
        raise NotImplementedError

    async def stop_notify(self, *a, **k):
        raise NotImplementedError


def make_client(n: int, accessory: Accessory):
    client = AIOHomeKitBleakClient(f"AA:BB:CC:DD:EE:{n:02X}", backend=FakeBackend, accessory=accessory)
    return client, client._backend.char


def fragmenting_responder(full: bytes, piece: int, corrupt_at: int | None = None, endless: bool = False):
    """Hands out `full` as FragmentData pieces and a FragmentLast, one per request."""
    pieces = [full[i : i + piece] for i in range(0, len(full), piece)]
    state = {"n": 0}

    def respond(request: bytes) -> bytes:
        n = state["n"]
        state["n"] += 1
        if n > 0:
            assert request == b"\x0c\x00"  # the acknowledgement of a fragment
        if endless:
            return ref_encode([[12, b"again"]])
        last = n == len(pieces) - 1
        out = ref_encode([[13 if last else 12, pieces[n]]])
        if corrupt_at == n:
            out = out[:-1]  # value shorter than its declared length
        return out

    return respond


REQUEST = [(TLV.kTLVType_State, TLV.M1), (TLV.kTLVType_Method, TLV.PairSetup), (TLV.kTLVType_PublicKey, b"P" * 384)]
ANSWER = [[6, b"\x02"], [3, bytes(range(256)) * 3], [2, b"s" * 16], [9, b"c" * 1021], [SEPARATOR, b""], [9, b"d" * 255]]


def test_ble_reassembly_interleaved_clients():
    async def main():
        rnd = random.Random(19)
        jobs = []
        for n, piece in enumerate([1, 100, 255, 256, 300, 511, 5000]):
            if piece == 1:
                answer = [[6, b"\x04"], [5, b"e" * 20]]  # 26 bytes -> 26 one-byte fragments
            else:
                answer = ANSWER
            acc = Accessory(fragmenting_responder(ref_encode(answer), piece), rnd, read_chunk=rnd.choice([20, 61, 200]))
            client, char = make_client(n, acc)
            jobs.append((acc, answer, _pairing_char_write(client, char, 7, REQUEST)))
        results = await asyncio.gather(*(j[2] for j in jobs))
        for (acc, answer, _), result in zip(jobs, results):
            assert acc.requests[0] == ref_encode(REQUEST)
            assert all(r == b"\x0c\x00" for r in acc.requests[1:])
            want = {}
            for k, v in answer:
                want[k] = bytearray(v)  # dict(): the last item of a type wins
            assert result == want, (result, want)
            assert not acc.reads

        # a plain, unfragmented answer comes back as it is
        acc = Accessory(lambda req: ref_encode([[6, b"\x02"], [7, b"\x06"]]), rnd)
        client, char = make_client(99, acc)
        assert await _pairing_char_write(client, char, 7, REQUEST) == {6: bytearray(b"\x02"), 7: bytearray(b"\x06")}

    asyncio.run(main())


def test_ble_reassembly_faults():
    async def main():
        rnd = random.Random(20)
        full = ref_encode(ANSWER)

        # a fragment whose TLV is cut short: the codec's own parse error, nothing else
        acc = Accessory(fragmenting_responder(full, 300, corrupt_at=2), rnd)
        client, char = make_client(1, acc)
        with pytest.raises(TlvParseException):
            await _pairing_char_write(client, char, 7, REQUEST)
        assert len(acc.requests) == 3

        # reassembled bytes that are themselves cut short
        acc = Accessory(fragmenting_responder(full[:-3], 300), rnd)
        client, char = make_client(2, acc)
        with pytest.raises(TlvParseException):
            await _pairing_char_write(client, char, 7, REQUEST)

        # fragments without end
        acc = Accessory(fragmenting_responder(full, 300, endless=True), rnd)
        client, char = make_client(3, acc)
        with pytest.raises(ValueError, match="too many fragments"):
            await _pairing_char_write(client, char, 7, REQUEST)
        assert len(acc.requests) == MAX_REASSEMBLY

        # the link fails in the middle; a later exchange on a new link is unaffected
        acc = Accessory(fragmenting_responder(full, 300), rnd, fail_read_at=9)
        client, char = make_client(4, acc)
        with pytest.raises(BleakError):
            await _pairing_char_write(client, char, 7, REQUEST)
        acc = Accessory(fragmenting_responder(full, 300), rnd)
        client, char = make_client(4, acc)
        assert (await _pairing_char_write(client, char, 7, REQUEST))[9] == bytearray(b"d" * 255)

        # cancellation in the middle, while another exchange keeps going
        blocked = asyncio.Event()
        acc_a = Accessory(fragmenting_responder(full, 100), rnd)
        original_read = acc_a.read

        async def stalling_read():
            if len(acc_a.requests) == 4:
                blocked.set()
                await asyncio.Event().wait()
            return await original_read()

        acc_a.read = stalling_read
        client_a, char_a = make_client(5, acc_a)
        acc_b = Accessory(fragmenting_responder(full, 100), rnd)
        client_b, char_b = make_client(6, acc_b)
        task_a = asyncio.ensure_future(_pairing_char_write(client_a, char_a, 7, REQUEST))
        task_b = asyncio.ensure_future(_pairing_char_write(client_b, char_b, 7, REQUEST))
        await blocked.wait()
        task_a.cancel()
        with pytest.raises(asyncio.CancelledError):
            await task_a
        assert (await task_b)[3] == bytearray(bytes(range(256)) * 3)

    asyncio.run(main())


if __name__ == "__main__":
    tests = [(n, f) for n, f in sorted(globals().items()) if n.startswith("test_") and callable(f)]
    for name, fn in tests:
        fn()
        print("ok  ", name)
    print(f"{len(tests)} demonstrations passed")
