#!/usr/bin/env python
"""Demonstration for change k10a (reconnect back-off wait / early wake-up / waiting callers).

Run:  cd /tmp/wt/k10a && PYTHONPATH=/tmp/wt/k10a /venv/bin/python demo_k10a.py

Everything is real: a real asyncio selector event loop, real loopback TCP
sockets, the real IpPairing / SecureHomeKitConnection objects, a real
(threaded) HomeKit accessory server from tests/accessoryserver.py as the
"success" peer and a small asyncio fault-injecting front end that sits in
front of it (peer closes during pair-verify, HTTP 400, malformed M2,
authentication error TLV, connection refused, later drop).

The only liberty taken is that the event loop's clock can be *accelerated*
(WarpLoop.time() = real monotonic clock + an offset the scenarios bump) so
that the back-off can be observed all the way to the 60 s cap without
sleeping for ten minutes.  No asyncio function is patched.

The checks are written against the property (C10), not against the
mechanism, so the script passes on the unmodified code and with the patch.
"""

from __future__ import annotations

import asyncio
import contextlib
import json
import logging
import os
import socket
import sys
import tempfile
import threading
import types
from collections import deque
from unittest import mock

sys.path.insert(0, os.path.dirname(os.path.abspath(__file__)))

from aiohomekit.characteristic_cache import CharacteristicCacheMemory  # noqa: E402
from aiohomekit.controller.ip.pairing import IpPairing  # noqa: E402
from aiohomekit.exceptions import (  # noqa: E402
    AccessoryDisconnectedError,
    AuthenticationError,
    IncorrectPairingIdError,
)
from aiohomekit.model import Accessory  # noqa: E402
from aiohomekit.model.characteristics import CharacteristicsTypes  # noqa: E402
from aiohomekit.model.services import ServicesTypes  # noqa: E402
from aiohomekit.protocol.tlv import TLV  # noqa: E402

logging.getLogger("aiohomekit").setLevel(logging.CRITICAL)

ACCESSORY_ID = "12:34:56:00:01:0A"
OTHER_ACCESSORY_ID = "12:34:56:00:01:0B"


# --------------------------------------------------------------------------
# Infrastructure
# --------------------------------------------------------------------------
class WarpLoop(asyncio.SelectorEventLoop):
    """A real selector loop whose clock can be pushed forward."""

    offset = 0.0

    def time(self) -> float:
        return super().time() + self.offset


async def advance(seconds: float, step: float = 0.25, real: float = 0.002) -> None:
    """Let `seconds` of loop time pass quickly, in small steps, yielding to the loop."""
    loop = asyncio.get_running_loop()
    target = loop.time() + seconds
    while loop.time() < target:
        loop.offset += step
        await asyncio.sleep(real)


async def settle(real: float = 0.05) -> None:
    """Give the loop some real time (sockets, threads) without warping."""
    await asyncio.sleep(real)


def free_port(*hosts: str) -> int:
    """Find a port that is free on all given hosts."""
    for _ in range(50):
        with socket.socket() as s:
            s.bind((hosts[0], 0))
            port = s.getsockname()[1]
        ok = True
        for host in hosts[1:]:
            with socket.socket() as s:
                try:
                    s.bind((host, port))
                except OSError:
                    ok = False
        if ok:
            return port
    raise RuntimeError("no free port")


class RealAccessory:
    """The threaded accessory server from the test-suite on a loopback address."""

    def __init__(self, host: str, port: int, accessory_id: str) -> None:
        from tests import accessoryserver

        self.host, self.port = host, port
        cfg = {
            "accessory_ltpk": "7986cf939de8986f428744e36ed72d86189bea46b4dcdc8d9d79a3e4fceb92b9",
            "accessory_ltsk": "3d99f3e959a1f93af4056966f858074b2a1fdec1c5fd84a51ea96f9fa004156a",
            "accessory_pairing_id": accessory_id,
            "accessory_pin": "031-45-154",
            "c#": 1,
            "category": "Lightbulb",
            "host_ip": host,
            "host_port": port,
            "name": "unittestLight",
            "peers": {
                "decc6fa3-de3e-41c9-adba-ef7409821bfc": {
                    "admin": True,
                    "key": "d708df2fbf4a8779669f0ccd43f4962d6d49e4274f88b1292f822edc3bcf8ed8",
                }
            },
            "unsuccessful_tries": 0,
        }
        f = tempfile.NamedTemporaryFile("w", suffix=".json", delete=False)
        json.dump(cfg, f)
        f.close()
        self.config = f.name
        # No multicast: the peer's own zeroconf instance is not needed.
        with mock.patch.object(accessoryserver, "Zeroconf", mock.MagicMock()):
            self.httpd = accessoryserver.AccessoryServer(self.config, None)
        self.httpd.daemon_threads = True
        acc = Accessory.create_with_info(1, "Testlicht", "lusiardi.de", "Demoserver", "0001", "0.1")
        svc = acc.add_service(ServicesTypes.LIGHTBULB)
        svc.add_char(CharacteristicsTypes.ON, value=False)
        self.httpd.add_accessory(acc)
        self.thread = threading.Thread(target=self.httpd.serve_forever, daemon=True)
        self.thread.start()

    def stop(self) -> None:
        self.httpd.shutdown()
        self.thread.join(5)
        os.unlink(self.config)


def http_response(code: int, body: bytes) -> bytes:
    reason = {200: "OK", 400: "Bad Request"}[code]
    return (
        f"HTTP/1.1 {code} {reason}\r\nContent-Type: application/pairing+tlv8\r\n"
        f"Content-Length: {len(body)}\r\n\r\n"
    ).encode() + body


class FaultyPeer:
    """Loopback front end: one scripted outcome per accepted connection.

    Outcomes: close_now, close, http400, garbage, auth, success (default).
    `stop()` closes the listener so that connects are refused.
    """

    def __init__(self, host: str, port: int, backend: RealAccessory) -> None:
        self.host, self.port, self.backend = host, port, backend
        self.script: deque[str] = deque()
        self.accepted: list[tuple[float, str]] = []
        self.open = 0
        self.max_open = 0
        self._server: asyncio.AbstractServer | None = None
        self._writers: set[asyncio.StreamWriter] = set()

    async def start(self) -> None:
        self._server = await asyncio.start_server(self._handle, self.host, self.port, reuse_address=True)

    async def stop(self) -> None:
        if self._server:
            self._server.close()
            await self._server.wait_closed()
            self._server = None

    def drop_all(self) -> None:
        for w in list(self._writers):
            w.transport.abort()

    @staticmethod
    async def _read_request(reader: asyncio.StreamReader) -> bytes:
        head = await reader.readuntil(b"\r\n\r\n")
        length = 0
        for line in head.split(b"\r\n"):
            if line.lower().startswith(b"content-length:"):
                length = int(line.split(b":")[1])
        return head + (await reader.readexactly(length) if length else b"")

    async def _handle(self, reader: asyncio.StreamReader, writer: asyncio.StreamWriter) -> None:
        loop = asyncio.get_running_loop()
        outcome = self.script.popleft() if self.script else "success"
        self.accepted.append((loop.time(), outcome))
        self.open += 1
        self.max_open = max(self.max_open, self.open)
        self._writers.add(writer)
        try:
            if outcome == "close_now":
                return
            if outcome == "success":
                await self._proxy(reader, writer)
                return
            await self._read_request(reader)
            if outcome == "close":
                return
            if outcome == "http400":
                writer.write(http_response(400, b""))
            elif outcome == "garbage":
                # M2 without public key / encrypted data
                writer.write(http_response(200, TLV.encode_list([(TLV.kTLVType_State, TLV.M2)])))
            elif outcome == "auth":
                writer.write(
                    http_response(
                        200,
                        TLV.encode_list(
                            [
                                (TLV.kTLVType_State, TLV.M2),
                                (TLV.kTLVType_Error, TLV.kTLVError_Authentication),
                            ]
                        ),
                    )
                )
            else:
                raise AssertionError(outcome)
            await writer.drain()
            await reader.read()  # until the client hangs up
        except (asyncio.IncompleteReadError, ConnectionError, OSError):
            pass
        finally:
            self.open -= 1
            self._writers.discard(writer)
            with contextlib.suppress(Exception):
                writer.close()

    async def _proxy(self, reader: asyncio.StreamReader, writer: asyncio.StreamWriter) -> None:
        breader, bwriter = await asyncio.open_connection(self.backend.host, self.backend.port)

        async def pipe(r: asyncio.StreamReader, w: asyncio.StreamWriter) -> None:
            try:
                while data := await r.read(65536):
                    w.write(data)
                    await w.drain()
            except (ConnectionError, OSError):
                pass
            finally:
                with contextlib.suppress(Exception):
                    w.close()

        await asyncio.gather(pipe(reader, bwriter), pipe(breader, writer))


class Probe:
    """Observes connection attempts by wrapping (not replacing) _connect_once."""

    def __init__(self, pairing: IpPairing) -> None:
        self.connection = pairing.connection
        self.real = self.connection._connect_once
        self.attempts: list[dict] = []
        self.in_flight = 0
        self.max_in_flight = 0
        self.on_start: dict[int, callable] = {}
        self.violations: list[str] = []
        self.connection._connect_once = self._wrapped  # instance attribute shadows the method

    async def _wrapped(self) -> None:
        loop = asyncio.get_running_loop()
        index = len(self.attempts)
        rec = {
            "start": loop.time(),
            "end": None,
            "outcome": None,
            "task": asyncio.current_task(),
            "excluded": set(self.connection._pair_verify_failed_hosts),
        }
        # single connector: whoever runs the attempt is the registered connector,
        # and every earlier connector task is finished.  (Recorded, not raised:
        # the reconnect loop would swallow an AssertionError.)
        if rec["task"] is not self.connection._connector:
            self.violations.append(f"attempt {index} made by a task that is not the connector")
        for earlier in self.attempts:
            if earlier["task"] is not rec["task"] and not earlier["task"].done():
                self.violations.append(f"attempt {index}: two connector tasks alive")
        if self.in_flight:
            self.violations.append(f"attempt {index} started while another one is in flight")
        if self.connection.closing:
            self.violations.append(f"attempt {index} started after close")
        self.attempts.append(rec)
        self.in_flight += 1
        self.max_in_flight = max(self.max_in_flight, self.in_flight)
        try:
            if index in self.on_start:
                self.on_start[index]()
            await self.real()
            rec["outcome"] = "ok"
        except BaseException as ex:
            rec["outcome"] = type(ex).__name__
            rec["exception"] = ex
            raise
        finally:
            rec["end"] = loop.time()
            self.in_flight -= 1

    def gaps(self, first: int = 0) -> list[float]:
        """Loop time between the end of attempt i and the start of attempt i+1."""
        a = self.attempts
        return [a[i + 1]["start"] - a[i]["end"] for i in range(first, len(a) - 1)]

    def outcomes(self) -> list[str]:
        return [a["outcome"] for a in self.attempts]

    async def advance_to_fresh_wait(self, step: float = 0.25) -> None:
        """Advance the clock until one more attempt has just ended (a back-off wait just began)."""
        count = len(self.attempts)
        while len(self.attempts) == count or self.in_flight:
            await advance(step, step=step)

    def finish(self) -> None:
        assert not self.violations, self.violations
        assert self.max_in_flight <= 1 and self.in_flight == 0


def expected_backoff(n: int) -> list[float]:
    out, interval = [], 0.5
    for _ in range(n):
        interval = min(60, 1.5 * interval)
        out.append(interval)
    return out


def check_gaps(gaps: list[float], expected: list[float], slack: float) -> None:
    assert len(gaps) == len(expected), (gaps, expected)
    for got, want in zip(gaps, expected):
        assert want - 0.02 <= got <= want + slack, f"gap {got:.3f} not in [{want}, {want + slack}]: {gaps}"
        assert got <= 60 + slack
        assert got >= 0.5, "busy loop"


def make_pairing(port: int, hosts: list[str]) -> IpPairing:
    controller = types.SimpleNamespace(_char_cache=CharacteristicCacheMemory())
    pairing_data = {
        "Connection": "IP",
        "iOSDeviceLTPK": "d708df2fbf4a8779669f0ccd43f4962d6d49e4274f88b1292f822edc3bcf8ed8",
        "iOSPairingId": "decc6fa3-de3e-41c9-adba-ef7409821bfc",
        "AccessoryLTPK": "7986cf939de8986f428744e36ed72d86189bea46b4dcdc8d9d79a3e4fceb92b9",
        "AccessoryPairingID": ACCESSORY_ID,
        "AccessoryPort": port,
        "AccessoryIP": hosts[0],
        "AccessoryIPs": list(hosts),
        "iOSDeviceLTSK": "fa45f082ef87efc6c8c8d043d74084a3ea923a2253e323a7eb9917b4090c2fcc",
    }
    return IpPairing(controller, pairing_data)


async def wait_until(pred, real_timeout: float = 5.0) -> None:
    loop = asyncio.get_running_loop()
    real_deadline = loop.time() - loop.offset + real_timeout
    while not pred():
        assert loop.time() - loop.offset < real_deadline, "condition not reached"
        await asyncio.sleep(0.005)


# --------------------------------------------------------------------------
# Scenario A: refused forever -> back-off grows to the 60 s cap, one connector,
# concurrent triggers, early wake-up, trigger during an attempt, close
# --------------------------------------------------------------------------
async def scenario_a(backend: RealAccessory) -> None:
    port = free_port("127.0.0.1")  # nothing listens here: connection refused
    pairing = make_pairing(port, ["127.0.0.1"])
    conn = pairing.connection
    probe = Probe(pairing)

    # a trigger that arrives while attempt #3 is in flight must neither start a
    # second connector nor make the following back-off disappear
    probe.on_start[3] = lambda: (conn.reconnect_soon(), pairing._async_description_update(None))

    # concurrent triggers in one tick
    conn.reconnect_soon()
    conn.reconnect_soon()
    pairing._async_description_update(None)
    callers = [asyncio.ensure_future(asyncio.wait_for(conn.ensure_connection(), 5)) for _ in range(2)]
    connector = conn._connector
    assert connector is not None

    async def late_callers() -> list[asyncio.Future]:
        out = []
        for _ in range(3):
            await asyncio.sleep(40)  # loop time: lands in the middle of waits
            out.append(asyncio.ensure_future(asyncio.wait_for(conn.ensure_connection(), 3)))
        return out

    late = asyncio.ensure_future(late_callers())
    n = 16
    await advance(sum(expected_backoff(n)) + 40)
    for fut in callers + await late:
        res = (await asyncio.gather(fut, return_exceptions=True))[0]
        assert isinstance(res, asyncio.TimeoutError), res  # bounded wait, own timeout
    assert conn._connector is connector and not connector.done(), "caller timeout aborted the connector"
    assert connector.cancelling() == 0

    assert len(probe.attempts) >= n + 1, len(probe.attempts)
    assert set(probe.outcomes()) == {"ConnectionError"}, set(probe.outcomes())
    gaps = probe.gaps()
    check_gaps(gaps[:n], expected_backoff(n), slack=0.8)
    assert all(59.9 <= g <= 60.8 for g in gaps[n:]), gaps[n:]
    assert probe.max_in_flight == 1
    assert {id(a["task"]) for a in probe.attempts} == {id(connector)}

    # early wake-up in the middle of a 60 s wait
    await probe.advance_to_fresh_wait()
    count = len(probe.attempts)
    await advance(5)
    assert len(probe.attempts) == count
    pairing._async_description_update(None)
    pairing._async_description_update(None)  # second one while the wake-up is pending
    conn.reconnect_soon()
    await wait_until(lambda: len(probe.attempts) == count + 1 and probe.in_flight == 0, 2)
    woke = probe.attempts[count]["start"] - probe.attempts[count - 1]["end"]
    assert 4.9 <= woke <= 7.0, woke
    assert conn._connector is connector and not connector.done()
    # ... but the wake-up neither resets nor skips the back-off that follows
    await advance(59)
    assert len(probe.attempts) == count + 1, "back-off after a hastened attempt was skipped/shortened"
    await advance(2)
    await wait_until(lambda: len(probe.attempts) == count + 2 and probe.in_flight == 0, 2)
    assert 59.9 <= probe.gaps()[-1] <= 61.5, probe.gaps()[-1]
    assert probe.max_in_flight == 1

    # close during the wait: the connector ends, and nothing is attempted again
    count = len(probe.attempts)
    await advance(7)
    await pairing.close()
    assert connector.done()
    await advance(200)
    assert len(probe.attempts) == count and probe.in_flight == 0
    assert conn._connector is connector
    probe.finish()
    print(f"A ok: {len(probe.attempts)} attempts, gaps {[round(g, 2) for g in gaps[:n + 2]]}")


# --------------------------------------------------------------------------
# Scenario B: peer closes / 400 / malformed during verify, then success; drop
# --------------------------------------------------------------------------
async def scenario_b(backend: RealAccessory) -> None:
    port = free_port("127.0.0.1")
    peer = FaultyPeer("127.0.0.1", port, backend)
    await peer.start()
    peer.script.extend(["close", "http400", "garbage", "success"])
    pairing = make_pairing(port, ["127.0.0.1"])
    conn = pairing.connection
    probe = Probe(pairing)

    # real time: 0.75 + 1.125 + 1.6875 s of back-off, inside the caller's 10 s
    result = await pairing.get_characteristics([(1, 9)])
    assert result == {(1, 9): {"value": False}}, result
    assert probe.outcomes()[-1] == "ok" and len(probe.attempts) == 4, probe.outcomes()
    assert "ok" not in probe.outcomes()[:-1]
    check_gaps(probe.gaps(), expected_backoff(3), slack=0.4)
    assert conn.is_connected and conn.last_connector_error is None
    first_connector = conn._connector
    assert first_connector.done()

    # later drop: reconnection starts by itself, back-off starts over at 0.75
    peer.script.extend(["close_now", "close", "success"])
    t_drop = asyncio.get_running_loop().time()
    peer.drop_all()
    await wait_until(lambda: len(probe.attempts) == 7 and conn.is_connected, 8)
    assert conn._connector is not first_connector
    assert "ok" not in probe.outcomes()[4:6] and probe.outcomes()[6] == "ok", probe.outcomes()
    assert probe.attempts[4]["start"] - t_drop < 0.5  # prompt first attempt after a loss
    check_gaps(probe.gaps(first=4), expected_backoff(2), slack=0.4)
    assert probe.max_in_flight == 1 and peer.max_open <= 2
    assert (await pairing.get_characteristics([(1, 9)])) == {(1, 9): {"value": False}}

    await pairing.close()
    count = len(probe.attempts)
    peer.drop_all()
    await advance(100)
    assert len(probe.attempts) == count
    await peer.stop()
    probe.finish()
    print(f"B ok: outcomes {probe.outcomes()}")


# --------------------------------------------------------------------------
# Scenario C: waiting callers get an error after a bounded wait and never
# abort the connector; zeroconf update hastens the recovery; close is final
# --------------------------------------------------------------------------
async def scenario_c(backend: RealAccessory) -> None:
    loop = asyncio.get_running_loop()
    port = free_port("127.0.0.1")
    peer = FaultyPeer("127.0.0.1", port, backend)  # not started: refused
    pairing = make_pairing(port, ["127.0.0.1"])
    conn = pairing.connection
    probe = Probe(pairing)

    t0 = loop.time()
    done_at: list[float] = []
    caller = asyncio.ensure_future(pairing.get_characteristics([(1, 9)]))
    caller.add_done_callback(lambda _f: done_at.append(loop.time()))
    await asyncio.sleep(0)
    connector = conn._connector
    await advance(12, step=0.1)
    assert caller.done()
    err = caller.exception()
    assert isinstance(err, AccessoryDisconnectedError), err
    assert conn._connector is connector and not connector.done() and connector.cancelling() == 0
    # pairing-level wait is 10 s
    assert 9.99 <= done_at[0] - t0 <= 10.6, done_at[0] - t0
    assert len(probe.attempts) >= 5

    # caller with its own short timeout
    try:
        await asyncio.wait_for(conn.ensure_connection(), 0.05)
        raise AssertionError("no timeout")
    except asyncio.TimeoutError:
        pass
    # caller that is cancelled
    waiter = asyncio.ensure_future(conn.ensure_connection())
    await asyncio.sleep(0.01)
    waiter.cancel()
    assert (await asyncio.gather(waiter, return_exceptions=True))[0].__class__ is asyncio.CancelledError
    await asyncio.sleep(0)
    assert conn._connector is connector and not connector.done() and connector.cancelling() == 0

    # retries go on ...
    count = len(probe.attempts)
    await advance(40)
    assert len(probe.attempts) > count
    check_gaps(probe.gaps(), expected_backoff(len(probe.attempts) - 1), slack=0.8)

    # ... the accessory comes back and announces itself; a caller that is
    # already waiting gets the connection
    await probe.advance_to_fresh_wait()
    await peer.start()
    waiter = asyncio.ensure_future(conn.ensure_connection())
    await asyncio.sleep(0)
    count = len(probe.attempts)
    pairing._async_description_update(None)
    await asyncio.wait_for(waiter, 5)
    assert conn.is_connected and len(probe.attempts) == count + 1 and probe.outcomes()[-1] == "ok"
    assert connector.done() and connector.exception() is None
    assert (await pairing.get_characteristics([(1, 9)])) == {(1, 9): {"value": False}}
    # connected: triggers are no-ops
    conn.reconnect_soon()
    await conn.ensure_connection()
    await settle()
    assert len(probe.attempts) == count + 1 and conn._connector is connector

    # close is final, even if the socket dies afterwards
    await pairing.close()
    peer.drop_all()
    await advance(120)
    assert len(probe.attempts) == count + 1 and probe.max_in_flight == 1
    await peer.stop()
    probe.finish()
    print(f"C ok: caller error {err!r}")


# --------------------------------------------------------------------------
# Scenario D: authentication error ends the retries and reaches the caller
# --------------------------------------------------------------------------
async def scenario_d(backend: RealAccessory) -> None:
    port = free_port("127.0.0.1")
    peer = FaultyPeer("127.0.0.1", port, backend)
    await peer.start()
    peer.script.extend(["close", "auth"])
    pairing = make_pairing(port, ["127.0.0.1"])
    conn = pairing.connection
    probe = Probe(pairing)

    callers = [asyncio.ensure_future(pairing.get_characteristics([(1, 9)])) for _ in range(2)]
    timed = asyncio.ensure_future(asyncio.wait_for(conn.ensure_connection(), 0.2))
    results = await asyncio.gather(*callers, timed, return_exceptions=True)
    assert isinstance(results[0], AuthenticationError), results
    assert isinstance(results[1], AuthenticationError), results
    assert isinstance(results[2], asyncio.TimeoutError), results
    connector = conn._connector
    assert connector.done() and isinstance(connector.exception(), AuthenticationError)
    assert isinstance(conn.last_connector_error, AuthenticationError)
    assert probe.outcomes() == ["AccessoryDisconnectedError", "AuthenticationError"], probe.outcomes()
    check_gaps(probe.gaps(), expected_backoff(1), slack=0.4)
    await advance(200)
    assert len(probe.attempts) == 2 and not conn.is_connected
    await pairing.close()  # must not raise
    await advance(100)
    assert len(probe.attempts) == 2 and len(peer.accepted) == 2
    await peer.stop()
    probe.finish()
    print(f"D ok: outcomes {probe.outcomes()}")


# --------------------------------------------------------------------------
# Scenario E: two advertised addresses, the first one is another accessory
# --------------------------------------------------------------------------
async def scenario_e(backend: RealAccessory) -> None:
    try:
        port = free_port("127.0.0.1", "127.0.0.2")
        other = RealAccessory("127.0.0.2", port, OTHER_ACCESSORY_ID)
    except (OSError, RuntimeError) as ex:
        print(f"E skipped: cannot use 127.0.0.2 ({ex})")
        return
    peer = FaultyPeer("127.0.0.1", port, backend)
    await peer.start()
    try:
        pairing = make_pairing(port, ["127.0.0.2", "127.0.0.1"])
        conn = pairing.connection
        probe = Probe(pairing)
        await asyncio.wait_for(conn.ensure_connection(), 5)
        assert probe.outcomes() == ["IncorrectPairingIdError", "ok"], probe.outcomes()
        assert isinstance(probe.attempts[0]["exception"], IncorrectPairingIdError)
        assert probe.attempts[0]["excluded"] == set()
        assert probe.attempts[1]["excluded"] == {"127.0.0.2"}
        assert probe.gaps()[0] < 0.3, "moving on to the next address must not back off"
        assert conn.connected_host == "127.0.0.1" and conn.is_connected
        await pairing.close()
        probe.finish()

        # The wrong accessory is the only advertised address: there is no
        # other address to move on to, so every retry backs off, and the
        # address is tried again every time (never excluded forever).
        pairing = make_pairing(port, ["127.0.0.2"])
        conn = pairing.connection
        probe2 = Probe(pairing)
        pairing._async_description_update(None)
        while len(probe2.attempts) < 5 or probe2.in_flight:
            await advance(0.05, step=0.05, real=0.004)
        assert set(probe2.outcomes()) == {"IncorrectPairingIdError"}, probe2.outcomes()
        check_gaps(probe2.gaps(), expected_backoff(len(probe2.attempts) - 1), slack=0.5)
        await pairing.close()
        count = len(probe2.attempts)
        await advance(100)
        assert len(probe2.attempts) == count
        probe2.finish()
        print(f"E ok: outcomes {probe.outcomes()} / {probe2.outcomes()}")
    finally:
        await peer.stop()
        await asyncio.get_running_loop().run_in_executor(None, other.stop)


async def main() -> None:
    loop = asyncio.get_running_loop()
    backend = RealAccessory("127.0.0.1", free_port("127.0.0.1"), ACCESSORY_ID)
    unhandled: list[dict] = []
    loop.set_exception_handler(lambda _loop, ctx: unhandled.append(ctx))
    try:
        for scenario in (scenario_a, scenario_b, scenario_c, scenario_d, scenario_e):
            await scenario(backend)
    finally:
        await loop.run_in_executor(None, backend.stop)
    assert not unhandled, unhandled
    print("ALL OK")


def test_demo_k10a() -> None:
    """pytest entry point."""
    loop = WarpLoop()
    try:
        loop.run_until_complete(main())
        loop.run_until_complete(loop.shutdown_default_executor())
    finally:
        loop.close()


if __name__ == "__main__":
    test_demo_k10a()
