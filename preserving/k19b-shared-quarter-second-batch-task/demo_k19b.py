"""Demonstration for change k19b (mDNS 'resolve later' mechanics of aiohomekit/zeroconf.py).

Everything here is real: a real asyncio event loop, a real zeroconf ``AsyncZeroconf`` bound to
the loopback interface only, a real ``AsyncServiceBrowser`` and real aiohomekit controllers
(``IpController``, ``CoAPController`` and the aggregate ``Controller``).  Advertisements are real mDNS
response packets (``DNSOutgoing`` -> wire bytes -> ``DNSIncoming``) fed to zeroconf's record
manager, exactly what the socket reader does when a datagram arrives, so the real browser fires
the real ``service_state_changed`` signal into ``ZeroconfController._handle_service``.

The checks are written against the semantic property only (C19), never against the mechanism:

* a caller of ``async_find`` is completed with the discovery as soon as a valid advertisement for
  its id has been PROCESSED (= ``_async_handle_loaded_service_info`` has run for it) before its
  timeout - whatever the order of waiter registration / advertisement arrival / other waiters /
  cancelled waiters - and otherwise fails with ``AccessoryNotFoundError`` at its timeout;
* parsing lower-cases ids, skips link-local and unspecified addresses (IPv4 first) and reports
  c#, s#, ff, sf, ci; malformed advertisements are ignored;
* the browser callback never raises, nothing reaches the loop's exception handler and nothing is
  logged at ERROR level, with no pairing, a pairing with cached state and a pairing without.

WHEN the advertisement is processed (0.5 s timer per service, a shared 0.25 s batch, ...) is left
free, so the script must - and does - pass on both the unmodified and the modified code.

Run:  PYTHONPATH=/tmp/wt/k19b /venv/bin/python demo_k19b.py        (or via pytest)
"""

from __future__ import annotations

import asyncio
import contextlib
import logging
import socket
import sys

from zeroconf import DNSIncoming, DNSOutgoing, const
from zeroconf.asyncio import AsyncServiceBrowser, AsyncServiceInfo, AsyncZeroconf

from aiohomekit import Controller
from aiohomekit.characteristic_cache import CharacteristicCacheMemory
from aiohomekit.controller.abstract import TransportType
from aiohomekit.controller.coap.controller import CoAPController
from aiohomekit.controller.ip.controller import IpController
from aiohomekit.exceptions import AccessoryNotFoundError
from aiohomekit.model import Categories
from aiohomekit.model.feature_flags import FeatureFlags
from aiohomekit.model.status_flags import StatusFlags
from aiohomekit.zeroconf import HAP_TYPE_TCP, HAP_TYPE_UDP, ZeroconfServiceListener

ID_A = "D1:9B:CC:00:00:01"
ID_B = "D1:9B:CC:00:00:02"
ID_C = "D1:9B:CC:00:00:03"
# NB: the zeroconf instance is real, so unrelated HomeKit test accessories that other processes on
# this machine announce over loopback multicast may show up in ``discoveries`` as well; every check
# below is therefore about OUR ids/names only.
OURS = {ID_A.lower(), ID_B.lower(), ID_C.lower()}

# A find task must finish within this long after its advertisement was processed / after its
# timeout expired.  (In practice: one or two loop iterations.)
PROMPT = 0.15


class _ErrorCollector(logging.Handler):
    def __init__(self) -> None:
        super().__init__(logging.ERROR)
        self.records: list[logging.LogRecord] = []

    def emit(self, record: logging.LogRecord) -> None:
        self.records.append(record)


def make_info(
    name: str,
    props: dict[bytes, bytes],
    addrs: tuple[str, ...] = ("127.0.0.1",),
    hap_type: str = HAP_TYPE_TCP,
    port: int = 51827,
) -> AsyncServiceInfo:
    packed = [socket.inet_pton(socket.AF_INET6 if ":" in a else socket.AF_INET, a) for a in addrs]
    return AsyncServiceInfo(
        hap_type,
        f"{name}.{hap_type}",
        addresses=packed,
        port=port,
        properties=props,
        server=f"{name}.local.",
    )


def props_for(device_id: str, **extra: str) -> dict[bytes, bytes]:
    p = {"id": device_id, "md": "demo", "c#": "1", "s#": "1", "ci": "5", "sf": "1", "ff": "0", "pv": "1.1"}
    p.update(extra)
    return {k.encode(): v.encode() for k, v in p.items()}


class Env:
    """One real zeroconf instance + browser + controller under observation."""

    def __init__(self, azc: AsyncZeroconf, controllers: list) -> None:
        self.azc = azc
        self.loop = asyncio.get_running_loop()
        self.controllers = controllers
        self.processed: dict[str, float] = {}  # lower-case id -> loop time first processed
        self.callback_errors: list[BaseException] = []
        self.loop_errors: list[dict] = []
        self.finds: list[dict] = []

    # -- observation ---------------------------------------------------------------------
    def observe(self, controller) -> None:
        """Spy on 'advertisement processed' and on exceptions leaving the browser callback."""
        orig_loaded = controller._async_handle_loaded_service_info
        orig_cb = controller._handle_service

        def loaded(info):
            before = set(controller.discoveries)
            orig_loaded(info)
            for dev_id in set(controller.discoveries) - before:
                self.processed.setdefault(dev_id, self.loop.time())
                # "as soon as": by the time processing returns no waiter for that id is left
                assert not controller._waiters.get(dev_id), "waiters left behind after processing"

        def cb(*args, **kwargs):
            try:
                return orig_cb(*args, **kwargs)
            except BaseException as ex:  # the property: the browser callback never raises
                self.callback_errors.append(ex)
                raise

        controller._async_handle_loaded_service_info = loaded
        controller._handle_service = cb  # installed before async_start registers it

    # -- stimulus ------------------------------------------------------------------------
    def inject(self, *records, ttl: int | None = None) -> None:
        """Deliver one real mDNS response packet containing the records."""
        out = DNSOutgoing(const._FLAGS_QR_RESPONSE | const._FLAGS_AA)
        for record in records:
            out.add_answer_at_time(record, 0)
        for packet in out.packets():
            self.azc.zeroconf.record_manager.async_updates_from_response(DNSIncoming(packet))

    def advertise(self, info: AsyncServiceInfo) -> None:
        self.inject(info.dns_pointer(), info.dns_service(), info.dns_text(), *info.dns_addresses())

    def advertise_ptr_only(self, info: AsyncServiceInfo) -> None:
        self.inject(info.dns_pointer())

    def advertise_rest(self, info: AsyncServiceInfo) -> None:
        self.inject(info.dns_service(), info.dns_text(), *info.dns_addresses())

    def goodbye(self, info: AsyncServiceInfo) -> None:
        self.inject(info.dns_pointer(override_ttl=0))

    # -- waiters -------------------------------------------------------------------------
    def find(self, finder, device_id: str, timeout: float) -> dict:
        rec = {"id": device_id.lower(), "timeout": timeout, "start": self.loop.time(), "end": None}

        async def run():
            try:
                rec["result"] = await finder.async_find(device_id, timeout)
                rec["outcome"] = "found"
            except AccessoryNotFoundError:
                rec["outcome"] = "notfound"
            except asyncio.CancelledError:
                rec["outcome"] = "cancelled"
                raise
            finally:
                rec["end"] = self.loop.time()

        rec["task"] = self.loop.create_task(run())
        self.finds.append(rec)
        return rec

    async def settle(self) -> None:
        await asyncio.gather(*(f["task"] for f in self.finds), return_exceptions=True)

    def check_oracle(self) -> None:
        """The property, stated on observable events only."""
        for f in self.finds:
            if f["outcome"] == "cancelled":
                continue
            deadline = f["start"] + f["timeout"]
            t_proc = self.processed.get(f["id"])
            if f["outcome"] == "found":
                assert t_proc is not None, f"found without a processed advertisement: {f}"
                assert f["result"].description.id == f["id"]
                # completed as soon as processed (or at once if it was already known)
                assert f["end"] - max(t_proc, f["start"]) < PROMPT, (f, t_proc)
                assert f["end"] < deadline + PROMPT
            else:
                assert f["outcome"] == "notfound", f
                # not found only AT the timeout, and only if nothing was processed before it
                assert deadline - 0.01 <= f["end"] < deadline + PROMPT, (f, deadline)
                assert t_proc is None or t_proc >= deadline - 0.01, (f, t_proc)

    def check_quiet(self, errors: _ErrorCollector) -> None:
        assert not self.callback_errors, self.callback_errors
        assert not self.loop_errors, self.loop_errors
        assert not errors.records, [r.getMessage() for r in errors.records]


@contextlib.asynccontextmanager
async def environment(kind: str = "ip", char_cache=None):
    loop = asyncio.get_running_loop()
    errors = _ErrorCollector()
    logging.getLogger("aiohomekit").addHandler(errors)
    azc = AsyncZeroconf(interfaces=["127.0.0.1"])  # loopback only
    await azc.zeroconf.async_wait_for_start()
    browser = AsyncServiceBrowser(azc.zeroconf, [HAP_TYPE_TCP, HAP_TYPE_UDP], listener=ZeroconfServiceListener())
    char_cache = char_cache or CharacteristicCacheMemory()
    aggregate = None
    if kind == "aggregate":
        aggregate = Controller(async_zeroconf_instance=azc, char_cache=char_cache)
        # The aggregate builds its transports inside async_start; observe them as they are built.
        env = Env(azc, [])
        orig_register = aggregate._async_register_backend

        async def register(controller):
            env.observe(controller)
            env.controllers.append(controller)
            await orig_register(controller)

        aggregate._async_register_backend = register
        await aggregate.async_start()
        assert set(aggregate.transports) >= {TransportType.IP, TransportType.COAP}
        env.finder = aggregate
    else:
        cls = {"ip": IpController, "coap": CoAPController}[kind]
        controller = cls(char_cache=char_cache, zeroconf_instance=azc)
        env = Env(azc, [controller])
        env.observe(controller)
        await controller.async_start()
        env.finder = controller
    env.aggregate = aggregate
    old_handler = loop.get_exception_handler()
    loop.set_exception_handler(lambda _loop, ctx: env.loop_errors.append(ctx))
    try:
        yield env
        await env.settle()
        env.check_oracle()
        # let any stragglers (background tasks) surface their errors
        await asyncio.sleep(0.05)
        env.check_quiet(errors)
    finally:
        for f in env.finds:
            f["task"].cancel()
        if aggregate is not None:
            await aggregate.async_stop()
        else:
            await env.controllers[0].async_stop()
        await browser.async_cancel()
        await azc.async_close()
        loop.set_exception_handler(old_handler)
        logging.getLogger("aiohomekit").removeHandler(errors)


# ---------------------------------------------------------------------------------------------
# scenarios
# ---------------------------------------------------------------------------------------------


async def scenario_waiters_then_advert():
    """3 waiters / 2 ids registered first; advert for A arrives; B never advertised."""
    async with environment("ip") as env:
        w_short = env.find(env.finder, ID_A, 0.05)  # expires long before anything can be processed
        w_a1 = env.find(env.finder, ID_A.lower(), 5.0)
        w_a2 = env.find(env.finder, ID_A, 8.0)
        w_b = env.find(env.finder, ID_B, 1.5)
        await asyncio.sleep(0.15)
        assert w_short["outcome"] == "notfound"
        env.advertise(make_info("k19b-acc-a", props_for(ID_A)))
        await env.settle()
        assert w_a1["outcome"] == w_a2["outcome"] == "found"
        assert w_a1["result"] is w_a2["result"]
        assert w_b["outcome"] == "notfound"
        # found well before the (generous) timeouts; the exact delay is the implementation's choice
        assert w_a1["end"] - w_a1["start"] < 2.0


async def scenario_advert_then_waiter_before_resolution():
    """Advert arrives first, the waiter registers while resolution is still pending."""
    async with environment("ip") as env:
        env.advertise(make_info("k19b-acc-a", props_for(ID_A)))
        await asyncio.sleep(0.05)
        w = env.find(env.finder, ID_A, 5.0)
        await env.settle()
        assert w["outcome"] == "found"
        # and a late caller gets the known discovery at once
        t0 = env.loop.time()
        d = await env.finder.async_find(ID_A.lower(), 0.01)
        assert env.loop.time() - t0 < 0.05 and d.description.id == ID_A.lower()


async def scenario_cancelled_waiter():
    """A cancelled waiter neither breaks processing nor the other waiters."""
    async with environment("ip") as env:
        w1 = env.find(env.finder, ID_A, 5.0)
        w2 = env.find(env.finder, ID_A, 5.0)
        w3 = env.find(env.finder, ID_B, 5.0)
        await asyncio.sleep(0.02)
        w1["task"].cancel()
        env.advertise(make_info("k19b-acc-a", props_for(ID_A)))
        await asyncio.sleep(0.1)
        w3["task"].cancel()  # cancelled while A's resolution may be pending
        env.advertise(make_info("k19b-acc-b", props_for(ID_B)))
        await env.settle()
        assert (w1["outcome"], w2["outcome"], w3["outcome"]) == ("cancelled", "found", "cancelled")
        # B is still discovered although its only waiter went away
        d = await env.finder.async_find(ID_B, 3.0)
        assert d.description.id == ID_B.lower()


async def scenario_burst_two_ids():
    """Two services announced 0.15 s apart (inside one debounce window of either version)."""
    async with environment("ip") as env:
        wa = env.find(env.finder, ID_A, 5.0)
        wb = env.find(env.finder, ID_B, 5.0)
        env.advertise(make_info("k19b-acc-a", props_for(ID_A)))
        env.advertise(make_info("k19b-acc-a", props_for(ID_A, **{"s#": "2"})))  # duplicate/updated announcement
        await asyncio.sleep(0.15)
        env.advertise(make_info("k19b-acc-b", props_for(ID_B)))
        await env.settle()
        assert wa["outcome"] == wb["outcome"] == "found"
        assert wa["result"].description.name == "k19b-acc-a" and wb["result"].description.name == "k19b-acc-b"
        assert wa["result"].description.state_num == 2  # resolved from the cache, i.e. the newest TXT


async def scenario_reannounce_after_resolution():
    """After a service was resolved a later announcement (new TXT) is resolved again."""
    async with environment("ip") as env:
        env.advertise(make_info("k19b-acc-a", props_for(ID_A)))
        d = await env.finder.async_find(ID_A, 5.0)
        assert d.description.state_num == 1
        await asyncio.sleep(1.1)  # zeroconf suppresses TXT updates for 1 s after the previous one
        env.advertise(make_info("k19b-acc-a", props_for(ID_A, **{"s#": "7", "c#": "3"})))
        for _ in range(40):
            await asyncio.sleep(0.05)
            d = await env.finder.async_find(ID_A, 0.01)
            if d.description.state_num == 7:
                break
        assert (d.description.state_num, d.description.config_num) == (7, 3)


async def scenario_split_advert():
    """PTR first, SRV/TXT/A 0.35 s later: resolved from the cache or via a (loopback) request."""
    async with environment("ip") as env:
        info = make_info("k19b-acc-a", props_for(ID_A))
        w = env.find(env.finder, ID_A, 6.0)
        env.advertise_ptr_only(info)
        await asyncio.sleep(0.35)
        env.advertise_rest(info)
        await env.settle()
        assert w["outcome"] == "found" and w["end"] - w["start"] < 4.0


async def scenario_never_completed_advert():
    """PTR only (an exhaustive truncation of a valid advert): ignored, waiter -> not found."""
    async with environment("ip") as env:
        w = env.find(env.finder, ID_A, 4.2)
        env.advertise_ptr_only(make_info("k19b-acc-a", props_for(ID_A)))
        await env.settle()
        assert w["outcome"] == "notfound" and not (OURS & set(env.finder.discoveries))


async def scenario_parsing_and_malformed():
    """Upper-case id and keys, address filtering, numbers; malformed ones in the same burst ignored."""
    async with environment("ip") as env:
        w = env.find(env.finder, ID_A.lower(), 5.0)
        wc = env.find(env.finder, ID_C, 1.5)
        # malformed: no id / only link-local+unspecified addresses / non numeric c# / no address
        env.advertise(make_info("k19b-bad-noid", {b"md": b"x", b"c#": b"1"}))
        env.advertise(make_info("k19b-bad-addr", props_for(ID_C), addrs=("169.254.7.7", "fe80::7")))
        env.advertise(make_info("k19b-bad-num", props_for(ID_C, **{"c#": "one"})))
        env.advertise(make_info("k19b-bad-flag", props_for(ID_C, **{"sf": ""})))
        good = make_info(
            "k19b-Acc-A",
            {b"ID": ID_A.encode(), b"MD": b"Model", b"C#": b"12", b"S#": b"34", b"FF": b"2", b"SF": b"1", b"CI": b"8"},
            addrs=("169.254.1.1", "fe80::1", "2001:db8::1", "10.1.2.3"),
            port=8080,
        )
        env.advertise(good)
        await env.settle()
        assert w["outcome"] == "found" and wc["outcome"] == "notfound"
        d = w["result"].description
        assert d.id == ID_A.lower() and d.name == "k19b-Acc-A" and d.model == "Model"
        assert (d.config_num, d.state_num) == (12, 34)
        assert d.feature_flags == FeatureFlags(2) and d.status_flags == StatusFlags(1)
        assert d.category == Categories(8) and d.port == 8080
        assert d.address == "10.1.2.3" and d.addresses == ["10.1.2.3", "2001:db8::1"], d.addresses
        assert OURS & set(env.finder.discoveries) == {ID_A.lower()}


async def scenario_pairings():
    """Pairing with cached state (A), pairing without cached state (B), no pairing (C)."""
    cache = CharacteristicCacheMemory()
    cache.async_create_or_update_map(ID_A, 1, [], None, 1)
    async with environment("ip", char_cache=cache) as env:
        ctl = env.finder
        calls: list[tuple] = []
        for alias, dev_id in (("a", ID_A), ("b", ID_B)):
            pairing = ctl.load_pairing(
                alias,
                {"Connection": "IP", "AccessoryPairingID": dev_id, "AccessoryIP": "127.0.0.1", "AccessoryPort": 9},
            )

            # keep the demo on the loopback/no-connection side: record instead of dialling out
            async def config_changed(config_num, _id=dev_id):
                calls.append((_id, "config_changed", config_num))

            pairing._process_config_changed = config_changed
        assert ctl.pairings[ID_A.lower()].config_num == 1 and ctl.pairings[ID_B.lower()].config_num == -1
        ws = [env.find(ctl, i, 5.0) for i in (ID_A, ID_B, ID_C)]
        env.advertise(make_info("k19b-acc-c", props_for(ID_C)))
        env.advertise(make_info("k19b-acc-b", props_for(ID_B, **{"c#": "4"})))
        env.advertise(make_info("k19b-acc-a", props_for(ID_A, **{"s#": "9"})))
        await env.settle()
        assert [w["outcome"] for w in ws] == ["found"] * 3
        await asyncio.sleep(0.05)
        assert ctl.pairings[ID_A.lower()].description.state_num == 9
        assert ctl.pairings[ID_B.lower()].description.config_num == 4
        assert calls == [(ID_B, "config_changed", 4)], calls


async def scenario_coap_and_aggregate():
    """_hap._udp advert wakes a waiter on the aggregate controller; _hap._tcp one as well."""
    async with environment("aggregate") as env:
        agg = env.finder
        w_udp = env.find(agg, ID_A, 5.0)
        w_tcp = env.find(agg, ID_B, 5.0)
        w_none = env.find(agg, ID_C, 1.2)
        await asyncio.sleep(0.05)
        env.advertise(make_info("k19b-thread-a", props_for(ID_A), hap_type=HAP_TYPE_UDP, port=5683))
        await asyncio.sleep(0.1)
        env.advertise(make_info("k19b-ip-b", props_for(ID_B), hap_type=HAP_TYPE_TCP))
        await env.settle()
        assert (w_udp["outcome"], w_tcp["outcome"], w_none["outcome"]) == ("found", "found", "notfound")
        assert w_udp["result"].description.type == HAP_TYPE_UDP
        assert w_tcp["result"].description.type == HAP_TYPE_TCP
        assert ID_A.lower() in agg.transports[TransportType.COAP].discoveries
        assert ID_A.lower() not in agg.transports[TransportType.IP].discoveries


async def scenario_coap_only():
    async with environment("coap") as env:
        w = env.find(env.finder, ID_A, 5.0)
        env.advertise(make_info("k19b-ignored-tcp", props_for(ID_A), hap_type=HAP_TYPE_TCP))
        await asyncio.sleep(0.7)
        assert not w["task"].done()  # a _hap._tcp advert is not for the CoAP controller
        env.advertise(make_info("k19b-thread-a", props_for(ID_A), hap_type=HAP_TYPE_UDP))
        await env.settle()
        assert w["outcome"] == "found" and w["result"].description.name == "k19b-thread-a"


async def scenario_goodbye_before_resolution():
    """Announcement withdrawn (goodbye) straight away; outcome must merely obey the oracle."""
    async with environment("ip") as env:
        info = make_info("k19b-acc-a", props_for(ID_A))
        w = env.find(env.finder, ID_A, 1.5)
        env.advertise(info)
        await asyncio.sleep(0.05)
        env.goodbye(info)
        await env.settle()
        print(f"    (goodbye scenario outcome: {w['outcome']})")
        # a fresh announcement afterwards is handled normally
        w2 = env.find(env.finder, ID_A, 5.0)
        env.advertise(info)
        await env.settle()
        assert w2["outcome"] == "found"


async def scenario_stop_while_pending():
    """async_stop with a resolution pending: nothing is processed afterwards, nothing leaks/raises."""
    async with environment("ip") as env:
        w = env.find(env.finder, ID_A, 1.2)
        env.advertise(make_info("k19b-acc-a", props_for(ID_A)))
        await asyncio.sleep(0.05)
        before = {t for t in asyncio.all_tasks() if not t.done()}
        await env.finder.async_stop()
        await env.settle()
        assert w["outcome"] == "notfound" and not (OURS & set(env.processed))
        await asyncio.sleep(0.6)
        assert not (OURS & set(env.processed))
        leaked = [t for t in asyncio.all_tasks() if not t.done() and t not in before and t is not asyncio.current_task()]
        assert not [t for t in leaked if "resolve" in repr(t)], leaked
        # environment() calls async_stop once more: re-register so unregister_handler has something to remove
        env.finder._browser.service_state_changed.register_handler(env.finder._handle_service)


SCENARIOS = [
    scenario_waiters_then_advert,
    scenario_advert_then_waiter_before_resolution,
    scenario_cancelled_waiter,
    scenario_burst_two_ids,
    scenario_reannounce_after_resolution,
    scenario_split_advert,
    scenario_never_completed_advert,
    scenario_parsing_and_malformed,
    scenario_pairings,
    scenario_coap_and_aggregate,
    scenario_coap_only,
    scenario_goodbye_before_resolution,
    scenario_stop_while_pending,
]


async def main() -> None:
    import aiohomekit

    print("aiohomekit from", aiohomekit.__file__)
    for scenario in SCENARIOS:
        t0 = asyncio.get_running_loop().time()
        await scenario()
        print(f"PASS {scenario.__name__}  ({asyncio.get_running_loop().time() - t0:.2f}s)")
    print("ALL PASS")


def test_demo_k19b() -> None:
    asyncio.run(main())


if __name__ == "__main__":
    asyncio.run(main())
    sys.exit(0)
