"""
Demonstration for change k05a (property C05: encrypted IP session framing).

Runs against REAL objects only: a real asyncio event loop, real loopback TCP
sockets, a real HomeKitConnection (connected with its own _connect_once, i.e.
aiohappyeyeballs + loop.create_connection) and a real SecureHomeKitProtocol.
The accessory end is an independent implementation of the HAP session framing
written directly on top of cryptography's ChaCha20Poly1305.

It must pass both on the unmodified library and with patch.diff applied:

    PYTHONPATH=/tmp/wt/k05a /venv/bin/python demo_k05a.py
    PYTHONPATH=/tmp/wt/k05a /venv/bin/python -m pytest -q -p no:cacheprovider demo_k05a.py

The checks only use what the property promises (frames of at most 1024
plaintext bytes that decrypt in order to the request; inbound stream decoded to
exactly the plaintext sent for any framing/segmentation; a frame failing
authentication is never delivered and ends the session).  They deliberately do
NOT look at how many frames a request uses, how many writes/reads happen, what
the receive buffer looks like or how many times the HTTP layer is called.
"""

from __future__ import annotations

import asyncio
import random
import sys

from cryptography.exceptions import InvalidTag
from cryptography.hazmat.primitives.ciphers.aead import ChaCha20Poly1305

from aiohomekit.controller.ip.connection import (
    HomeKitConnection,
    InsecureHomeKitProtocol,
    SecureHomeKitProtocol,
)
from aiohomekit.exceptions import AccessoryDisconnectedError

TAG = 16


def nonce(counter: int) -> bytes:
    return bytes(4) + counter.to_bytes(8, "little")


# ---------------------------------------------------------------------------
# the accessory end (independent reference implementation of the framing)
# ---------------------------------------------------------------------------
class Accessory:
    def __init__(self, a2c_key: bytes, c2a_key: bytes) -> None:
        self.enc = ChaCha20Poly1305(a2c_key)
        self.dec = ChaCha20Poly1305(c2a_key)
        self.out_counter = 0
        self.in_counter = 0
        self.reader: asyncio.StreamReader | None = None
        self.writer: asyncio.StreamWriter | None = None
        self.connected = asyncio.Event()
        self.frames_seen: list[int] = []

    async def on_connect(self, reader: asyncio.StreamReader, writer: asyncio.StreamWriter) -> None:
        self.reader, self.writer = reader, writer
        self.connected.set()

    async def read_request(self, expected_len: int) -> bytes:
        """What a conformant accessory does: length, ciphertext+tag, verify, append."""
        plain = bytearray()
        while len(plain) < expected_len:
            hdr = await asyncio.wait_for(self.reader.readexactly(2), 5)
            n = int.from_bytes(hdr, "little")
            assert n <= 1024, f"frame of {n} plaintext bytes exceeds the 1024 limit"
            body = await asyncio.wait_for(self.reader.readexactly(n + TAG), 5)
            plain += self.dec.decrypt(nonce(self.in_counter), body, hdr)  # InvalidTag -> demo fails
            self.in_counter += 1
            self.frames_seen.append(n)
        return bytes(plain)

    async def assert_silent(self, seconds: float = 0.02) -> None:
        """Nothing beyond the frames already consumed is on the wire."""
        try:
            extra = await asyncio.wait_for(self.reader.read(1), seconds)
        except asyncio.TimeoutError:
            return
        raise AssertionError(f"unexpected extra bytes from the controller: {extra!r}")

    def encode(self, plaintext: bytes, frame_sizes: list[int]) -> list[bytes]:
        """Encrypt plaintext into frames using the given plaintext sizes (cycled)."""
        frames = []
        pos = 0
        i = 0
        while pos < len(plaintext):
            n = frame_sizes[i % len(frame_sizes)]
            i += 1
            assert 1 <= n <= 1024
            chunk = plaintext[pos : pos + n]
            pos += n
            hdr = len(chunk).to_bytes(2, "little")
            frames.append(hdr + self.enc.encrypt(nonce(self.out_counter), chunk, hdr))
            self.out_counter += 1
        return frames

    async def send_segments(self, stream: bytes, cuts: list[int], pause: float = 0.002) -> None:
        """Write the byte stream as separate TCP writes at the given cut points."""
        prev = 0
        for cut in [*sorted(cuts), len(stream)]:
            if cut > prev:
                self.writer.write(stream[prev:cut])
                await self.writer.drain()
                await asyncio.sleep(pause)
                prev = cut


def http_response(body: bytes) -> bytes:
    return (
        b"HTTP/1.1 200 OK\r\nContent-Type: application/hap+json\r\nContent-Length: "
        + str(len(body)).encode()
        + b"\r\n\r\n"
        + body
    )


def http_event(n: int) -> bytes:
    body = b'{"n":%d}' % n
    return b"EVENT/1.0 200 OK\r\nContent-Length: " + str(len(body)).encode() + b"\r\n\r\n" + body


# ---------------------------------------------------------------------------
# the controller end: the real classes, observed only at their public seams
# ---------------------------------------------------------------------------
class Tap(InsecureHomeKitProtocol):
    """Sits between SecureHomeKitProtocol and InsecureHomeKitProtocol in the MRO and
    records the plaintext handed to the HTTP layer (= "delivered to the application")."""

    def data_received(self, data):
        self.plain += bytes(data)
        super().data_received(data)


class Probe(SecureHomeKitProtocol, Tap):
    def __init__(self, connection, a2c_key, c2a_key):
        super().__init__(connection, a2c_key, c2a_key)
        self.plain = bytearray()
        self.reads: list[int] = []
        self.lost: tuple | None = None

    def data_received(self, data):
        self.reads.append(len(data))
        super().data_received(data)

    def connection_lost(self, exc):
        self.lost = (exc,)
        super().connection_lost(exc)


assert Probe.__mro__[1:4] == (SecureHomeKitProtocol, Tap, InsecureHomeKitProtocol)


class Owner:
    """The application: receives decoded events."""

    name = "demo"
    description = None

    def __init__(self) -> None:
        self.events: list = []

    def event_received(self, parsed) -> None:
        self.events.append(parsed)

    async def connection_made(self, secure: bool) -> None:
        pass


class Session:
    async def open(self, rng: random.Random, real_socket: bool = True) -> Session:
        self.a2c, self.c2a = rng.randbytes(32), rng.randbytes(32)
        self.acc = Accessory(self.a2c, self.c2a)
        self.owner = Owner()
        self.server = None
        if real_socket:
            self.server = await asyncio.start_server(self.acc.on_connect, "127.0.0.1", 0)
            port = self.server.sockets[0].getsockname()[1]
            self.conn = HomeKitConnection(self.owner, ["127.0.0.1"], port)
            await self.conn._connect_once()  # real connect, InsecureHomeKitProtocol first
            self.proto = Probe(self.conn, self.a2c, self.c2a)
            # exactly what SecureHomeKitConnection._connect_once does after pair-verify
            self.conn.protocol = self.proto
            self.conn.transport.set_protocol(self.proto)
            self.proto.connection_made(self.conn.transport)
            self.conn.is_secure = True
            self.conn.closing = True  # a lost connection must not start a reconnect loop
            await asyncio.wait_for(self.acc.connected.wait(), 5)
        else:
            # protocol object without a socket: used for the exhaustive corruption
            # sweep where every case needs a fresh session
            self.conn = HomeKitConnection(self.owner, ["127.0.0.1"], 1)
            self.conn.closing = True
            self.proto = Probe(self.conn, self.a2c, self.c2a)
            self.conn.protocol = self.proto
        return self

    async def close(self) -> None:
        if self.conn.transport:
            self.conn.transport.close()
        if self.acc.writer:
            self.acc.writer.close()
        if self.server:
            self.server.close()
            await asyncio.sleep(0)


# ---------------------------------------------------------------------------
# Part A: outbound framing, all interesting payload lengths, real socket
# ---------------------------------------------------------------------------
async def part_a_outbound(rng: random.Random) -> str:
    s = await Session().open(rng)
    lengths = [0, 1, 2, 15, 16, 17, 1023, 1024, 1025, 2047, 2048, 2049, 3071, 3072, 3073, 4096, 5000, 10240, 65537]
    lengths += [rng.randrange(1, 9000) for _ in range(12)]
    wire_frames = 0
    for length in lengths:
        payload = rng.randbytes(length)
        before = len(s.acc.frames_seen)
        task = asyncio.ensure_future(s.proto.send_bytes(payload))
        got = await s.acc.read_request(length)
        assert got == payload, f"request of {length} bytes was not reproduced by the accessory"
        await s.acc.assert_silent()
        sizes = s.acc.frames_seen[before:]
        assert sum(sizes) == length and all(n <= 1024 for n in sizes)
        wire_frames += len(sizes)
        assert s.proto.c2a_counter == s.acc.in_counter  # one nonce per frame, none skipped

        # answer with random framing and random segmentation
        body = rng.randbytes(rng.choice([0, 1, 300, 1024, 1025, 3000]))
        stream = b"".join(s.acc.encode(http_response(body), [rng.randrange(1, 1025) for _ in range(5)]))
        cuts = [rng.randrange(1, len(stream)) for _ in range(rng.randrange(0, 4))]
        await s.acc.send_segments(stream, cuts, pause=0.001)
        resp = await asyncio.wait_for(task, 5)
        assert resp.code == 200 and bytes(resp.body) == body
    await s.close()
    return f"{len(lengths)} payload lengths, {wire_frames} frames verified by the accessory"


# ---------------------------------------------------------------------------
# Part B1: inbound, exhaustive single and double cuts of a small stream
# ---------------------------------------------------------------------------
async def part_b1_exhaustive_cuts(rng: random.Random) -> str:
    s = await Session().open(rng)
    proto, acc, owner = s.proto, s.acc, s.owner
    cases = 0
    ev = 0

    def one_case(cuts: tuple[int, ...], sizes: list[int]) -> None:
        nonlocal cases, ev
        plaintext = http_event(ev) + http_event(ev + 1)
        expected_events = [{"n": ev}, {"n": ev + 1}]
        ev = ev + 2 if ev < 96 else 10  # keep two digits so every stream has the same length
        stream = b"".join(acc.encode(plaintext, sizes))
        del proto.plain[:]
        del owner.events[:]
        prev = 0
        for cut in [*cuts, len(stream)]:
            # segments are delivered exactly as the event loop would deliver reads
            proto.data_received(stream[prev:cut])
            # nothing may be delivered early: only whole authenticated frames
            assert plaintext.startswith(bytes(proto.plain))
            prev = cut
        assert bytes(proto.plain) == plaintext, (cuts, sizes)
        assert owner.events == expected_events, (cuts, sizes)
        cases += 1

    for sizes in ([1, 30, 1024], [7], [1024], [2, 1, 50]):
        probe = b"".join(Accessory(s.a2c, s.c2a).encode(http_event(10) + http_event(11), sizes))
        n = len(probe)  # stream length does not depend on counters (events 10.. keep 2 digits)
        ev = 10
        one_case((), sizes)
        for a in range(1, n):
            one_case((a,), sizes)
        step = 1 if n <= 150 else max(2, n // 60)  # exhaustive on the small streams
        for a in range(1, n, step):
            for b in range(a + 1, n, step):
                one_case((a, b), sizes)
    # byte by byte
    ev = 10
    plaintext_len = len(http_event(10) + http_event(11))
    one_case(tuple(range(1, plaintext_len + 18 * 3)), [1, 30, 1024])
    await s.close()
    return f"{cases} segmentations decoded exactly"


# ---------------------------------------------------------------------------
# Part B2: inbound over the real socket, large streams, random frames and cuts,
# a request in flight while events arrive around its response
# ---------------------------------------------------------------------------
async def part_b2_socket_streams(rng: random.Random) -> str:
    s = await Session().open(rng)
    rounds = 12
    total_reads = 0
    for r in range(rounds):
        del s.proto.plain[:]
        del s.owner.events[:]
        del s.proto.reads[:]
        request = b"GET /characteristics?id=1.9 HTTP/1.1\r\nHost: 127.0.0.1\r\n\r\n"
        task = asyncio.ensure_future(s.proto.send_bytes(request))
        assert await s.acc.read_request(len(request)) == request
        body = rng.randbytes(rng.choice([1, 1023, 1024, 1025, 2048, 2049, 7000]))
        plaintext = http_event(r) + http_event(100 + r) + http_response(body) + http_event(200 + r)
        if r % 3 == 0:
            sizes = [rng.randrange(1, 1025) for _ in range(7)]
        elif r % 3 == 1:
            sizes = [1024]
        else:
            sizes = [rng.randrange(1, 40)]
        stream = b"".join(s.acc.encode(plaintext, sizes))
        cuts = [rng.randrange(1, len(stream)) for _ in range(rng.randrange(1, 9))]
        await s.acc.send_segments(stream, cuts)
        resp = await asyncio.wait_for(task, 5)
        assert bytes(resp.body) == body
        for _ in range(200):
            if len(s.proto.plain) >= len(plaintext):
                break
            await asyncio.sleep(0.005)
        assert bytes(s.proto.plain) == plaintext
        assert s.owner.events == [{"n": r}, {"n": 100 + r}, {"n": 200 + r}]
        total_reads += len(s.proto.reads)
    await s.close()
    return f"{rounds} streams over loopback, {total_reads} network reads"


# ---------------------------------------------------------------------------
# Part C1: every single-bit corruption of length prefix, ciphertext and tag
# ---------------------------------------------------------------------------
async def part_c1_all_bit_flips(rng: random.Random) -> str:
    plaintexts = [http_event(1), http_event(2)[:9], http_event(2)[9:]]
    cases = 0
    for k in range(3):
        frame_len = 2 + len(plaintexts[k]) + TAG
        for bit in range(frame_len * 8):
            for mode in ("one read", "two reads", "bytewise"):
                if mode == "bytewise" and bit % 16:
                    continue
                s = await Session().open(rng, real_socket=False)
                frames = [s.acc.encode(p, [1024])[0] for p in plaintexts]
                bad = bytearray(frames[k])
                bad[bit // 8] ^= 1 << (bit % 8)
                frames[k] = bytes(bad)
                stream = b"".join(frames)
                if mode == "one read":
                    pieces = [stream]
                elif mode == "two reads":
                    cut = rng.randrange(1, len(stream))
                    pieces = [stream[:cut], stream[cut:]]
                else:
                    pieces = [stream[i : i + 1] for i in range(len(stream))]
                # a length prefix flipped to a larger value keeps the decoder waiting
                # for the rest of the (bogus) frame: give it enough bytes to finish
                pieces.append(bytes(70000))
                raised = None
                for piece in pieces:
                    try:
                        s.proto.data_received(piece)
                    except RuntimeError as ex:
                        raised = ex
                        break  # the event loop tears the transport down here
                assert raised is not None, (k, bit, mode)
                assert isinstance(raised.__cause__, InvalidTag)
                good_prefix = b"".join(plaintexts[:k])
                assert bytes(s.proto.plain) == good_prefix, (k, bit, mode, bytes(s.proto.plain))
                assert s.owner.events == ([{"n": 1}] if k >= 1 else [])
                cases += 1
    return f"{cases} corrupted streams rejected, corrupted frame never delivered"


# ---------------------------------------------------------------------------
# Part C2: corruption on the real socket ends the session
# ---------------------------------------------------------------------------
async def part_c2_socket_corruption(rng: random.Random) -> str:
    loop = asyncio.get_running_loop()
    contexts: list[dict] = []
    loop.set_exception_handler(lambda _loop, ctx: contexts.append(ctx))
    cases = 0
    try:
        for where in ("length", "ciphertext", "tag"):
            for split in (False, True):
                s = await Session().open(rng)
                request = b"GET /accessories HTTP/1.1\r\nHost: 127.0.0.1\r\n\r\n"
                task = asyncio.ensure_future(s.proto.send_bytes(request))
                assert await s.acc.read_request(len(request)) == request
                response = http_response(b'{"accessories":[]}')
                good = http_event(5)
                frames = s.acc.encode(good, [1024]) + s.acc.encode(response, [20, 1024]) + s.acc.encode(http_event(6), [1024])
                bad = bytearray(frames[1])
                index = {"length": 0, "ciphertext": 5, "tag": len(bad) - 3}[where]
                bad[index] ^= 0x04
                frames[1] = bytes(bad)
                stream = b"".join(frames)
                if split:
                    # cuts inside the corrupted frame's length prefix and inside its tag
                    start = len(frames[0])
                    cuts = [start + 1, start + len(frames[1]) - 7]
                else:
                    cuts = []
                contexts.clear()
                await s.acc.send_segments(stream, cuts)
                try:
                    await asyncio.wait_for(task, 5)
                except AccessoryDisconnectedError:
                    pass
                else:
                    raise AssertionError("request completed although its response failed authentication")
                for _ in range(400):
                    if s.proto.lost is not None:
                        break
                    await asyncio.sleep(0.005)
                assert s.proto.lost is not None, "session did not end"
                assert s.conn.transport is None and s.conn.protocol is None and s.conn.closed
                assert bytes(s.proto.plain) == good, "only the frame before the corrupted one may be delivered"
                assert s.owner.events == [{"n": 5}]
                assert any(isinstance(c.get("exception"), RuntimeError) for c in contexts)
                # the accessory sees the connection go away
                try:
                    rest = await asyncio.wait_for(s.acc.reader.read(), 5)
                    assert rest == b""
                except ConnectionResetError:
                    pass
                await s.close()
                cases += 1
    finally:
        loop.set_exception_handler(None)
    return f"{cases} corrupted sessions torn down by the event loop"


PARTS = [
    part_a_outbound,
    part_b1_exhaustive_cuts,
    part_b2_socket_streams,
    part_c1_all_bit_flips,
    part_c2_socket_corruption,
]


def _run(part) -> str:
    return asyncio.run(part(random.Random(0xC05)))


def test_a_outbound():
    _run(part_a_outbound)


def test_b1_exhaustive_cuts():
    _run(part_b1_exhaustive_cuts)


def test_b2_socket_streams():
    _run(part_b2_socket_streams)


def test_c1_all_bit_flips():
    _run(part_c1_all_bit_flips)


def test_c2_socket_corruption():
    _run(part_c2_socket_corruption)


if __name__ == "__main__":
    import aiohomekit

    print("library under test:", aiohomekit.__file__)
    for part in PARTS:
        print(f"{part.__name__}: ", end="", flush=True)
        print(_run(part))
    print("demo_k05a: ALL PASSED")
    sys.exit(0)
