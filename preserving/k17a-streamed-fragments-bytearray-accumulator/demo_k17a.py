"""
demo_k17a.py - exercises aiohomekit.controller.ble.client.ble_request
(_write_pdu / _read_pdu) against a conformant fake HAP-BLE accessory.

Real objects: a real asyncio event loop, a real AIOHomeKitBleakClient
(bleak.BleakClient -> bleak_retry_connector -> aiohomekit) whose *backend* is a
fake BaseBleakClient subclass, real BleakGATTService / BleakGATTCharacteristic
objects and the real ChaCha20-Poly1305 EncryptionKey / DecryptionKey.

The demo only checks what property C17 (BLE half) promises and therefore passes
on the unmodified library and with patch.diff applied:

  * every request fragment is no larger than the negotiated fragment size and a
    conformant accessory reassembles opcode / tid / iid / body exactly
    (fragment sizes 8..64 x body lengths 0..200, realistic sizes x lengths up to
    5000, plain and encrypted, write-with-response and write-without-response);
  * every response, however the accessory fragments it (all compositions for
    small bodies, random ones incl. empty fragments for big bodies, header-only
    responses, every status), is reassembled to the accessory's status and body;
  * wrong tid (first or continuation fragment) and a missing continuation flag
    are rejected, a corrupted ciphertext is rejected;
  * faults: a GATT write failing at fragment k, a GATT read failing during
    reassembly, cancellation while a write is outstanding: the error reaches
    the caller, nothing is written afterwards, no result is fabricated;
  * interleavings: the fake backend yields to the loop a varying number of
    times inside every GATT operation and several connections run at once.

Run:  PYTHONPATH=/tmp/wt/k17a /venv/bin/python demo_k17a.py
 or:  PYTHONPATH=/tmp/wt/k17a /venv/bin/python -m pytest -q -p no:cacheprovider demo_k17a.py
"""

from __future__ import annotations

import asyncio
import itertools
import os
import random
import struct
import sys
from typing import Any

from bleak.backends.characteristic import BleakGATTCharacteristic
from bleak.backends.client import BaseBleakClient
from bleak.backends.service import BleakGATTService, BleakGATTServiceCollection
from bleak.exc import BleakError

import aiohomekit
from aiohomekit.controller.ble.bleak import AIOHomeKitBleakClient
from aiohomekit.controller.ble.client import ble_request
from aiohomekit.controller.ble.key import DecryptionKey, EncryptionKey
from aiohomekit.exceptions import EncryptionError
from aiohomekit.pdu import OpCode, PDUStatus

SERVICE_UUID = "0000003e-0000-1000-8000-0026bb765291"
CHAR_UUID = "00000023-0000-1000-8000-0026bb765291"
C2A_KEY = bytes(range(32))
A2C_KEY = bytes(range(32, 64))
TAG = 16


# --------------------------------------------------------------------------
# A conformant accessory
# --------------------------------------------------------------------------
class Accessory:
    """Reassembles HAP-BLE request PDUs and serves pre-planned responses."""

    def __init__(self, limit: int, encrypted: bool) -> None:
        self.limit = limit  # negotiated fragment size (plaintext bytes)
        self.encrypted = encrypted
        self.dec = DecryptionKey(C2A_KEY) if encrypted else None
        self.enc = EncryptionKey(A2C_KEY) if encrypted else None
        self.requests: list[tuple[int, int, int, bytes, int]] = []  # opcode, tid, iid, body, nfrags
        self.writes_seen = 0
        self._cur: dict[str, Any] | None = None
        self._outbox: list[bytes] = []
        # planner(opcode, tid, iid, body) -> list of plaintext response fragments
        self.planner = None
        self.corrupt_next_response_fragment = -1
        self.reads_served = 0

    def on_write(self, raw: bytes) -> None:
        self.writes_seen += 1
        assert not self._outbox, "controller wrote while a response was still unread"
        if self.encrypted:
            assert len(raw) <= self.limit + TAG, (len(raw), self.limit)
            plain = self.dec.decrypt(bytes(raw))  # raises if counters/bytes are wrong
            assert plain is not False
        else:
            plain = bytes(raw)
        assert 1 <= len(plain) <= self.limit, f"fragment of {len(plain)} bytes > negotiated {self.limit}"
        if self._cur is None:
            assert len(plain) >= 5, "short first fragment"
            control, opcode, tid, iid = struct.unpack("<BBBH", plain[:5])
            assert control == 0x00, f"bad control on first fragment: {control:#x}"
            if len(plain) == 5:
                self._complete(opcode, tid, iid, b"", 1)
                return
            assert len(plain) >= 7, "first fragment carries half a body length"
            (blen,) = struct.unpack("<H", plain[5:7])
            self._cur = {"opcode": opcode, "tid": tid, "iid": iid, "blen": blen, "body": plain[7:], "n": 1}
        else:
            control, tid = struct.unpack("<BB", plain[:2])
            assert control & 0x80, "continuation flag missing on request continuation"
            assert control & 0x0E == 0, "request bit pattern wrong on continuation"
            assert tid == self._cur["tid"], "tid changed inside a request"
            assert len(plain) > 2, "empty request continuation"
            self._cur["body"] += plain[2:]
            self._cur["n"] += 1
        cur = self._cur
        assert len(cur["body"]) <= cur["blen"], "more body bytes than announced"
        if len(cur["body"]) == cur["blen"]:
            self._cur = None
            self._complete(cur["opcode"], cur["tid"], cur["iid"], cur["body"], cur["n"])

    def _complete(self, opcode: int, tid: int, iid: int, body: bytes, n: int) -> None:
        self.requests.append((opcode, tid, iid, bytes(body), n))
        frags = self.planner(opcode, tid, iid, bytes(body))
        for i, frag in enumerate(frags):
            if self.encrypted:
                frag = self.enc.encrypt(bytes(frag))
                if i == self.corrupt_next_response_fragment:
                    frag = frag[:-1] + bytes([frag[-1] ^ 1])
            self._outbox.append(frag)

    def on_read(self) -> bytearray:
        assert self._cur is None, "controller read in the middle of its own request"
        assert self._outbox, "controller read but the accessory has nothing (more) to say"
        self.reads_served += 1
        return bytearray(self._outbox.pop(0))  # real bleak hands out bytearrays


def response_fragments(tid: int, status: int, body: bytes | None, cuts: list[int], cont_control: int = 0x82):
    """Fragment a response. body None => 3 byte header-only response.
    cuts = chunk lengths (may contain zeros), sum(cuts) == len(body)."""
    if body is None:
        return [struct.pack("<BBB", 0x02, tid, status)]
    assert sum(cuts) == len(body)
    out = []
    pos = 0
    for i, n in enumerate(cuts):
        chunk = body[pos : pos + n]
        pos += n
        if i == 0:
            out.append(struct.pack("<BBBH", 0x02, tid, status, len(body)) + chunk)
        else:
            out.append(struct.pack("<BB", cont_control, tid) + chunk)
    return out


def random_cuts(rng: random.Random, n: int) -> list[int]:
    if n == 0:
        return [0]
    cuts = []
    left = n
    if rng.random() < 0.2:
        cuts.append(0)  # header-only first fragment, everything in continuations
    while left:
        if cuts and rng.random() < 0.05:
            cuts.append(0)  # an empty continuation fragment
            continue
        take = rng.randint(1, max(1, min(left, rng.choice((1, 3, 18, 95, 510)))))
        cuts.append(take)
        left -= take
    return cuts


def all_cuts(n: int):
    """Every composition of n into >=1 positive parts, each also with an empty first fragment."""
    if n == 0:
        yield [0]
        return
    for mask in range(1 << (n - 1)):
        parts, run = [], 1
        for bit in range(n - 1):
            if mask >> bit & 1:
                parts.append(run)
                run = 1
            else:
                run += 1
        parts.append(run)
        yield parts
        yield [0] + parts


# --------------------------------------------------------------------------
# Fake bleak backend under a real AIOHomeKitBleakClient
# --------------------------------------------------------------------------
class FakeBackend(BaseBleakClient):
    def __init__(self, address_or_ble_device, **kwargs: Any) -> None:
        super().__init__(address_or_ble_device, **kwargs)
        self._mtu_size = 23
        self.accessory: Accessory | None = None
        self.rng = random.Random(1)
        self.max_yields = 0
        self.expect_response_flag: bool | None = None
        self.fail_write_at = -1  # 1-based index of the GATT write that fails (before delivery)
        self.fail_write_after_delivery = False
        self.fail_read_at = -1
        self.block_write_at = -1
        self.blocked = asyncio.Event()
        self.write_calls = 0
        self.read_calls = 0
        self.log: list[tuple] = []

    @property
    def mtu_size(self) -> int:
        return self._mtu_size

    @property
    def is_connected(self) -> bool:
        return True

    async def _yield(self) -> None:
        for _ in range(self.rng.randint(0, self.max_yields) if self.max_yields else 0):
            await asyncio.sleep(0)

    async def write_gatt_char(self, characteristic, data, response) -> None:
        self.write_calls += 1
        assert isinstance(characteristic, BleakGATTCharacteristic)
        assert isinstance(response, bool)
        if self.expect_response_flag is not None:
            assert response is self.expect_response_flag
        memoryview(data)  # must support the buffer protocol
        self.log.append(("w", len(data)))
        await self._yield()
        if self.write_calls == self.fail_write_at and not self.fail_write_after_delivery:
            raise BleakError("injected: write failed")
        if self.write_calls == self.block_write_at:
            self.blocked.set()
            await asyncio.Event().wait()  # never acknowledged; only cancellation gets us out
        self.accessory.on_write(bytes(data))
        await self._yield()
        if self.write_calls == self.fail_write_at and self.fail_write_after_delivery:
            raise BleakError("injected: write acknowledgement lost")

    async def read_gatt_char(self, characteristic, **kwargs: Any) -> bytearray:
        self.read_calls += 1
        assert isinstance(characteristic, BleakGATTCharacteristic)
        await self._yield()
        if self.read_calls == self.fail_read_at:
            raise BleakError("injected: read failed")
        data = self.accessory.on_read()
        self.log.append(("r", len(data)))
        await self._yield()
        return data

    async def connect(self, pair: bool = False, **kwargs: Any) -> None: ...
    async def disconnect(self) -> None: ...
    async def pair(self, *args: Any, **kwargs: Any) -> None: ...
    async def unpair(self) -> None: ...
    async def read_gatt_descriptor(self, *args: Any, **kwargs: Any) -> bytearray:
        return bytearray()

    async def write_gatt_descriptor(self, *args: Any, **kwargs: Any) -> None: ...
    async def start_notify(self, *args: Any, **kwargs: Any) -> None: ...
    async def stop_notify(self, *args: Any, **kwargs: Any) -> None: ...


class ForcedSizeClient(AIOHomeKitBleakClient):
    """Real client; only the negotiated size is forced so that sizes below the
    HAP minimum MTU (8..64) can be exercised."""

    forced_size: int | None = None

    def determine_fragment_size(self, additional_overhead_size, handle):
        if self.forced_size is None:
            return super().determine_fragment_size(additional_overhead_size, handle)
        return self.forced_size


_handles = itertools.count(10)
_addr = itertools.count(1)


def make_link(
    *,
    forced_size: int | None = None,
    mtu: int = 23,
    mwwr: int = 0,
    encrypted: bool = False,
    without_response: bool = False,
    max_yields: int = 0,
    seed: int = 1,
):
    n = next(_addr)
    client = ForcedSizeClient(f"AA:BB:CC:00:{n >> 8 & 255:02X}:{n & 255:02X}", backend=FakeBackend)
    client.forced_size = forced_size
    backend: FakeBackend = client._backend
    backend._mtu_size = mtu
    backend.max_yields = max_yields
    backend.rng = random.Random(seed)
    service = BleakGATTService(None, next(_handles), SERVICE_UUID)
    props = ["read", "write-without-response" if without_response else "write"]
    char = BleakGATTCharacteristic(None, next(_handles), CHAR_UUID, props, lambda: mwwr, service)
    coll = BleakGATTServiceCollection()
    coll.add_service(service)
    coll.add_characteristic(char)
    backend.services = coll
    backend.expect_response_flag = not without_response
    overhead = TAG if encrypted else 0
    limit = client.determine_fragment_size(overhead, char)
    acc = Accessory(limit, encrypted)
    backend.accessory = acc
    ekey = EncryptionKey(C2A_KEY) if encrypted else None
    dkey = DecryptionKey(A2C_KEY) if encrypted else None
    return client, backend, char, acc, ekey, dkey, limit


def body_of(n: int, salt: int = 0) -> bytes:
    return bytes((i * 7 + salt) & 0xFF for i in range(n))


def expected_fragments(limit: int, n: int) -> int:
    if n == 0 or n <= limit - 7:
        return 1
    rest = n - (limit - 7)
    return 1 + -(-rest // (limit - 2))


async def one_exchange(link, opcode, iid, body, status, rbody, cuts, cont_control=0x82):
    client, backend, char, acc, ekey, dkey, limit = link
    seen = {}

    def planner(op, tid, riid, rb):
        seen["tid"] = tid
        return response_fragments(tid, status, rbody, cuts, cont_control)

    acc.planner = planner
    before = len(acc.requests)
    w0, r0 = backend.write_calls, backend.read_calls
    got_status, got_body = await ble_request(client, ekey, dkey, opcode, char, iid, body)
    assert len(acc.requests) == before + 1, "accessory did not see exactly one request"
    op, tid, riid, rb, nfr = acc.requests[-1]
    assert op == opcode.value and riid == iid and rb == (body or b""), "request not reassembled to what was asked"
    assert 1 <= tid <= 254
    assert nfr == backend.write_calls - w0
    assert nfr == expected_fragments(limit, len(body or b"")), (nfr, limit, len(body or b""))
    assert got_status == PDUStatus(status)
    assert bytes(got_body) == (rbody or b""), "response not reassembled to the accessory's body"
    # exactly as many GATT reads as the accessory had fragments: none skipped, none extra
    assert backend.read_calls - r0 == (1 if rbody is None else len(cuts))
    assert not acc._outbox
    if ekey:
        # both directions stay in step with the accessory
        assert ekey.counter == acc.dec.counter
        assert dkey.counter == acc.enc.counter
    return nfr


# --------------------------------------------------------------------------
# the checks
# --------------------------------------------------------------------------
async def check_exhaustive_small_sizes() -> str:
    rng = random.Random(17)
    n = 0
    for encrypted in (False, True):
        for size in range(8, 65):
            link = make_link(forced_size=size, encrypted=encrypted, without_response=bool(size & 1))
            for blen in range(0, 201):
                rlen = rng.choice((0, 1, blen, rng.randint(0, 300)))
                status = rng.randint(0, 6)
                rbody = None if (rlen == 0 and rng.random() < 0.5) else body_of(rlen, 3)
                cuts = random_cuts(rng, rlen) if rbody is not None else []
                await one_exchange(link, OpCode.CHAR_WRITE, rng.randint(1, 65535), body_of(blen), status, rbody, cuts)
                n += 1
    return f"{n} exchanges, sizes 8..64 x body 0..200, plain+encrypted"


async def check_realistic_sizes() -> str:
    rng = random.Random(18)
    n = 0
    lengths = [0, 1, 90, 148, 149, 237, 238, 489, 490, 505, 506, 1000, 2048, 4999, 5000]
    # (mtu, max_write_without_response_size) -> real AIOHomeKitBleakClient negotiation
    for mtu, mwwr, want_plain in ((23, 0, 97), (158, 0, 155), (247, 244, 244), (515, 20, 512), (100, 512, 512)):
        for encrypted in (False, True):
            link = make_link(mtu=mtu, mwwr=mwwr, encrypted=encrypted, without_response=mwwr > 0, max_yields=2, seed=n)
            assert link[6] == want_plain - (TAG if encrypted else 0), link[6]
            for blen in lengths + [link[6] - 7, link[6] - 6, 2 * link[6] - 9, 2 * link[6] - 8]:
                rlen = rng.choice((0, blen, 5000, rng.randint(1, 1200)))
                rbody = body_of(rlen, 9)
                body = body_of(blen) if blen else (None if rng.random() < 0.5 else b"")
                await one_exchange(
                    link, OpCode.CHAR_READ, rng.randint(1, 65535), body, rng.randint(0, 6), rbody, random_cuts(rng, rlen)
                )
                n += 1
    # forced realistic sizes incl. 20
    for size in (20, 155, 244, 496, 512):
        for encrypted in (False, True):
            link = make_link(forced_size=size, encrypted=encrypted, max_yields=1, seed=size)
            for blen in lengths:
                rlen = rng.randint(0, 5000)
                await one_exchange(
                    link, OpCode.CHAR_WRITE, 0x1234, body_of(blen), 0, body_of(rlen, 1), random_cuts(rng, rlen)
                )
                n += 1
    return f"{n} exchanges at negotiated/realistic sizes up to 5000 bytes"


async def check_all_response_fragmentations() -> str:
    n = 0
    for encrypted in (False, True):
        link = make_link(forced_size=40, encrypted=encrypted)
        for rlen in range(0, 8):
            for cuts in all_cuts(rlen):
                for cont in (0x80, 0x82):
                    await one_exchange(link, OpCode.CHAR_READ, 7, None, rlen % 7, body_of(rlen, 5), cuts, cont)
                    n += 1
        # header-only (3 byte) responses for every status
        for status in range(7):
            await one_exchange(link, OpCode.CHAR_READ, 7, b"xyz", status, None, [])
            n += 1
        # the accessory sends more than it announced in the last fragment: everything read is kept
        client, backend, char, acc, ekey, dkey, _ = link
        acc.planner = lambda op, tid, iid, b: [
            struct.pack("<BBBH", 2, tid, 0, 4) + b"ab",
            struct.pack("<BB", 0x82, tid) + b"cdEXTRA",
        ]
        status, body = await ble_request(client, ekey, dkey, OpCode.CHAR_READ, char, 7)
        assert (status, bytes(body)) == (PDUStatus.SUCCESS, b"abcdEXTRA")
        n += 1
    return f"{n} exchanges over every fragmentation of bodies 0..7"


async def check_rejections() -> str:
    n = 0
    for encrypted in (False, True):

        async def expect(exc_type, planner, corrupt=-1, reads=None):
            nonlocal n
            link = make_link(forced_size=30, encrypted=encrypted, max_yields=1)
            client, backend, char, acc, ekey, dkey, _ = link
            acc.planner = planner
            acc.corrupt_next_response_fragment = corrupt
            try:
                res = await ble_request(client, ekey, dkey, OpCode.CHAR_WRITE, char, 9, body_of(50))
            except exc_type:
                pass
            else:
                raise AssertionError(f"accepted a bad response: {res!r}")
            assert len(acc.requests) == 1 and acc.requests[0][3] == body_of(50)
            if reads is not None:
                assert backend.read_calls == reads, (backend.read_calls, reads)
            n += 1

        bad = lambda tid: (tid % 254) + 1  # noqa: E731  a different, valid tid
        # wrong tid in the first fragment
        await expect(ValueError, lambda op, tid, iid, b: response_fragments(bad(tid), 0, b"abcdef", [6]), reads=1)
        await expect(ValueError, lambda op, tid, iid, b: response_fragments(bad(tid), 0, b"abcdef", [2, 4]), reads=1)
        await expect(ValueError, lambda op, tid, iid, b: response_fragments(bad(tid), 0, None, []), reads=1)
        # wrong tid in a continuation
        await expect(
            ValueError,
            lambda op, tid, iid, b: response_fragments(tid, 0, b"abcdef", [2, 2, 2])[:1]
            + response_fragments(bad(tid), 0, b"abcdef", [2, 2, 2])[1:],
            reads=2,
        )
        await expect(
            ValueError,
            lambda op, tid, iid, b: response_fragments(tid, 0, b"abcdef", [2, 2, 2])[:2]
            + response_fragments(bad(tid), 0, b"abcdef", [2, 2, 2])[2:],
            reads=3,
        )
        # continuation flag missing (control 0x02 / 0x00 instead of 0x8x)
        for ctl in (0x02, 0x00, 0x7F):
            await expect(
                ValueError, lambda op, tid, iid, b, ctl=ctl: response_fragments(tid, 0, b"abcdef", [3, 3], ctl), reads=2
            )
            await expect(
                ValueError,
                lambda op, tid, iid, b, ctl=ctl: response_fragments(tid, 0, b"abcdef", [0, 3, 3], 0x82)[:2]
                + response_fragments(tid, 0, b"abcdef", [0, 3, 3], ctl)[2:],
                reads=3,
            )
        # a second "first" fragment where a continuation is due
        await expect(
            ValueError,
            lambda op, tid, iid, b: [
                struct.pack("<BBBH", 2, tid, 0, 6) + b"abc",
                struct.pack("<BBBH", 2, tid, 0, 6) + b"def",
            ],
            reads=2,
        )
        if encrypted:
            ok = lambda op, tid, iid, b: response_fragments(tid, 0, b"abcdef", [2, 2, 2])  # noqa: E731
            await expect(EncryptionError, ok, corrupt=0, reads=1)
            await expect(EncryptionError, ok, corrupt=1, reads=2)
            await expect(EncryptionError, ok, corrupt=2, reads=3)
    return f"{n} malformed responses rejected"


async def check_faults() -> str:
    n = 0
    infos = []
    for encrypted in (False, True):
        for without_response in (False, True):
            # body of 100 at size 30 => 1 + ceil(77/28) = 4 fragments
            for k in (1, 2, 3, 4):
                for after_delivery in (False, True):
                    link = make_link(
                        forced_size=30, encrypted=encrypted, without_response=without_response, max_yields=2, seed=k
                    )
                    client, backend, char, acc, ekey, dkey, _ = link
                    acc.planner = lambda op, tid, iid, b: response_fragments(tid, 0, b"ok", [2])
                    backend.fail_write_at = k
                    backend.fail_write_after_delivery = after_delivery
                    try:
                        await ble_request(client, ekey, dkey, OpCode.CHAR_WRITE, char, 9, body_of(100))
                    except BleakError:
                        pass
                    else:
                        raise AssertionError("write failure was swallowed")
                    assert backend.write_calls == k, "fragments were written after a failed write"
                    assert acc.writes_seen == (k if after_delivery else k - 1)
                    assert backend.read_calls == 0, "response read after a failed request write"
                    if ekey:
                        # what the accessory got, it could decrypt (it would have raised otherwise);
                        # the key has been advanced at least that far
                        assert ekey.counter >= acc.writes_seen
                        if k == 2 and not after_delivery and not without_response:
                            infos.append(f"enc counter after write #2 of 4 failed: {ekey.counter}")
                        assert dkey.counter == 0
                    n += 1
            # read failure during reassembly
            for k in (1, 2, 3):
                link = make_link(forced_size=30, encrypted=encrypted, without_response=without_response, max_yields=2)
                client, backend, char, acc, ekey, dkey, _ = link
                acc.planner = lambda op, tid, iid, b: response_fragments(tid, 0, b"abcdef", [2, 2, 2])
                backend.fail_read_at = k
                try:
                    await ble_request(client, ekey, dkey, OpCode.CHAR_WRITE, char, 9, body_of(100))
                except BleakError:
                    pass
                else:
                    raise AssertionError("read failure was swallowed")
                assert backend.read_calls == k and acc.reads_served == k - 1
                assert len(acc.requests) == 1 and acc.requests[0][3] == body_of(100)
                n += 1
            # cancellation while GATT write #k is outstanding
            for k in (1, 3, 4):
                link = make_link(forced_size=30, encrypted=encrypted, without_response=without_response, max_yields=1)
                client, backend, char, acc, ekey, dkey, _ = link
                acc.planner = lambda op, tid, iid, b: response_fragments(tid, 0, b"ok", [2])
                backend.block_write_at = k
                task = asyncio.ensure_future(
                    ble_request(client, ekey, dkey, OpCode.CHAR_WRITE, char, 9, body_of(100))
                )
                await asyncio.wait_for(backend.blocked.wait(), 5)
                task.cancel()
                try:
                    await task
                except asyncio.CancelledError:
                    pass
                else:
                    raise AssertionError("cancellation was swallowed")
                for _ in range(5):
                    await asyncio.sleep(0)
                assert backend.write_calls == k and acc.writes_seen == k - 1 and backend.read_calls == 0
                n += 1
    return f"{n} fault scenarios; info: " + "; ".join(sorted(set(infos)))


async def check_concurrent_links() -> str:
    """Several connections at once, backends yielding at random: every caller
    gets the answer of its own accessory."""
    rng = random.Random(5)
    links = [
        make_link(forced_size=rng.choice((20, 33, 64)), encrypted=bool(i & 1), max_yields=3, seed=100 + i)
        for i in range(8)
    ]

    async def worker(i, link):
        r = random.Random(i)
        for j in range(25):
            blen, rlen = r.randint(0, 300), r.randint(0, 300)
            await one_exchange(
                link, OpCode.CHAR_WRITE, 1 + i, body_of(blen, i), j % 7, body_of(rlen, i + j), random_cuts(r, rlen)
            )
        return i

    done = await asyncio.gather(*(worker(i, link) for i, link in enumerate(links)))
    assert done == list(range(8))
    return "8 connections x 25 interleaved exchanges"


async def check_debug_logging() -> str:
    """The debug-logging branches of the write/read paths work too."""
    import logging

    records: list[str] = []

    class Capture(logging.Handler):
        def emit(self, record: logging.LogRecord) -> None:
            records.append(record.getMessage())

    log = logging.getLogger("aiohomekit.controller.ble.client")
    handler, old_level, old_propagate = Capture(), log.level, log.propagate
    log.addHandler(handler)
    log.setLevel(logging.DEBUG)
    log.propagate = False
    try:
        for encrypted in (False, True):
            link = make_link(forced_size=30, encrypted=encrypted)
            del records[:]
            nfr = await one_exchange(link, OpCode.CHAR_WRITE, 3, body_of(100), 0, body_of(10), [4, 0, 6])
            assert nfr == 4
            assert sum(r.startswith("Writing fragment") for r in records) == 4
            assert sum(r.startswith("Read fragment") for r in records) == 3
    finally:
        log.removeHandler(handler)
        log.setLevel(old_level)
        log.propagate = old_propagate
    return "debug logging on"


CHECKS = [
    check_debug_logging,
    check_all_response_fragmentations,
    check_rejections,
    check_faults,
    check_concurrent_links,
    check_realistic_sizes,
    check_exhaustive_small_sizes,
]


def _run(check) -> str:
    return asyncio.run(check())


def test_debug_logging():
    _run(check_debug_logging)


def test_all_response_fragmentations():
    _run(check_all_response_fragmentations)


def test_rejections():
    _run(check_rejections)


def test_faults():
    _run(check_faults)


def test_concurrent_links():
    _run(check_concurrent_links)


def test_realistic_sizes():
    _run(check_realistic_sizes)


def test_exhaustive_small_sizes():
    _run(check_exhaustive_small_sizes)


if __name__ == "__main__":
    import logging

    logging.getLogger("aiohomekit").setLevel(logging.ERROR)  # non-zero statuses are logged as warnings
    print("aiohomekit from", os.path.dirname(aiohomekit.__file__))
    for check in CHECKS:
        print(f"{check.__name__}: ", end="", flush=True)
        print("ok -", _run(check))
    print("DEMO PASSED")
    sys.exit(0)
