"""Demonstration for change k19a (property C19: device waiters / advertisement parsing).

Runs against REAL objects only:
  * a real asyncio event loop and the real wall clock,
  * a real zeroconf ``AsyncZeroconf`` bound to the loopback interface with a real
    ``AsyncServiceBrowser``; mDNS records are injected as real DNS response packets
    through the record manager, so they travel  cache -> browser -> controller,
  * a real ``bleak.BleakScanner`` whose *backend* is a small fake
    (``BaseBleakScanner`` subclass) that lets the demo emit advertisements,
  * real IpController / CoAPController / BleController / aggregate Controller and
    real IpPairing / BlePairing objects (only the pairing hooks that would open a
    connection to an accessory are stubbed out).

It must pass on the unmodified tree and with patch.diff applied.

    PYTHONPATH=/tmp/wt/k19a /venv/bin/python demo_k19a.py
"""

from __future__ import annotations

import asyncio
import functools
import struct
import sys
import time
from unittest import mock

import bleak  # noqa: F401  (imported before aiohomekit so that the BLE transport is enabled)
from bleak import BleakScanner
from bleak.backends.scanner import AdvertisementData, BaseBleakScanner
from zeroconf import DNSIncoming, DNSOutgoing, const
from zeroconf.asyncio import AsyncServiceBrowser, AsyncServiceInfo, AsyncZeroconf

import aiohomekit
from aiohomekit.characteristic_cache import CharacteristicCacheMemory
from aiohomekit.controller import Controller
from aiohomekit.controller.abstract import TransportType
from aiohomekit.controller.ble.controller import BleController
from aiohomekit.controller.ble.discovery import BleDiscovery
from aiohomekit.controller.ip.controller import IpController
from aiohomekit.controller.ip.discovery import IpDiscovery
from aiohomekit.exceptions import AccessoryNotFoundError
from aiohomekit.model import Accessories, Accessory
from aiohomekit.model.categories import Categories
from aiohomekit.model.feature_flags import FeatureFlags
from aiohomekit.model.status_flags import StatusFlags
from aiohomekit.zeroconf import HAP_TYPE_TCP, HAP_TYPE_UDP, ZeroconfServiceListener

assert aiohomekit.__file__.startswith("/tmp/wt/k19a/"), aiohomekit.__file__

LOOP_ERRORS: list[dict] = []
LONG = 5.0  # a timeout that must never be reached


def log(msg: str) -> None:
    print(msg, flush=True)


# --------------------------------------------------------------------------- helpers


async def spin_until_done(tasks, max_iterations: int) -> int:
    """Count the loop iterations needed until all tasks are done."""
    for n in range(max_iterations + 1):
        if all(t.done() for t in tasks):
            return n
        await asyncio.sleep(0)
    raise AssertionError(f"tasks not completed after {max_iterations} loop iterations: {tasks}")


def outcome(task: asyncio.Task):
    if task.cancelled():
        return "cancelled"
    if exc := task.exception():
        return exc
    return task.result()


async def settle(tasks, limit: float = LONG + 2):
    await asyncio.wait(tasks, timeout=limit)
    assert all(t.done() for t in tasks), f"hung waiters: {[t for t in tasks if not t.done()]}"


async def _noop_config_changed(config_num: int) -> None:
    """Stand-in for AbstractPairing._process_config_changed (would connect to the accessory)."""


# --------------------------------------------------------------------------- mDNS side


def make_info(name: str, props, addresses: list[str], type_: str = HAP_TYPE_TCP) -> AsyncServiceInfo:
    return AsyncServiceInfo(
        type_,
        f"{name}.{type_}",
        parsed_addresses=addresses,
        port=51826,
        properties=props,
        server=f"{name}.local.",
    )


def inject(azc: AsyncZeroconf, info: AsyncServiceInfo) -> None:
    """Deliver the records of *info* to zeroconf as a real mDNS response packet."""
    out = DNSOutgoing(const._FLAGS_QR_RESPONSE | const._FLAGS_AA)
    for record in (info.dns_pointer(), info.dns_service(), info.dns_text(), *info.dns_addresses()):
        out.add_answer_at_time(record, 0)
    for packet in out.packets():
        azc.zeroconf.record_manager.async_updates_from_response(DNSIncoming(packet))


def props(id_: str, **kw) -> dict[bytes, bytes]:
    d = {"id": id_, "md": "demo", "c#": "3", "s#": "7", "ff": "1", "sf": "1", "ci": "5", "pv": "1.1"}
    d.update(kw)
    return {k.encode(): v.encode() for k, v in d.items()}


async def zeroconf_scenarios() -> None:
    azc = AsyncZeroconf(interfaces=["127.0.0.1"])
    await azc.zeroconf.async_wait_for_start()
    browser = AsyncServiceBrowser(azc.zeroconf, [HAP_TYPE_TCP, HAP_TYPE_UDP], listener=ZeroconfServiceListener())
    controller = IpController(char_cache=CharacteristicCacheMemory(), zeroconf_instance=azc)
    loop = asyncio.get_running_loop()
    try:
        async with controller:
            # ---- Z1: advertisement arrives (through cache + browser) while several callers wait
            x, y = "AA:BB:CC:00:00:01", "aa:bb:cc:00:00:02"
            start = loop.time()
            w_short = asyncio.create_task(controller.async_find(x, timeout=0.2))
            w_a = asyncio.create_task(controller.async_find(x.lower(), timeout=LONG))
            w_b = asyncio.create_task(controller.async_find(x, timeout=LONG + 1))
            w_cancel = asyncio.create_task(controller.async_find(x, timeout=LONG))
            w_other = asyncio.create_task(controller.async_find(y, timeout=1.2))
            await asyncio.sleep(0.05)
            w_cancel.cancel()
            await asyncio.sleep(0.25)
            assert w_short.done() and isinstance(outcome(w_short), AccessoryNotFoundError), outcome(w_short)
            assert 0.2 <= loop.time() - start < 0.35
            assert w_cancel.cancelled()
            assert not w_a.done() and not w_b.done() and not w_other.done()
            # mixed-case TXT keys, upper-case id, link-local / unspecified addresses mixed in
            z1 = {b"ID": x.encode(), b"MD": b"Demo", b"C#": b"3", b"S#": b"7", b"FF": b"1", b"Sf": b"1", b"cI": b"5"}
            inject(
                azc,
                make_info("z1", z1, ["fe80::1", "2001:db8::5", "169.254.7.7", "0.0.0.0", "10.1.2.3"]),
            )
            injected = loop.time()
            await settle([w_a, w_b])
            # _handle_service defers the cache look-up by 0.5s
            assert 0.4 <= loop.time() - injected < 0.9, loop.time() - injected
            d = outcome(w_a)
            assert isinstance(d, IpDiscovery), d
            assert outcome(w_b) is d and controller.discoveries[x.lower()] is d
            desc = d.description
            assert desc.id == x.lower() and desc.name == "z1" and desc.model == "Demo"
            assert (desc.config_num, desc.state_num) == (3, 7)
            assert desc.feature_flags == FeatureFlags(1) and desc.status_flags == StatusFlags(1)
            assert desc.category == Categories.LIGHTBULB and desc.port == 51826
            assert desc.address == "10.1.2.3", desc.address
            assert desc.addresses[0] == "10.1.2.3" and set(desc.addresses) == {"10.1.2.3", "2001:db8::5"}
            assert not w_other.done()
            await settle([w_other])
            assert isinstance(outcome(w_other), AccessoryNotFoundError)
            assert 1.2 <= loop.time() - start < 1.5, loop.time() - start
            # already known: answered without waiting
            assert (await asyncio.wait_for(controller.async_find(x.swapcase(), timeout=0.0001), 1)).description.id == x.lower()
            log("Z1 ok: waiters woken by an mDNS record, short/other waiters time out, cancelled waiter is cancelled")

            # ---- Z2: direct hand-over; waiters complete within a couple of loop iterations,
            #          with / without a loaded pairing, 1..3 waiters, 2 ids
            for n_waiters, paired in ((1, False), (2, True), (3, False)):
                ida, idb = f"aa:bb:cc:00:02:{n_waiters:02x}", f"aa:bb:cc:00:03:{n_waiters:02x}"
                if paired:
                    pairing = controller.load_pairing(
                        f"alias{n_waiters}", {"Connection": "IP", "AccessoryPairingID": ida.upper(), "AccessoryIP": "127.0.0.1", "AccessoryPort": 9}
                    )
                    pairing._process_config_changed = _noop_config_changed
                wa = [asyncio.create_task(controller.async_find(ida, timeout=LONG + i)) for i in range(n_waiters)]
                wb = [asyncio.create_task(controller.async_find(idb.upper(), timeout=LONG))]
                await asyncio.sleep(0.01)
                controller._async_handle_loaded_service_info(make_info(f"z2b{n_waiters}", props(idb), ["127.0.0.1"]))
                its = await spin_until_done(wb, 4)
                assert not any(t.done() for t in wa)
                assert outcome(wb[0]).description.id == idb
                controller._async_handle_loaded_service_info(
                    make_info(f"z2a{n_waiters}", props(ida.upper()), ["127.0.0.1"])
                )
                its2 = await spin_until_done(wa, 4)
                assert all(outcome(t) is controller.discoveries[ida] for t in wa)
                if paired:
                    assert pairing.description is not None and pairing.description.id == ida
                log(f"Z2 ok: {n_waiters} waiter(s), paired={paired}: woken after {its}/{its2} loop iteration(s)")

            # ---- Z3: malformed records neither raise nor wake anybody
            bad = "aa:bb:cc:00:04:01"
            w_bad = asyncio.create_task(controller.async_find(bad, timeout=0.6))
            await asyncio.sleep(0.01)
            full = make_info("z3", props(bad), ["127.0.0.1"]).text
            malformed = [
                make_info("z3", {b"md": b"x"}, ["127.0.0.1"]),  # no id
                make_info("z3", props(bad), []),  # no address
                make_info("z3", props(bad), ["169.254.1.1", "0.0.0.0", "fe80::2"]),  # nothing usable
                make_info("z3", props(bad, **{"c#": "x"}), ["127.0.0.1"]),
                make_info("z3", props(bad, **{"s#": ""}), ["127.0.0.1"]),
                make_info("z3", props(bad, ci="1.5"), ["127.0.0.1"]),
            ]
            # every truncation of the raw TXT payload that loses the id
            for cut in range(len(full)):
                info = make_info("z3", full[:cut], ["127.0.0.1"])
                if (info.decoded_properties.get("id") or "").lower() != bad:
                    malformed.append(info)
            for info in malformed:
                controller._async_handle_loaded_service_info(info)  # must not raise
            inject(azc, make_info("z3inj", {b"md": b"x"}, ["127.0.0.1"]))
            await settle([w_bad])
            assert isinstance(outcome(w_bad), AccessoryNotFoundError), outcome(w_bad)
            assert bad not in controller.discoveries
            log(f"Z3 ok: {len(malformed)} malformed records ignored, waiter timed out")

            # ---- Z4: deadline and record handled in the very same loop iteration
            await deadline_races(
                "Z4",
                lambda id_, timeout: controller.async_find(id_, timeout=timeout),
                lambda id_: controller._async_handle_loaded_service_info(make_info("z4" + id_[-2:], props(id_), ["127.0.0.1"])),
                strict_advert_first=True,
            )
            # ---- Z5: cancellation in the same iteration as the record
            await cancel_races(
                "Z5",
                lambda id_, timeout: controller.async_find(id_, timeout=timeout),
                lambda id_: controller._async_handle_loaded_service_info(make_info("z5" + id_[-2:], props(id_), ["127.0.0.1"])),
            )
    finally:
        await browser.async_cancel()
        await azc.async_close()


# --------------------------------------------------------------------------- shared race scenarios


async def deadline_races(tag: str, find, advertise, strict_advert_first: bool) -> None:
    """The loop is blocked across both the waiter deadline and the advertisement, so the timer
    callback of the deadline and the advertisement run back to back in ONE loop iteration."""
    loop = asyncio.get_running_loop()
    for case, (advert_first, id_) in enumerate(((True, "aa:bb:cc:00:05:01"), (False, "aa:bb:cc:00:05:02"))):
        id_ = id_[:-5] + f"{ord(tag[0]) % 256:02x}" + id_[-3:]
        waiter = asyncio.create_task(find(id_.upper(), 0.10))
        bystander = asyncio.create_task(find(id_, LONG))
        await asyncio.sleep(0)
        t0 = loop.time()
        order: list[str] = []
        loop.call_at(t0 + 0.04, time.sleep, 0.13)  # blocks until ~t0+0.17

        def _advert(id_=id_, order=order, waiter=waiter):
            order.append("advert(waiter done=%s)" % waiter.done())
            advertise(id_)

        loop.call_at(t0 + (0.07 if advert_first else 0.14), _advert)
        await settle([waiter, bystander])
        assert order == ["advert(waiter done=False)"], order
        res = outcome(waiter)
        assert outcome(bystander).description.id == id_, outcome(bystander)
        if advert_first:
            if strict_advert_first:
                assert not isinstance(res, BaseException) and res.description.id == id_, res
            else:
                # the unmodified BLE finder loses this race, the changed one wins it
                assert isinstance(res, AccessoryNotFoundError) or res.description.id == id_, res
            log(f"{tag} ok: advertisement just ahead of the deadline -> {type(res).__name__}")
        else:
            assert isinstance(res, AccessoryNotFoundError), res
            log(f"{tag} ok: deadline just ahead of the advertisement -> {type(res).__name__}")
        assert (await find(id_, 0.0001)).description.id == id_


async def cancel_races(tag: str, find, advertise) -> None:
    loop = asyncio.get_running_loop()
    for cancel_first in (True, False):
        id_ = f"aa:bb:cc:{ord(tag[0]) % 256:02x}:06:{int(cancel_first):02x}"
        victim = asyncio.create_task(find(id_, LONG))
        others = [asyncio.create_task(find(id_.upper(), LONG)) for _ in range(2)]
        await asyncio.sleep(0.01)

        def _both():
            if cancel_first:
                victim.cancel()
                advertise(id_)
            else:
                advertise(id_)
                victim.cancel()

        loop.call_soon(_both)
        await spin_until_done([victim, *others], 5)
        assert victim.cancelled()
        assert all(outcome(t).description.id == id_ for t in others)
    log(f"{tag} ok: a waiter cancelled in the iteration of the advertisement is cancelled, the others are served")


# --------------------------------------------------------------------------- BLE side


class FakeScannerBackend(BaseBleakScanner):
    """The only fake part of the BLE stack: what the OS would deliver."""

    instances: list[FakeScannerBackend] = []

    def __init__(self, detection_callback, service_uuids, scanning_mode, **kwargs):
        super().__init__(detection_callback, service_uuids)
        self.running = False
        FakeScannerBackend.instances.append(self)

    async def start(self) -> None:
        self.running = True

    async def stop(self) -> None:
        self.running = False

    def advertise(self, address: str, name: str | None, mfr: dict[int, bytes]) -> None:
        assert self.running
        adv = AdvertisementData(
            local_name=name,
            manufacturer_data=mfr,
            service_data={},
            service_uuids=[],
            tx_power=-127,
            rssi=-60,
            platform_data=(),
        )
        device = self.create_or_update_device(address, address, name, {}, adv)
        self.call_detection_callbacks(device, adv)  # propagates anything the callback raises


def hk_adv(id_: str, sf=1, acid=5, gsn=7, cn=3, cv=2, setup_hash=b"\x01\x02\x03\x04") -> bytes:
    return bytes([0x06, 0x31, sf]) + bytes.fromhex(id_.replace(":", "")) + struct.pack("<HHBB", acid, gsn, cn, cv) + setup_hash


def fake_scanner_patch():
    return mock.patch(
        "aiohomekit.controller.ble.controller.BleakScanner",
        functools.partial(BleakScanner, backend=FakeScannerBackend),
    )


def addr_of(id_: str) -> str:
    return "11:22:33:" + id_.upper()[-8:]


async def ble_scenarios() -> None:
    loop = asyncio.get_running_loop()
    controller = BleController(CharacteristicCacheMemory())
    with fake_scanner_patch():
        await controller.async_start()
    assert isinstance(controller._scanner, BleakScanner)
    backend = FakeScannerBackend.instances[-1]

    def advertise(id_: str, **kw) -> None:
        backend.advertise(addr_of(id_), "Demo " + id_[-2:], {76: hk_adv(id_, **kw)})

    find = lambda id_, timeout: controller.async_find(id_, timeout=timeout)  # noqa: E731
    try:
        # ---- B1
        x, y = "AA:BB:CC:01:00:01", "aa:bb:cc:01:00:02"
        start = loop.time()
        w_short = asyncio.create_task(find(x, 0.2))
        w_a = asyncio.create_task(find(x.lower(), LONG))
        w_b = asyncio.create_task(find(x, LONG + 1))
        w_cancel = asyncio.create_task(find(x, LONG))
        w_other = asyncio.create_task(find(y, 0.8))
        await asyncio.sleep(0.05)
        w_cancel.cancel()
        await asyncio.sleep(0.25)
        assert isinstance(outcome(w_short), AccessoryNotFoundError) and 0.2 <= loop.time() - start < 0.35
        assert w_cancel.cancelled() and not w_a.done() and not w_b.done() and not w_other.done()
        # things that are not HomeKit advertisements, and every truncation of a valid one
        good = hk_adv(x.lower())
        junk: list[dict[int, bytes]] = [{}, {76: b""}, {77: good}, {76: b"\x07" + good[1:]}, {76: b"\x11"}, {76: b"\x11\x00"}]
        junk += [{76: good[:cut]} for cut in range(1, 15)]
        for mfr in junk:
            backend.advertise(addr_of(x), "junk", mfr)  # must not raise
        await asyncio.sleep(0.02)
        assert not w_a.done() and not w_b.done() and x.lower() not in controller.discoveries
        advertise(x.lower())
        its = await spin_until_done([w_a, w_b], 4)
        d = outcome(w_a)
        assert isinstance(d, BleDiscovery) and outcome(w_b) is d
        desc = d.description
        assert desc.id == x.lower() and (desc.config_num, desc.state_num) == (3, 7)
        assert desc.category == Categories.LIGHTBULB and desc.status_flags == StatusFlags(1)
        assert desc.address == addr_of(x) and d.device.address == addr_of(x)
        again = await find(x, 0.0001)
        assert again is controller.discoveries[x.lower()] and again.description == desc and again.device is d.device
        await settle([w_other])
        assert isinstance(outcome(w_other), AccessoryNotFoundError) and 0.8 <= loop.time() - start < 1.1
        # the 15..18 byte forms (no setup hash) are valid and are found too
        w15 = asyncio.create_task(find(y, LONG))
        await asyncio.sleep(0.01)
        backend.advertise(addr_of(y), None, {76: hk_adv(y)[:15]})
        await spin_until_done([w15], 4)
        assert outcome(w15).description.id == y and outcome(w15).description.setup_hash == b""
        log(f"B1 ok: {len(junk)} junk advertisements ignored; waiters woken after {its} loop iteration(s); timeouts honoured")

        # ---- B2: pairing loaded for the advertised id, without and with cached accessory state
        for cached in (False, True):
            id_ = f"aa:bb:cc:01:01:{int(cached):02x}"
            pairing = controller.load_pairing(
                f"ble{cached}",
                {"Connection": "BLE", "AccessoryPairingID": id_.upper(), "AccessoryAddress": addr_of(id_)},
            )
            pairing._process_config_changed = _noop_config_changed
            if cached:
                accessories = Accessories()
                accessories.add_accessory(Accessory.create_with_info(1, "n", "m", "mo", "0001", "0.1"))
                pairing.restore_accessories_state(accessories.serialize(), 3, None, 2)
            waiters = [asyncio.create_task(find(id_.upper() if i % 2 else id_, LONG + i)) for i in range(3)]
            other = asyncio.create_task(find("aa:bb:cc:01:01:ff", 0.3))
            await asyncio.sleep(0.01)
            advertise(id_, gsn=9)
            await spin_until_done(waiters, 4)
            assert all(outcome(t).description.id == id_ and outcome(t).description.state_num == 9 for t in waiters)
            assert pairing.description is not None and pairing.description.state_num == 9
            assert pairing.device is not None and pairing.device.address == addr_of(id_)
            if cached:
                assert pairing.state_num == 9
            advertise(id_, gsn=10)  # a later advertisement updates what a new caller gets
            assert (await find(id_, 0.0001)).description.state_num == 10
            await settle([other])
            assert isinstance(outcome(other), AccessoryNotFoundError)
        log("B2 ok: waiters woken with a pairing loaded (with and without cached accessory state)")

        # ---- B4 / B5
        await deadline_races("B4", find, advertise, strict_advert_first=False)
        await cancel_races("B5", find, advertise)
    finally:
        await controller.async_stop()
        assert not backend.running


# --------------------------------------------------------------------------- aggregate controller


async def aggregate_scenarios() -> None:
    loop = asyncio.get_running_loop()
    azc = AsyncZeroconf(interfaces=["127.0.0.1"])
    await azc.zeroconf.async_wait_for_start()
    browser = AsyncServiceBrowser(azc.zeroconf, [HAP_TYPE_TCP, HAP_TYPE_UDP], listener=ZeroconfServiceListener())
    controller = Controller(async_zeroconf_instance=azc)
    try:
        with fake_scanner_patch():
            await controller.async_start()
        assert set(controller.transports) == {TransportType.IP, TransportType.COAP, TransportType.BLE}
        backend = FakeScannerBackend.instances[-1]

        via_ble, via_ip, nobody = "aa:bb:cc:02:00:01", "aa:bb:cc:02:00:02", "aa:bb:cc:02:00:03"
        t_ble = asyncio.create_task(controller.async_find(via_ble.upper(), timeout=LONG))
        t_ble2 = asyncio.create_task(controller.async_find(via_ble, timeout=LONG))
        t_ip = asyncio.create_task(controller.async_find(via_ip.upper(), timeout=LONG))
        t_none = asyncio.create_task(controller.async_find(nobody, timeout=0.4))
        start = loop.time()
        await asyncio.sleep(0.05)
        backend.advertise(addr_of(via_ble), "agg", {76: hk_adv(via_ble)})
        await asyncio.wait([t_ble, t_ble2], timeout=1)
        assert isinstance(outcome(t_ble), BleDiscovery) and outcome(t_ble).description.id == via_ble
        assert isinstance(outcome(t_ble2), BleDiscovery) and not t_ip.done()
        inject(azc, make_info("agg", props(via_ip.upper()), ["127.0.0.1"]))
        await settle([t_ip, t_none])
        assert isinstance(outcome(t_ip), IpDiscovery) and outcome(t_ip).description.id == via_ip
        assert isinstance(outcome(t_none), AccessoryNotFoundError) and 0.4 <= loop.time() - start < 0.8
        # the per-transport finders the aggregate cancelled left every transport usable
        assert (await controller.async_find(via_ip, timeout=0.001)).description.id == via_ip
        assert (await controller.async_find(via_ble, timeout=0.001)).description.id == via_ble
        log("AGG ok: aggregate finder completed by BLE, by mDNS, and not-found at the timeout")
    finally:
        await controller.async_stop()
        await browser.async_cancel()
        await azc.async_close()


async def main() -> None:
    loop = asyncio.get_running_loop()
    loop.set_exception_handler(lambda _loop, ctx: LOOP_ERRORS.append(ctx))
    await zeroconf_scenarios()
    await ble_scenarios()
    await aggregate_scenarios()
    await asyncio.sleep(0.05)
    assert not LOOP_ERRORS, LOOP_ERRORS  # nothing raised out of a browser / scanner / timer callback
    leftovers = [t for t in asyncio.all_tasks() if t is not asyncio.current_task() and "async_find" in repr(t)]
    assert not leftovers, leftovers
    log("ALL OK")


def test_demo_k19a() -> None:
    asyncio.run(main())


if __name__ == "__main__":
    test_demo_k19a()
    sys.exit(0)
