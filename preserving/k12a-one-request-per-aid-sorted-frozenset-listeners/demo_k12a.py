"""Demonstration for change k12a (property C12: subscriptions survive reconnects,
every event reaches every listener exactly once and in order).

Everything is real: the asyncio event loop, loopback TCP sockets, the real
IpController / IpPairing / SecureHomeKitConnection and the real HAP crypto.
Only the accessory is a stand-in: an asyncio TCP server (FakeAccessory) that
speaks pair-verify + the encrypted HAP session and lets the scenarios inject
faults (drops at chosen points) and craft event bursts.

Run:  PYTHONPATH=/tmp/wt/k12a /venv/bin/python /tmp/wt/k12a/demo_k12a.py
 or:  PYTHONPATH=/tmp/wt/k12a /venv/bin/python -m pytest -q -p no:cacheprovider demo_k12a.py

The assertions only state what the property states, so they hold on the
unmodified code as well as with the k12a patch applied.
"""

from __future__ import annotations

import asyncio
import json
import logging
import os
import socket

from cryptography.hazmat.primitives import serialization
from cryptography.hazmat.primitives.asymmetric import ed25519, x25519

from aiohomekit.characteristic_cache import CharacteristicCacheMemory
from aiohomekit.controller.ip.controller import IpController
from aiohomekit.crypto import hkdf_derive
from aiohomekit.crypto.chacha20poly1305 import (
    NONCE_PADDING,
    PACK_NONCE,
    ChaCha20Poly1305Decryptor,
    ChaCha20Poly1305Encryptor,
)
from aiohomekit.protocol.tlv import TLV

ACCESSORY_ID = "12:34:56:00:01:0A"
CONTROLLER_ID = "decc6fa3-de3e-41c9-adba-ef7409821bfc"
RAW = dict(encoding=serialization.Encoding.Raw, format=serialization.PublicFormat.Raw)
RAW_PRIV = dict(
    encoding=serialization.Encoding.Raw,
    format=serialization.PrivateFormat.Raw,
    encryption_algorithm=serialization.NoEncryption(),
)


# --------------------------------------------------------------------------
# The fake accessory
# --------------------------------------------------------------------------


def http_event(body: bytes) -> bytes:
    return (
        b"EVENT/1.0 200 OK\r\nContent-Type: application/hap+json\r\nContent-Length: "
        + str(len(body)).encode()
        + b"\r\n\r\n"
        + body
    )


def json_event(*rows) -> bytes:
    """rows: (aid, iid, value)"""
    return http_event(
        json.dumps({"characteristics": [{"aid": a, "iid": i, "value": v} for a, i, v in rows]}).encode()
    )


NO_CONTENT = b"HTTP/1.1 204 No Content\r\n\r\n"


class Conn:
    def __init__(self, server: FakeAccessory, index: int, reader, writer) -> None:
        self.server = server
        self.index = index
        self.reader = reader
        self.writer = writer
        self.secure = False
        self.gone = False
        self.puts: list[list[dict]] = []  # every PUT /characteristics seen, in order
        self.ev_true: set[tuple[int, int]] = set()
        self.ev_false: set[tuple[int, int]] = set()
        self.a2c_key = self.c2a_key = None
        self.a2c_count = self.c2a_count = 0

    # -- outgoing -----------------------------------------------------------
    def frames(self, plaintext: bytes) -> list[bytes]:
        out = []
        while plaintext:
            block, plaintext = plaintext[:1024], plaintext[1024:]
            length = len(block).to_bytes(2, "little")
            out.append(
                length + ChaCha20Poly1305Encryptor(self.a2c_key).encrypt(length, PACK_NONCE(self.a2c_count), block)
            )
            self.a2c_count += 1
        return out

    async def send(self, messages: list[bytes], cuts: list[int] | None = None) -> list[int]:
        """Encrypt the HTTP messages; write them in ONE write (cuts=None) or in
        several writes cut at the given ciphertext offsets (negative = from the
        end), pausing between the pieces so they arrive in separate reads.
        Returns the frame boundaries (offsets) of the ciphertext."""
        frames = [f for m in messages for f in self.frames(m)]
        data = b"".join(frames)
        bounds, pos = [], 0
        for f in frames:
            pos += len(f)
            bounds.append(pos)
        if not cuts:
            self.writer.write(data)
            await self.writer.drain()
            return bounds
        cuts = sorted({c % len(data) for c in cuts})
        last = 0
        for cut in [*cuts, len(data)]:
            self.writer.write(data[last:cut])
            await self.writer.drain()
            await asyncio.sleep(0.03)
            last = cut
        return bounds

    def abort(self) -> None:
        self.gone = True
        self.writer.transport.abort()

    # -- incoming -----------------------------------------------------------
    async def read_plain_request(self) -> tuple[str, bytes]:
        head = await self.reader.readuntil(b"\r\n\r\n")
        return self._finish(head, await self.reader.readexactly(self._length(head)))

    @staticmethod
    def _length(head: bytes) -> int:
        for line in head.split(b"\r\n")[1:]:
            if line.lower().startswith(b"content-length:"):
                return int(line.split(b":", 1)[1])
        return 0

    @staticmethod
    def _finish(head: bytes, body: bytes) -> tuple[str, bytes]:
        method, target, _ = head.split(b"\r\n", 1)[0].decode().split(" ", 2)
        return f"{method} {target}", body

    async def read_secure_request(self, buf: bytearray) -> tuple[str, bytes]:
        while True:
            end = buf.find(b"\r\n\r\n")
            if end != -1:
                head = bytes(buf[: end + 4])
                length = self._length(head)
                if len(buf) >= end + 4 + length:
                    body = bytes(buf[end + 4 : end + 4 + length])
                    del buf[: end + 4 + length]
                    return self._finish(head, body)
            hdr = await self.reader.readexactly(2)
            block = await self.reader.readexactly(int.from_bytes(hdr, "little") + 16)
            buf += ChaCha20Poly1305Decryptor(self.c2a_key).decrypt(hdr, PACK_NONCE(self.c2a_count), block)
            self.c2a_count += 1

    def reply_tlv(self, items) -> None:
        body = TLV.encode_list(items)
        self.writer.write(
            b"HTTP/1.1 200 OK\r\nContent-Type: application/pairing+tlv8\r\nContent-Length: "
            + str(len(body)).encode()
            + b"\r\n\r\n"
            + bytes(body)
        )

    async def run(self) -> None:
        srv = self.server
        fault = srv.plan.pop(0) if srv.plan else None
        # ---- pair-verify, in the clear ----
        _, body = await self.read_plain_request()
        m1 = dict(TLV.decode_bytes(body))
        if fault == "m1":
            return self.abort()
        ios_pub = bytes(m1[TLV.kTLVType_PublicKey])
        key = x25519.X25519PrivateKey.generate()
        acc_pub = key.public_key().public_bytes(**RAW)
        shared = key.exchange(x25519.X25519PublicKey.from_public_bytes(ios_pub))
        sig = srv.ltsk.sign(acc_pub + ACCESSORY_ID.encode() + ios_pub)
        sub = TLV.encode_list([(TLV.kTLVType_Identifier, ACCESSORY_ID.encode()), (TLV.kTLVType_Signature, sig)])
        session_key = hkdf_derive(shared, b"Pair-Verify-Encrypt-Salt", b"Pair-Verify-Encrypt-Info")
        enc = ChaCha20Poly1305Encryptor(session_key).encrypt(b"", NONCE_PADDING + b"PV-Msg02", bytes(sub))
        self.reply_tlv(
            [(TLV.kTLVType_State, TLV.M2), (TLV.kTLVType_PublicKey, acc_pub), (TLV.kTLVType_EncryptedData, enc)]
        )
        _, body = await self.read_plain_request()
        m3 = dict(TLV.decode_bytes(body))
        if fault == "m3":
            return self.abort()
        d1 = dict(
            TLV.decode_bytes(
                ChaCha20Poly1305Decryptor(session_key).decrypt(
                    b"", NONCE_PADDING + b"PV-Msg03", bytes(m3[TLV.kTLVType_EncryptedData])
                )
            )
        )
        srv.controller_ltpk.verify(
            bytes(d1[TLV.kTLVType_Signature]), ios_pub + bytes(d1[TLV.kTLVType_Identifier]) + acc_pub
        )
        self.c2a_key = hkdf_derive(shared, b"Control-Salt", b"Control-Write-Encryption-Key")
        self.a2c_key = hkdf_derive(shared, b"Control-Salt", b"Control-Read-Encryption-Key")
        self.reply_tlv([(TLV.kTLVType_State, TLV.M4)])
        await self.writer.drain()
        self.secure = True

        # ---- the encrypted session ----
        buf = bytearray()
        while True:
            what, body = await self.read_secure_request(buf)
            assert what == "PUT /characteristics", what
            rows = json.loads(body)["characteristics"]
            nth = len(self.puts)
            self.puts.append(rows)
            if fault == ("put", nth):
                return self.abort()  # the subscription request is cut off: no reply
            for row in rows:
                ident = (row["aid"], row["iid"])
                (self.ev_true if row["ev"] else self.ev_false).add(ident)
                (self.ev_false if row["ev"] else self.ev_true).discard(ident)
            before, after = srv.around_reply.pop(0) if srv.around_reply else ([], [])
            await self.send([*before, NO_CONTENT, *after])  # ONE write: events ride with the reply


class FakeAccessory:
    def __init__(self) -> None:
        self.ltsk = ed25519.Ed25519PrivateKey.generate()
        controller_ltsk = ed25519.Ed25519PrivateKey.generate()
        self.controller_ltpk = controller_ltsk.public_key()
        self.controller_ltsk_hex = controller_ltsk.private_bytes(**RAW_PRIV).hex()
        self.conns: list[Conn] = []
        self.plan: list = []  # one entry per future connection: None | "m1" | "m3" | ("put", n)
        self.around_reply: list[tuple[list[bytes], list[bytes]]] = []
        self.errors: list[BaseException] = []

    async def start(self) -> None:
        self.server = await asyncio.start_server(self._client, "127.0.0.1", 0)
        self.port = self.server.sockets[0].getsockname()[1]

    async def _client(self, reader, writer) -> None:
        writer.get_extra_info("socket").setsockopt(socket.IPPROTO_TCP, socket.TCP_NODELAY, 1)
        conn = Conn(self, len(self.conns), reader, writer)
        self.conns.append(conn)
        try:
            await conn.run()
        except (asyncio.IncompleteReadError, ConnectionError):
            pass
        except BaseException as ex:  # a bug in the fake: make the demo fail loudly
            self.errors.append(ex)
            raise
        finally:
            conn.gone = True
            writer.close()

    async def stop(self) -> None:
        self.server.close()
        for conn in self.conns:
            conn.writer.close()
        assert not self.errors, self.errors

    def pairing_data(self) -> dict:
        return {
            "Connection": "IP",
            "AccessoryPairingID": ACCESSORY_ID,
            "AccessoryLTPK": self.ltsk.public_key().public_bytes(**RAW).hex(),
            "iOSPairingId": CONTROLLER_ID,
            "iOSDeviceLTSK": self.controller_ltsk_hex,
            "iOSDeviceLTPK": self.controller_ltpk.public_bytes(**RAW).hex(),
            "AccessoryIP": "127.0.0.1",
            "AccessoryPort": self.port,
        }


# --------------------------------------------------------------------------
# Helpers
# --------------------------------------------------------------------------


class Recorder:
    def __init__(self, name: str, raises: bool = False) -> None:
        self.name = name
        self.raises = raises
        self.got: list[dict] = []

    def __call__(self, event: dict) -> None:
        self.got.append({key: dict(value) for key, value in event.items()})
        if self.raises:
            raise RuntimeError(f"listener {self.name} always fails")

    @property
    def back(self) -> int:
        """How often we were told the connection is back."""
        return sum(1 for event in self.got if event == {})

    @property
    def events(self) -> list[dict]:
        return [event for event in self.got if event != {}]


async def until(predicate, what: str, timeout: float = 8.0) -> None:
    deadline = asyncio.get_running_loop().time() + timeout
    while not predicate():
        assert asyncio.get_running_loop().time() < deadline, f"timed out waiting for: {what}"
        await asyncio.sleep(0.01)


async def setup():
    accessory = FakeAccessory()
    await accessory.start()
    controller = IpController(char_cache=CharacteristicCacheMemory(), zeroconf_instance=None)
    pairing = controller.load_pairing("alias", accessory.pairing_data())
    return accessory, pairing


def check_requests_are_per_accessory(accessory: FakeAccessory) -> None:
    for conn in accessory.conns:
        if os.environ.get("DEMO_K12A_TRACE"):  # show the wire-level request sequence (not asserted)
            trace = [(rows[0]["aid"], [row["iid"] for row in rows], rows[0]["ev"]) for rows in conn.puts]
            print(f"     conn {conn.index}: {len(conn.puts)} PUT(s) {trace}")
        for rows in conn.puts:
            assert len({row["aid"] for row in rows}) == 1, f"request mixes accessory ids: {rows}"


def val(**kw):
    return {key: {"value": value} for key, value in kw.items()}


# --------------------------------------------------------------------------
# Scenario 1: subscriptions survive reconnects (drops at several points)
# --------------------------------------------------------------------------


async def scenario_resubscribe() -> None:
    accessory, pairing = await setup()
    good, bad = Recorder("good"), Recorder("bad", raises=True)
    pairing.dispatcher_connect(good)
    pairing.dispatcher_connect(bad)

    # A history of overlapping subscribe / unsubscribe calls over several accessory ids
    assert await pairing.subscribe([(1, 9), (2, 5), (1, 10), (3, 2), (2, 7)]) == {}
    await pairing.subscribe({(2, 5), (2, 6), (4, 1)})
    await pairing.subscribe([(1, 10), (7, 1), (1, 11), (7, 2)])
    assert await pairing.unsubscribe([(1, 10), (7, 2)]) == {}
    subs = {(1, 9), (2, 5), (3, 2), (2, 7), (2, 6), (4, 1), (7, 1), (1, 11)}
    assert pairing.subscriptions == subs
    first = accessory.conns[0]
    assert len(accessory.conns) == 1 and first.ev_true == subs and first.ev_false == {(1, 10), (7, 2)}
    assert good.back == bad.back == 1

    async def reconnected(n_conns: int, expect: set) -> Conn:
        await until(lambda: len(accessory.conns) == n_conns, f"connection #{n_conns}")
        conn = accessory.conns[-1]
        await until(lambda: conn.ev_true >= expect, f"re-subscription of {sorted(expect - conn.ev_true)}")
        await until(lambda: bool(pairing.is_connected), "pairing connected")
        return conn

    # (a) dropped while idle -> reconnects by itself, asks again for everything
    first.abort()
    conn = await reconnected(2, subs)
    assert conn.ev_true == subs and not conn.ev_false, (conn.ev_true, conn.ev_false)
    await until(lambda: good.back == 2 and bad.back == 2, "listeners told the connection is back")

    # events flow on the new connection, the raising listener does not matter
    await conn.send([json_event((2, 5, 1)), json_event((7, 1, "x"), (1, 9, 2))])
    await until(lambda: len(good.events) == 2, "events after reconnect")

    # (b) dropped, and the next two attempts die in the middle of pair-verify
    accessory.plan = ["m1", "m3", None]
    conn.abort()
    await until(lambda: not pairing.is_connected, "pairing notices the loss")
    # while disconnected the caller changes its mind about some ids
    await pairing.unsubscribe([(3, 2), (2, 6)])  # purely local: not connected
    late = asyncio.ensure_future(pairing.subscribe([(5, 5), (1, 9)]))  # waits for the connector
    subs = (subs - {(3, 2), (2, 6)}) | {(5, 5)}
    conn = await reconnected(5, subs)
    assert await late == {}
    assert pairing.subscriptions == subs
    assert conn.ev_true == subs and not conn.ev_false, (conn.ev_true, conn.ev_false)
    assert [c.secure for c in accessory.conns] == [True, True, False, False, True]
    await until(lambda: good.back == 3 and bad.back == 3, "listeners told the connection is back")

    # (c) three more plain drops in a row, with an event burst in between
    for n in (6, 7, 8):
        conn.abort()
        conn = await reconnected(n, subs)
        assert conn.ev_true == subs and not conn.ev_false
        await until(lambda: good.back == n - 2, "listeners told the connection is back")
        await conn.send([json_event((5, 5, n)), http_event(b""), json_event((1, 11, n))])
        await until(lambda: len(good.events) == 2 + 2 * (n - 5), "events after reconnect")

    expected = [
        {(2, 5): {"value": 1}},
        {(7, 1): {"value": "x"}, (1, 9): {"value": 2}},
        *[e for n in (6, 7, 8) for e in ({(5, 5): {"value": n}}, {(1, 11): {"value": n}})],
    ]
    assert good.events == expected, good.events
    assert bad.events == expected, bad.events  # recorded before raising
    assert good.back == bad.back == 6
    assert pairing.supports_subscribe is True
    check_requests_are_per_accessory(accessory)

    await pairing.shutdown()
    await accessory.stop()


# --------------------------------------------------------------------------
# Scenario 2: a re-subscription request cut off by a disconnection -> polling
# --------------------------------------------------------------------------


async def scenario_cut_off_falls_back_to_polling() -> None:
    accessory, pairing = await setup()
    good, bad = Recorder("good"), Recorder("bad", raises=True)
    pairing.dispatcher_connect(bad)
    pairing.dispatcher_connect(good)

    await pairing.subscribe([(1, 9), (2, 5), (1, 10)])
    assert accessory.conns[0].ev_true == {(1, 9), (2, 5), (1, 10)}

    # next connection: the accessory hangs up on the first re-subscription request
    accessory.plan = [("put", 0), None]
    accessory.conns[0].abort()
    await until(lambda: len(accessory.conns) == 3 and accessory.conns[2].secure, "third connection")
    await until(lambda: bool(pairing.is_connected), "pairing connected")
    await until(lambda: good.back == 3 and bad.back == 3, "listeners told about every connection")
    await asyncio.sleep(0.3)

    cut, third = accessory.conns[1], accessory.conns[2]
    assert cut.secure and len(cut.puts) == 1  # it was asked, the request was cut off
    assert pairing.supports_subscribe is False  # the deliberate fall back to polling
    assert third.puts == [] and not third.gone  # connection is up, nobody asks for events
    assert pairing.subscriptions == {(1, 9), (2, 5), (1, 10)}  # bookkeeping untouched
    assert await pairing.subscribe([(3, 3)]) is None and third.puts == []
    check_requests_are_per_accessory(accessory)

    await pairing.shutdown()
    await accessory.stop()


# --------------------------------------------------------------------------
# Scenario 3: every event, every listener, exactly once, in order
# --------------------------------------------------------------------------


async def scenario_events() -> None:
    accessory, pairing = await setup()
    await pairing.subscribe([(1, 9), (1, 10), (2, 5)])
    conn = accessory.conns[0]

    a, b, c, e = Recorder("a"), Recorder("b", raises=True), Recorder("c"), Recorder("e")
    stops = {}

    class SelfRemoving(Recorder):
        """On its first event: registers listener e and unregisters itself."""

        def __call__(self, event):
            super().__call__(event)
            stops["e"] = pairing.dispatcher_connect(e)
            stops["d"]()

    d = SelfRemoving("d")
    for name, listener in (("a", a), ("b", b), ("c", c), ("d", d)):
        stops[name] = pairing.dispatcher_connect(listener)
    stops["a2"] = pairing.dispatcher_connect(a)  # registering twice is still one listener

    sent = []

    def ev(*rows):
        sent.append({(aid, iid): {"value": value} for aid, iid, value in rows})
        return json_event(*rows)

    # 1. three events in one write (one read on the other side)
    await conn.send([ev((1, 9, 1)), ev((1, 10, 2)), ev((2, 5, 3), (1, 9, 4))])
    # 2. an empty event, a non-JSON event and a good one, in one write
    await conn.send([http_event(b""), http_event(b"<html>not json</html>"), ev((1, 9, 5))])
    # 3. a non-JSON (but valid UTF-8) event and a three-frame event in one write, then another
    #    three-frame event cut inside frame 1, exactly between frames 1|2, and inside frame 3
    await conn.send([http_event("caf\u00e9 {".encode()), ev((1, 10, "v" * 2500))])
    bounds = await conn.send([ev((1, 10, "w" * 2500))], cuts=[500, 2 + 1024 + 16, -40])
    assert len(bounds) == 3 and bounds[0] == 2 + 1024 + 16
    # 4. cut in the middle of the 2-byte length prefix and of the tag; two events straddle the cuts
    await conn.send([ev((2, 5, 6)), ev((2, 5, 7))], cuts=[1, -3])
    # 5. events riding in the same write as the reply to a request: [event, reply, event]
    accessory.around_reply.append(([ev((1, 9, 8))], [ev((1, 9, 9))]))
    assert await pairing.subscribe([(2, 6)]) == {}
    # 6. malformed rows are skipped, the good row of the same event is delivered
    sent.append({(1, 9): {"value": 10}})
    body = {"characteristics": [True, {"iid": 3}, {"aid": 1, "iid": 9, "value": 10, "status": 0}]}
    await conn.send([http_event(json.dumps(body).encode())])
    await until(lambda: len(a.got) == len(sent), "first batch of events")
    # 7. listener c goes away, later events do not reach it
    stops["c"]()
    stops["c"]()  # idempotent
    n_before_c_left = len(sent)
    await conn.send([ev((2, 5, 11))])
    await conn.send([ev((2, 5, 12)), http_event(b"{"), ev((2, 5, 13))], cuts=[30, 31, 32, -1])
    await until(lambda: len(a.got) == len(sent), "second batch of events")
    await asyncio.sleep(0.1)

    assert a.got == sent, (a.got, sent)  # every event, once, in order, keyed by (aid, iid)
    assert b.got == sent  # the raising listener got them all too ...
    assert c.got == sent[:n_before_c_left]  # ... and did not stop the others
    assert d.got == sent[:1]
    assert e.got == sent[1:]
    # ... nor break the connection
    assert len(accessory.conns) == 1 and not conn.gone and pairing.is_connected
    assert pairing.listeners == {a, b, e}
    check_requests_are_per_accessory(accessory)

    await pairing.shutdown()
    await accessory.stop()


async def main() -> None:
    for scenario in (scenario_resubscribe, scenario_cut_off_falls_back_to_polling, scenario_events):
        await asyncio.wait_for(scenario(), 60)
        print(f"ok   {scenario.__name__}")
    print("demo_k12a: all scenarios passed")


def test_demo_k12a() -> None:
    asyncio.run(main())


if __name__ == "__main__":
    logging.basicConfig(level=logging.CRITICAL)  # listener b's tracebacks are expected noise
    asyncio.run(main())
