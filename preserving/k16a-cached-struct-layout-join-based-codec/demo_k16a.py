#!/usr/bin/env python
"""
demo_k16a.py - demonstration for property C16 (structured TLV8 messages round-trip).

Run as a plain script:   PYTHONPATH=/tmp/wt/k16a /venv/bin/python demo_k16a.py
or under pytest:         PYTHONPATH=/tmp/wt/k16a /venv/bin/python -m pytest -q -p no:cacheprovider demo_k16a.py

It passes on the unmodified library and with patch.diff applied, and prints a
sha256 digest of every encoding / decoded value / exception it saw.  The digest is
the same for both versions, i.e. the two implementations are indistinguishable
on everything exercised here.

Parts
  A  every TLVStruct subclass found by reflection: generated values of every supported
     field type at the boundary sizes 1, 254, 255, 256, 510, 511, unset fields, all nesting
     the types allow; the encoding is compared with an independent reference encoder
     written here and decoded again (from bytes and from bytearray).
     Arbitrary, mostly non-conformant input (truncated fragments, repeated types, unknown
     types, stray separators) is decoded too; the outcome (value, bytes/bytearray type,
     exception type) goes into the digest without being judged.
  B  structures received from accessories, encoded by an independent "accessory side"
     encoder: BLE service signatures (packed linked ids, 0..6 entries, every byte value,
     more than 255 bytes of ids), BLE characteristic signatures, CoAP accessory databases
     with 1..3 accessories x services x characteristics; tolerated non-conformant input.
  C  BLE end to end: real BlePairing + real AIOHomeKitBleakClient (bleak BleakClient) on a
     fake bleak *backend* with real BleakGATTServiceCollection/Service/Characteristic/
     Descriptor objects; signatures are delivered as bytearrays split over several HAP PDU
     fragments; two pairings fetch their GATT databases concurrently (interleaved on the
     real event loop).
  D  CoAP end to end: real aiocoap server and client contexts on loopback UDP sockets (::1),
     real EncryptionContext (ChaCha20Poly1305), CoAPHomeKitConnection.get_accessory_info();
     the database is big enough to need a CoAP blockwise transfer.
"""

from __future__ import annotations

import asyncio
import dataclasses
import enum
import hashlib
import importlib
import pkgutil
import random
import struct
import sys
from collections import abc

import aiohomekit
from aiohomekit import tlv8
from aiohomekit.tlv8 import TLVStruct, TlvParseException

SIZES = (1, 254, 255, 256, 510, 511)

_digest = hashlib.sha256()
_counts: dict[str, int] = {}


def note(kind: str, *parts) -> None:
    """Record an observation in the digest that is compared between the two versions."""
    _counts[kind] = _counts.get(kind, 0) + 1
    _digest.update(repr((kind, parts)).encode())


def outcome(fn, *args):
    """Result or exception type of a call, in a comparable/printable form."""
    try:
        return ("ok", fn(*args))
    except Exception as exc:  # noqa: BLE001 - we want to record whatever happens
        return ("exc", type(exc).__name__)


# --------------------------------------------------------------------------------------
# reflection
# --------------------------------------------------------------------------------------


def all_struct_types() -> list[type]:
    for mod in pkgutil.walk_packages(aiohomekit.__path__, "aiohomekit."):
        try:
            importlib.import_module(mod.name)
        except Exception:  # noqa: BLE001 - optional dependencies of unrelated modules
            pass

    found: dict[str, type] = {}

    def walk(cls):
        for sub in cls.__subclasses__():
            if sub.__module__.startswith("aiohomekit."):
                found[f"{sub.__module__}.{sub.__qualname__}"] = sub
            walk(sub)

    walk(TLVStruct)
    return [found[k] for k in sorted(found)]


# --------------------------------------------------------------------------------------
# independent reference codec (does not use anything from aiohomekit.tlv8 but the marker
# types used in annotations)
# --------------------------------------------------------------------------------------

INT_WIDTH = {tlv8.u8: 1, tlv8.u16: 2, tlv8.bu16: 2, tlv8.u32: 4, tlv8.u64: 8, tlv8.u128: 16}


def kind_of(tp) -> str:
    if getattr(tp, "__origin__", None) is abc.Sequence:
        return "seq"
    if isinstance(tp, type):
        if issubclass(tp, TLVStruct):
            return "struct"
        if issubclass(tp, enum.IntEnum):
            return "enum"
        if tp in INT_WIDTH:
            return "int"
        if tp is str:
            return "str"
        if tp is bytes:
            return "bytes"
    return "unsupported"


def init_fields(cls):
    return [f for f in dataclasses.fields(cls) if f.init]


def ref_value(tp, value) -> bytes:
    k = kind_of(tp)
    if k == "int":
        return int(value).to_bytes(INT_WIDTH[tp], "big" if tp is tlv8.bu16 else "little")
    if k == "enum":
        return bytes([int(value)])
    if k == "str":
        return value.encode("utf-8")
    if k == "bytes":
        return bytes(value)
    if k == "struct":
        return ref_encode(value)
    if k == "seq":
        return b"\x00\x00".join(ref_encode(item) for item in value)
    raise AssertionError(f"unsupported {tp}")


def ref_encode(obj) -> bytes:
    """Canonical encoding: declaration order, 255 byte fragments, nothing for unset fields."""
    out = b""
    for f in init_fields(type(obj)):
        value = getattr(obj, f.name)
        if value is None:
            continue
        raw = ref_value(f.type, value)
        tlv_type = int(f.metadata["tlv_type"])
        while raw:
            out += bytes([tlv_type, min(len(raw), 255)]) + raw[:255]
            raw = raw[255:]
    return out


def ref_items(data: bytes) -> list[tuple[int, bytes]]:
    """Parse conformant TLV8: a fragment of 255 bytes is continued by a following TLV of the same type."""
    items: list[tuple[int, bytes]] = []
    pos = 0
    continued = False
    while pos < len(data):
        tlv_type, length = data[pos], data[pos + 1]
        body = bytes(data[pos + 2 : pos + 2 + length])
        assert len(body) == length, "reference parser only handles complete input"
        if continued and items[-1][0] == tlv_type:
            items[-1] = (tlv_type, items[-1][1] + body)
        else:
            items.append((tlv_type, body))
        continued = length == 255
        pos += 2 + length
    return items


def ref_decode(cls, data: bytes):
    by_type = {}
    for f in init_fields(cls):
        by_type[int(f.metadata["tlv_type"])] = f  # the last declaration wins
    kwargs = {}
    for tlv_type, body in ref_items(data):
        f = by_type[tlv_type]
        kwargs[f.name] = ref_parse(f.type, body)
    return cls(**kwargs)


def ref_parse(tp, body: bytes):
    k = kind_of(tp)
    if k == "int":
        return int.from_bytes(body, "big" if tp is tlv8.bu16 else "little")
    if k == "enum":
        return tp(body[0])
    if k == "str":
        return body.decode("utf-8")
    if k == "bytes":
        return body
    if k == "struct":
        return ref_decode(tp, body)
    if k == "seq":
        inner = tp.__args__[0]
        assert kind_of(inner) == "struct"
        chunks: list[bytes] = [b""]
        for tlv_type, value in ref_items(body):
            if tlv_type == 0 and value == b"":
                chunks.append(b"")
                continue
            raw = value
            while raw:
                chunks[-1] += bytes([tlv_type, min(len(raw), 255)]) + raw[:255]
                raw = raw[255:]
        return [ref_decode(inner, chunk) for chunk in chunks]
    raise AssertionError(f"unsupported {tp}")


# --------------------------------------------------------------------------------------
# value generation
# --------------------------------------------------------------------------------------


def gen_value(tp, rnd: random.Random, size: int):
    k = kind_of(tp)
    if k == "int":
        top = (1 << (8 * INT_WIDTH[tp])) - 1
        return rnd.choice([0, 1, 0xFF & top, 0x100 & top, top, top - 1, rnd.randrange(top + 1)])
    if k == "enum":
        return rnd.choice(list(tp))
    if k == "str":
        style = rnd.randrange(3)
        if style == 0 or size < 4:
            return "".join(rnd.choice("abcXYZ019 -_") for _ in range(size))
        if style == 1:
            # two byte characters, so that one of them straddles the fragment boundary
            text = "é" * (size // 2)
            return text + "z" * (size - 2 * len(text))
        text = "q" + "é" * ((size - 1) // 2)
        return text + "z" * (size - len(text.encode()))
    if k == "bytes":
        style = rnd.randrange(5)
        if style == 0:
            return b"\x00" * size  # looks like a run of separators
        if style == 1:
            return b"\xff" * size  # looks like a run of full fragments
        if style == 2:
            return bytes((i * 7 + 3) % 256 for i in range(size))
        return rnd.randbytes(size)
    if k == "struct":
        return gen_struct(tp, rnd, rnd.choice((3, size, size)), rnd.choice((0.0, 0.3, 0.6)))
    if k == "seq":
        inner = tp.__args__[0]
        return [gen_struct(inner, rnd, rnd.choice((2, size)), rnd.choice((0.0, 0.4))) for _ in range(rnd.randrange(1, 4))]
    raise AssertionError(tp)


def settable_fields(cls):
    """Fields the library can round-trip: a supported type, and the last declaration of its TLV type."""
    last = {}
    for f in init_fields(cls):
        last[int(f.metadata["tlv_type"])] = f.name
    result = []
    for f in init_fields(cls):
        k = kind_of(f.type)
        if k == "unsupported":
            continue  # e.g. min_rtcp_interval: float - can only ever be left unset
        if k == "seq" and kind_of(f.type.__args__[0]) != "struct":
            continue  # Sequence[u16] (CoAP linked services) is only ever received; see part B
        if last[int(f.metadata["tlv_type"])] != f.name:
            continue  # Meshcop declares TLV types 128/129 twice; the later field receives them
        result.append(f)
    return result


def gen_struct(cls, rnd: random.Random, size: int, p_unset: float):
    candidates = settable_fields(cls)
    chosen = [f for f in candidates if rnd.random() >= p_unset]
    if not chosen:
        # a struct without any field encodes to nothing and cannot be told from "unset"
        chosen = [rnd.choice(candidates)]
    # at most a few fields get the boundary size, the others stay small, to keep things quick
    sized = [i for i, f in enumerate(chosen) if kind_of(f.type) in ("str", "bytes", "struct", "seq")]
    big = set(rnd.sample(sized, k=min(len(sized), 2)))
    kwargs = {}
    for index, f in enumerate(chosen):
        kwargs[f.name] = gen_value(f.type, rnd, size if index in big else rnd.randrange(1, 6))
    return cls(**kwargs)


# --------------------------------------------------------------------------------------
# part A
# --------------------------------------------------------------------------------------


def check_roundtrip(obj) -> None:
    cls = type(obj)
    encoded = obj.encode()
    assert type(encoded) is bytes
    expected = ref_encode(obj)
    assert encoded == expected, (cls, obj, encoded.hex(), expected.hex())

    decoded = cls.decode(encoded)
    assert decoded == obj, (cls, obj, decoded)
    assert ref_decode(cls, encoded) == obj, "reference decoder disagrees with the generator"
    assert decoded.encode() == encoded

    # BLE hands the decoder bytearrays (bleak returns bytearray from reads)
    from_bytearray = cls.decode(bytearray(encoded))
    assert from_bytearray == obj
    assert from_bytearray.encode() == encoded

    note("roundtrip", cls.__name__, encoded, repr(decoded), repr(from_bytearray))


def part_a() -> None:
    types = all_struct_types()
    assert len(types) >= 26, types
    rnd = random.Random(0xC16)
    for cls in types:
        assert dataclasses.is_dataclass(cls)

        # nothing set at all
        empty = cls()
        assert empty.encode() == b""
        assert cls.decode(b"") == empty
        note("empty", cls.__name__)

        # every single field alone, at every boundary size
        for f in settable_fields(cls):
            for size in SIZES:
                for _ in range(2):
                    check_roundtrip(cls(**{f.name: gen_value(f.type, rnd, size)}))

        # combinations with unset fields
        for size in SIZES:
            for p_unset in (0.0, 0.3, 0.7):
                for _ in range(4):
                    check_roundtrip(gen_struct(cls, rnd, size, p_unset))

    # zero length values are not encoded at all (so they come back as unset); same in both versions
    from aiohomekit.controller.ble.structs import BleRequest
    from aiohomekit.model.characteristics.structs import SupportedVideoStreamConfiguration

    assert BleRequest(expect_response=1, value=b"").encode() == b"\x09\x01\x01"
    assert SupportedVideoStreamConfiguration(config=[]).encode() == b""

    # a field whose type has no serializer (float) does not stop the rest of the struct from working
    from aiohomekit.model.characteristics.structs import AudioRTPParameters, VideoRTPParameters

    for cls in (AudioRTPParameters, VideoRTPParameters):
        obj = cls(payload_type=99, ssrc=0xDEADBEEF, max_bitrate=300)
        check_roundtrip(obj)
        note("float-set", outcome(dataclasses.replace(obj, min_rtcp_interval=0.5).encode)[1])
        note("float-recv", outcome(cls.decode, obj.encode() + b"\x04\x04\x00\x00\x00\x3f")[1])
        assert outcome(dataclasses.replace(obj, min_rtcp_interval=0.5).encode) == ("exc", "TlvSerializeException")
        assert outcome(cls.decode, obj.encode() + b"\x04\x04\x00\x00\x00\x3f") == ("exc", "TlvParseException")

    # Meshcop: TLV types 128 and 129 are declared twice, the later declaration receives the value
    from aiohomekit.meshcop import Meshcop

    both = Meshcop(discoveryrequest=b"\x01", discovery_request=b"\x02", wakeup_channel=b"\x09")
    assert both.encode() == b"\x80\x01\x01\x4a\x01\x09\x80\x01\x02"
    assert Meshcop.decode(both.encode()) == Meshcop(discovery_request=b"\x02", wakeup_channel=b"\x09")
    assert Meshcop.decode(b"\x81\x01\x07") == Meshcop(discovery_response=b"\x07")

    # unknown TLV types are refused with TlvParseException, truncated headers with IndexError
    assert outcome(BleRequest.decode, b"\x7f\x01\x00") == ("exc", "TlvParseException")
    assert outcome(BleRequest.decode, b"\x09\x01\x01\x01") == ("exc", "IndexError")
    # the look-ahead after a full fragment needs the length byte of the continuation
    assert outcome(BleRequest.decode, b"\x01\xff" + b"a" * 255 + b"\x01") == ("exc", "IndexError")
    # https://github.com/home-assistant/core/issues/100160: a full fragment at the very end is accepted
    assert BleRequest.decode(b"\x01\xff" + b"a" * 255) == BleRequest(value=b"a" * 255)
    # ... and so is a value that stops short of its declared length
    assert BleRequest.decode(b"\x01\xff" + b"a" * 100) == BleRequest(value=b"a" * 100)
    assert BleRequest.decode(b"\x01\xff" + b"a" * 255 + b"\x01\x05abc") == BleRequest(value=b"a" * 255 + b"abc")
    # a repeated (non adjacent) TLV type overwrites the earlier value
    assert BleRequest.decode(b"\x01\x01a\x09\x01\x00\x01\x01b") == BleRequest(expect_response=0, value=b"b")
    # a full fragment followed by a different type is complete
    assert BleRequest.decode(b"\x01\xff" + b"a" * 255 + b"\x09\x01\x01") == BleRequest(expect_response=1, value=b"a" * 255)

    # the helpers that characteristic.py uses for lists of structs
    from aiohomekit.model.characteristics.structs import VideoAttrs

    attrs = [VideoAttrs(width=1920, height=1080, fps=30), VideoAttrs(width=1, height=2), VideoAttrs(fps=255)]
    blob = b"\x00\x00".join(a.encode() for a in attrs)
    assert [VideoAttrs.decode(item) for item in tlv8.tlv_array(blob)] == attrs
    assert [VideoAttrs.decode(item) for item in tlv8.tlv_array(bytearray(blob))] == attrs
    assert list(tlv8.tlv_array(b"")) == []
    for data in (blob, b"\x00\x00", b"\x00\x00\x00\x00", blob + b"\x00\x00", b"\x00\x00" + blob):
        note("tlv_array", [bytes(i) for i in tlv8.tlv_array(data)], [(o, t, n, bytes(v)) for o, t, n, v in tlv8.tlv_iterator(data)])


def part_a_garbage() -> None:
    """Arbitrary (mostly non-conformant) input: whatever happens is recorded, value and type, not judged.

    The digest printed at the end therefore also covers exceptions, truncated fragments, repeated
    types, separators in odd places and the bytes/bytearray type of what comes back.
    """
    rnd = random.Random(0xBAD)
    for cls in all_struct_types():
        known = [int(f.metadata["tlv_type"]) for f in init_fields(cls)]
        for _ in range(250):
            data = bytearray()
            for _ in range(rnd.randrange(0, 6)):
                tlv_type = rnd.choice(known + known + [0, 0xEE])
                length = rnd.choice([0, 1, 2, 2, 4, 16, 254, 255, 255])
                body = rnd.choice([rnd.randbytes(length), bytes([rnd.choice(known + [0, 255])]) * length, b"\x00" * length])
                data += bytes([tlv_type, length]) + body
            if rnd.random() < 0.35:
                data = data[: rnd.randrange(len(data) + 1)]
            for conv in (bytes, bytearray):
                blob = conv(data)
                note("garbage", cls.__name__, bytes(data), conv.__name__, outcome(lambda: repr(cls.decode(blob))))


# --------------------------------------------------------------------------------------
# part B - "accessory side" encoders, written from the HAP specification rather than from the
# dataclasses: (type, value) pairs, nested lists
# --------------------------------------------------------------------------------------


def acc_tlv(tlv_type: int, value: bytes) -> bytes:
    """Encode one TLV the way an accessory does, fragments of 255 bytes; an empty value is a TLV of length 0."""
    if not value:
        return bytes([tlv_type, 0])
    out = bytearray()
    for pos in range(0, len(value), 255):
        part = value[pos : pos + 255]
        out += bytes([tlv_type, len(part)]) + part
    return bytes(out)


def acc_list(items: list[bytes]) -> bytes:
    return b"\x00\x00".join(items)


def pack_ids(ids: list[int]) -> bytes:
    return b"".join(struct.pack("<H", i) for i in ids)


def presentation_format(fmt: int, unit: int) -> bytes:
    return struct.pack("<BbHBH", fmt, 0, unit, 1, 0)


def id_lists() -> list[list[int]]:
    """0..6 entries, every byte value in either half of an id."""
    lists: list[list[int]] = [[]]
    rnd = random.Random(16)
    for b in range(256):
        lists.append([b | (b << 8)])
        lists.append([b, b << 8][: 1 + b % 2] + [0xFFFF - b])
        n = b % 7
        lists.append([(b + 31 * k) % 256 | (((b * 3 + k) % 256) << 8) for k in range(n)])
        lists.append([rnd.randrange(65536) for _ in range(rnd.randrange(7))])
    return lists


def part_b() -> None:
    from aiohomekit.controller.ble.structs import Characteristic as BleCharacteristic
    from aiohomekit.controller.ble.structs import Service as BleService
    from aiohomekit.controller.coap.structs import Pdu09Database

    # --- BLE service signature: packed list of 16 bit ids ---------------------------------
    for ids in id_lists() + [list(range(1, 129)), list(range(300, 300 + 255)), [0xFFFF] * 128]:
        for props in (0, 1, 2, 0xFFFF):
            blob = acc_tlv(0x0F, struct.pack("<H", props)) + acc_tlv(0x10, pack_ids(ids))
            for data in (blob, bytearray(blob)):
                svc = BleService.decode(data)
                assert svc.service_properties == props
                assert svc.linked_service_ids == ids, (ids, svc)
                assert all(type(i) is int for i in svc.linked_service_ids)
                assert bytes(svc.linked_services) == pack_ids(ids)
                d = svc.to_dict()
                assert d.get("linked", []) == ids
                assert ("linked" in d) == bool(ids)
                assert d["perms"] == (["hd"] if props & 2 else [])
            note("ble-service", blob, repr(svc), d)
    # linked services before the properties, or alone, or absent
    assert BleService.decode(acc_tlv(0x10, pack_ids([7, 8])) + acc_tlv(0x0F, b"\x01\x00")).linked_service_ids == [7, 8]
    assert BleService.decode(acc_tlv(0x10, pack_ids([0x1000, 0x0010]))).linked_service_ids == [0x1000, 0x0010]
    assert BleService.decode(acc_tlv(0x0F, b"\x00\x00")).linked_service_ids == []
    assert BleService.decode(b"").linked_service_ids == []
    # not conformant: a trailing odd byte is ignored (both versions)
    assert BleService.decode(acc_tlv(0x10, b"\x05\x00\x06")).linked_service_ids == [5]
    assert BleService.decode(acc_tlv(0x10, b"\x05")).linked_service_ids == []

    # --- BLE characteristic signature ----------------------------------------------------------
    rnd = random.Random(0xB1E)
    for size in (0,) + SIZES:
        for fmt, lo_hi, step in (
            (0x04, struct.pack("<BB", 0, 100), struct.pack("<B", 1)),
            (0x06, struct.pack("<HH", 1, 65535), struct.pack("<H", 10)),
            (0x08, struct.pack("<LL", 0, 2**32 - 1), struct.pack("<L", 5)),
            (0x0A, struct.pack("<QQ", 0, 2**64 - 1), None),
            (0x10, struct.pack("<ll", -100, 100), struct.pack("<l", 2)),
            (0x14, struct.pack("<ff", 0.0, 360.0), struct.pack("<f", 0.5)),
            (0x19, None, None),
            (0x1B, None, None),
            (0x01, None, None),
        ):
            ctype = rnd.getrandbits(128)
            props = rnd.choice([0x0001, 0x0010, 0x0030, 0x03FF, 0x00B0, rnd.randrange(0x400)])
            desc = rnd.randbytes(size)
            svc_type = rnd.randbytes(16)
            fields = [
                (0x04, ctype.to_bytes(16, "little")),
                (0x07, struct.pack("<H", 0x0100)),
                (0x06, svc_type),
                (0x0A, struct.pack("<H", props)),
            ]
            if size:
                fields.append((0x0B, desc))
            fields.append((0x0C, presentation_format(fmt, 0x27AD)))
            if lo_hi:
                fields.append((0x0D, lo_hi))
            if step:
                fields.append((0x0E, step))
            if size:
                fields.append((0x11, bytes(range(size % 256)) or b"\x01"))
                fields.append((0x12, b"\x00\x03" * (size // 2 + 1)))
            blob = b"".join(acc_tlv(t, v) for t, v in fields)
            for data in (blob, bytearray(blob)):
                ch = BleCharacteristic.decode(data)
                assert ch.type == ctype
                assert ch.properties == props
                assert ch.service_instance_id == struct.pack("<H", 0x0100)
                assert ch.service_type == svc_type
                assert ch.presentation_format == presentation_format(fmt, 0x27AD)
                assert ch.valid_range == lo_hi
                assert ch.step_value == step
                assert ch.user_description == (desc if size else None)
                if size:
                    assert ch.valid_values == (bytes(range(size % 256)) or b"\x01")
                    assert ch.valid_values_range == b"\x00\x03" * (size // 2 + 1)
                d = ch.to_dict()
                assert d["type"] == f"{ctype:X}"
                assert d["unit"] == "percentage"
                if lo_hi:
                    assert (d["minValue"], d["maxValue"]) == struct.unpack("<" + {0x04: "BB", 0x06: "HH", 0x08: "LL", 0x0A: "QQ", 0x10: "ll", 0x14: "ff"}[fmt], lo_hi)
                if step:
                    assert "minStep" in d
            note("ble-char", blob, repr(ch), d)

    # --- CoAP accessory database -------------------------------------------------------------------
    for n_acc in (1, 2, 3):
        for n_svc in (1, 2, 3):
            for n_chr in (1, 2, 3):
                for size in SIZES:
                    model = make_coap_model(random.Random(n_acc * 1000 + n_svc * 100 + n_chr * 10 + size), n_acc, n_svc, n_chr, size)
                    blob = coap_database_bytes(model)
                    for data in (blob, bytearray(blob)):
                        db = Pdu09Database.decode(data)
                        check_coap_database(db, model)
                    note("coap-db", blob, repr(db), db.to_dict())

    # The CoAP struct declares the linked services as Sequence[u16]; what it makes of a packed list of
    # several ids is recorded (so that a difference between the versions would show in the digest) but
    # not judged here: only the empty list and a single id with a non-zero low byte are asserted above.
    from aiohomekit.controller.coap.structs import Pdu09Service

    for ids in id_lists()[:200]:
        blob = acc_tlv(0x06, (0x43).to_bytes(16, "little")) + acc_tlv(0x07, b"\x10\x00") + acc_tlv(0x10, pack_ids(ids))
        note("coap-linked", ids, outcome(lambda: repr(Pdu09Service.decode(blob))))


def make_coap_model(rnd: random.Random, n_acc: int, n_svc: int, n_chr: int, size: int) -> list[dict]:
    accessories = []
    for a in range(n_acc):
        services = []
        iid = 1
        for s in range(n_svc):
            svc_iid = iid
            iid += 1
            chars = []
            for c in range(n_chr):
                fmt, lo_hi = rnd.choice([(0x04, struct.pack("<BB", 0, 100)), (0x14, struct.pack("<ff", 0.0, 100.0)), (0x19, None), (0x01, None), (0x1B, None)])
                chars.append(
                    {
                        "type": rnd.choice([0x25, 0x23, 0xA5, rnd.getrandbits(128)]),
                        "iid": iid,
                        # never "secure read" here: get_accessory_info would go and read the value (part D does that)
                        "props": rnd.choice([0x0020, 0x0180, 0x0300, 0x0001]),
                        "fmt": fmt,
                        "range": lo_hi,
                        # the description makes the nested lists cross the 255 byte fragment boundary
                        "desc": rnd.randbytes(size if (c + s + a) % 2 == 0 else rnd.randrange(1, 40)),
                    }
                )
                iid += 1
            linked = rnd.choice([None, [], [rnd.randrange(1, 256) | (rnd.randrange(256) << 8)]])
            services.append({"type": rnd.choice([0x3E, 0x43, 0xA2, rnd.getrandbits(128)]), "iid": svc_iid, "props": rnd.choice([None, 0, 1, 3]), "linked": linked, "chars": chars})
        accessories.append({"aid": a + 1, "services": services})
    return accessories


def coap_char_bytes(ch: dict) -> bytes:
    out = acc_tlv(0x05, struct.pack("<H", ch["iid"])) + acc_tlv(0x04, ch["type"].to_bytes(16, "little").rstrip(b"\x00") or b"\x00")
    out += acc_tlv(0x0A, struct.pack("<H", ch["props"]))
    out += acc_tlv(0x0B, ch["desc"])
    out += acc_tlv(0x0C, presentation_format(ch["fmt"], 0x2700))
    if ch["range"]:
        out += acc_tlv(0x0D, ch["range"])
    return out


def coap_database_bytes(model: list[dict]) -> bytes:
    acc_items = []
    for acc in model:
        svc_items = []
        for svc in acc["services"]:
            body = acc_tlv(0x07, struct.pack("<H", svc["iid"])) + acc_tlv(0x06, svc["type"].to_bytes(16, "little").rstrip(b"\x00") or b"\x00")
            if svc["props"] is not None:
                body += acc_tlv(0x0F, struct.pack("<H", svc["props"]))
            if svc["linked"] is not None:
                body += acc_tlv(0x10, pack_ids(svc["linked"]))
            body += acc_tlv(0x14, acc_list([acc_tlv(0x13, coap_char_bytes(ch)) for ch in svc["chars"]]))
            svc_items.append(acc_tlv(0x15, body))
        acc_body = acc_tlv(0x1A, struct.pack("<H", acc["aid"])) + acc_tlv(0x16, acc_list(svc_items))
        acc_items.append(acc_tlv(0x19, acc_body))
    return acc_tlv(0x18, acc_list(acc_items))


def check_coap_database(db, model: list[dict]) -> None:
    assert len(db.accessories) == len(model)
    for acc, m_acc in zip(db.accessories, model):
        assert acc.instance_id == m_acc["aid"]
        assert len(acc.services) == len(m_acc["services"])
        for svc, m_svc in zip(acc.services, m_acc["services"]):
            assert svc.instance_id == m_svc["iid"]
            assert svc.type == m_svc["type"]
            assert svc.properties == m_svc["props"]
            assert svc.linked_services == m_svc["linked"], (svc.linked_services, m_svc["linked"])
            assert len(svc.characteristics) == len(m_svc["chars"])
            for ch, m_ch in zip(svc.characteristics, m_svc["chars"]):
                assert ch.instance_id == m_ch["iid"]
                assert ch.type == m_ch["type"]
                assert ch.properties == m_ch["props"]
                assert ch.user_descriptor == m_ch["desc"]
                assert ch.presentation_format == presentation_format(m_ch["fmt"], 0x2700)
                assert ch.valid_range == m_ch["range"]
                assert ch.step_value is None and ch.valid_values is None
                assert db.find_characteristic_by_aid_iid(m_acc["aid"], m_ch["iid"]) is ch
    dumped = db.to_dict()
    assert [a["aid"] for a in dumped] == [m["aid"] for m in model]
    for a, m in zip(dumped, model):
        assert [s["iid"] for s in a["services"]] == [s["iid"] for s in m["services"]]
        for s, ms in zip(a["services"], m["services"]):
            assert s.get("linked", []) == (ms["linked"] or [])
            assert [c["iid"] for c in s["characteristics"]] == [c["iid"] for c in ms["chars"]]


# --------------------------------------------------------------------------------------
# part C - BLE end to end on a fake bleak backend
# --------------------------------------------------------------------------------------


def build_ble_parts():
    from bleak.backends.characteristic import BleakGATTCharacteristic
    from bleak.backends.client import BaseBleakClient
    from bleak.backends.descriptor import BleakGATTDescriptor
    from bleak.backends.service import BleakGATTService, BleakGATTServiceCollection

    from aiohomekit.controller.ble.bleak import CHAR_DESCRIPTOR_ID
    from aiohomekit.controller.ble.pairing import SERVICE_INSTANCE_ID

    class FakeBackend(BaseBleakClient):
        """A bleak backend that talks HAP-BLE for an accessory described by ``spec`` (set after construction)."""

        read_fragment = 61  # bytes of PDU body per GATT read, so that signatures need many reads

        def __init__(self, address_or_ble_device, **kwargs):
            super().__init__(address_or_ble_device, **kwargs)
            self._connected = True
            self.pending: dict[int, list[bytearray]] = {}
            self.by_handle: dict[int, tuple[str, dict]] = {}
            self.descriptor_values: dict[int, bytes] = {}
            self.log: list[tuple] = []

        # -- the GATT table -----------------------------------------------------------------
        def load(self, spec: list[dict]) -> None:
            coll = BleakGATTServiceCollection()
            handle = 0

            def next_handle() -> int:
                nonlocal handle
                handle += 1
                return handle

            for svc in spec:
                service = BleakGATTService(None, next_handle(), svc["uuid"].lower())
                coll.add_service(service)
                if svc.get("iid") is not None:
                    char = BleakGATTCharacteristic(None, next_handle(), SERVICE_INSTANCE_ID.lower(), ["read"], lambda: 20, service)
                    coll.add_characteristic(char)
                    self.by_handle[char.handle] = ("service-iid", svc)
                for ch in svc["chars"]:
                    char = BleakGATTCharacteristic(None, next_handle(), ch["uuid"].lower(), ["read", "write"], lambda: 20, service)
                    coll.add_characteristic(char)
                    self.by_handle[char.handle] = ("char", {"svc": svc, "ch": ch})
                    if ch.get("iid") is not None:
                        desc = BleakGATTDescriptor(None, next_handle(), CHAR_DESCRIPTOR_ID.lower(), char)
                        coll.add_descriptor(desc)
                        self.descriptor_values[desc.handle] = struct.pack("<H", ch["iid"])
            self.services = coll

        # -- what the accessory answers ---------------------------------------------------------
        def signature(self, opcode: int, iid: int, entry: dict) -> tuple[int, bytes]:
            svc, ch = entry["svc"], entry["ch"]
            if opcode == 0x06:  # service signature read, addressed to the service iid
                assert ch.get("service_signature") and iid == svc["iid"]
                body = b""
                if svc.get("props") is not None:
                    body += acc_tlv(0x0F, struct.pack("<H", svc["props"]))
                if svc.get("linked") is not None:
                    body += acc_tlv(0x10, pack_ids(svc["linked"]))
                return 0, body
            assert opcode == 0x01 and iid == ch["iid"]
            if ch.get("status"):
                return ch["status"], b""
            body = acc_tlv(0x04, bytes.fromhex(ch["uuid"].replace("-", ""))[::-1])
            body += acc_tlv(0x07, struct.pack("<H", svc["iid"]))
            body += acc_tlv(0x06, bytes.fromhex(svc["uuid"].replace("-", ""))[::-1])
            body += acc_tlv(0x0A, struct.pack("<H", ch["props"]))
            if ch.get("desc"):
                body += acc_tlv(0x0B, ch["desc"])
            if ch.get("fmt") is not None:
                body += acc_tlv(0x0C, presentation_format(ch["fmt"], ch.get("unit", 0x2700)))
            if ch.get("range"):
                body += acc_tlv(0x0D, ch["range"])
            if ch.get("step"):
                body += acc_tlv(0x0E, ch["step"])
            return 0, body

        # -- BaseBleakClient ----------------------------------------------------------------------
        @property
        def mtu_size(self) -> int:
            return 104

        @property
        def is_connected(self) -> bool:
            return self._connected

        async def connect(self, pair: bool, **kwargs) -> None:
            self._connected = True

        async def disconnect(self) -> None:
            self._connected = False

        async def pair(self, *args, **kwargs) -> None:
            raise NotImplementedError

        async def unpair(self) -> None:
            raise NotImplementedError

        async def read_gatt_char(self, characteristic, *, use_cached: bool = False, **kwargs) -> bytearray:
            await asyncio.sleep(0)  # let the other pairing run: every GATT operation is a scheduling point
            kind, entry = self.by_handle[characteristic.handle]
            if kind == "service-iid":
                self.log.append(("read-service-iid", entry["iid"]))
                return bytearray(struct.pack("<H", entry["iid"]))
            self.log.append(("read", characteristic.handle))
            return self.pending[characteristic.handle].pop(0)

        async def read_gatt_descriptor(self, descriptor, *, use_cached: bool = False, **kwargs) -> bytearray:
            await asyncio.sleep(0)
            self.log.append(("read-descriptor", descriptor.handle))
            return bytearray(self.descriptor_values[descriptor.handle])

        async def write_gatt_char(self, characteristic, data, response: bool) -> None:
            await asyncio.sleep(0)
            control, opcode, tid, iid = struct.unpack("<BBBH", bytes(data[:5]))
            assert control == 0 and len(data) == 5
            self.log.append(("write", characteristic.handle, opcode, iid))
            status, body = self.signature(opcode, iid, self.by_handle[characteristic.handle][1])
            first, rest = body[: self.read_fragment], body[self.read_fragment :]
            replies = [bytearray(struct.pack("<BBBH", 0x02, tid, status, len(body)) + first)]
            for pos in range(0, len(rest), self.read_fragment):
                replies.append(bytearray(struct.pack("<BB", 0x82, tid) + rest[pos : pos + self.read_fragment]))
            self.pending[characteristic.handle] = replies

        async def write_gatt_descriptor(self, descriptor, data) -> None:
            raise NotImplementedError

        async def start_notify(self, characteristic, callback, **kwargs) -> None:
            raise NotImplementedError

        async def stop_notify(self, characteristic) -> None:
            raise NotImplementedError

    return FakeBackend


def full(short: str) -> str:
    return f"{int(short, 16):08X}-0000-1000-8000-0026BB765291"


def make_ble_spec(rnd: random.Random, sizes: tuple[int, ...]) -> list[dict]:
    # service iids whose bytes look like TLV headers: 0x10 (the linked services type), 0x00, 0xFF, 0x0F
    svc_iids = [0x0010, 0x1000, 0x00FF, 0xFF0F, 0x0F10, 0x0001, 0xFFFF]
    links = {
        0x0010: [0x1000],
        0x1000: [0x0010, 0x00FF, 0xFF0F, 0x0F10, 0x0001, 0xFFFF],  # six entries
        0x00FF: [],
        0xFF0F: None,  # no linked services TLV at all
        0x0F10: [0xFFFF, 0x0001, 0x1000],
        0x0001: [0x0010, 0x1000],
        0xFFFF: [0x00FF, 0xFF0F, 0x0F10, 0x0001, 0x0010],
    }
    svc_types = ["3E", "43", "4A", "8A", "B7", "96", "110"]
    spec = []
    iid = 0x2000
    for index, svc_iid in enumerate(svc_iids):
        chars = [{"uuid": full("A5"), "iid": iid, "props": 0x0010, "fmt": 0x1B, "service_signature": True}]
        iid += 1
        for c in range(3):
            fmt, lo_hi, step = rnd.choice(
                [
                    (0x04, struct.pack("<BB", 0, 100), struct.pack("<B", 1)),
                    (0x10, struct.pack("<ll", -50, 1000), struct.pack("<l", 5)),
                    (0x14, struct.pack("<ff", 10.0, 38.0), struct.pack("<f", 0.5)),
                    (0x19, None, None),
                    (0x01, None, None),
                ]
            )
            chars.append(
                {
                    "uuid": full(f"{0x20 + index * 4 + c:X}"),
                    "iid": iid,
                    "props": rnd.choice([0x0010, 0x0030, 0x00B0, 0x03B0, 0x0130, 0x007F]),
                    "fmt": fmt,
                    "unit": rnd.choice([0x2700, 0x272F, 0x27AD]),
                    "range": lo_hi,
                    "step": step,
                    "desc": rnd.randbytes(sizes[(index + c) % len(sizes)]),
                }
            )
            iid += 1
        spec.append({"uuid": full(svc_types[index]), "iid": svc_iid, "props": rnd.choice([None, 0, 1, 2, 3]), "linked": links[svc_iid], "chars": chars})
    # the identify characteristic is forced to bool; one signature read is refused by the accessory
    spec[0]["chars"].append({"uuid": full("14"), "iid": iid, "props": 0x0020, "fmt": 0x1B})
    spec[1]["chars"].append({"uuid": full("7C"), "iid": iid + 1, "props": 0x0010, "fmt": 0x04, "status": 6})
    # a characteristic without an instance id descriptor and a service without instance id are skipped
    spec[2]["chars"].append({"uuid": full("7D"), "iid": None, "props": 0x0010})
    spec.append({"uuid": "0000180a-0000-1000-8000-00805f9b34fb", "iid": None, "chars": [{"uuid": "00002a29-0000-1000-8000-00805f9b34fb", "iid": None, "props": 0}]})
    return spec


PERM_BITS = [(0x0010, "pr"), (0x0020, "pw"), (0x0080, "ev"), (0x0004, "aa"), (0x0008, "tw"), (0x0040, "hd")]
FORMATS = {0x01: "bool", 0x04: "uint8", 0x06: "uint16", 0x08: "uint32", 0x0A: "uint64", 0x10: "int", 0x14: "float", 0x19: "string", 0x1B: "data"}
RANGE_FMT = {0x04: "<BB", 0x10: "<ll", 0x14: "<ff"}


def expected_ble_entity_map(spec: list[dict]) -> list[dict]:
    services = []
    for svc in spec:
        if svc["iid"] is None:
            continue
        chars = []
        for ch in svc["chars"]:
            if ch["iid"] is None:
                continue
            e = {"type": ch["uuid"], "iid": ch["iid"]}
            if ch.get("status"):
                e["perms"] = []
            else:
                e["perms"] = [name for bit, name in PERM_BITS if ch["props"] & bit]
                e["format"] = FORMATS[ch["fmt"]]
                if ch.get("range"):
                    e["minValue"], e["maxValue"] = struct.unpack(RANGE_FMT[ch["fmt"]], ch["range"])
                if ch.get("step"):
                    e["minStep"] = struct.unpack(RANGE_FMT[ch["fmt"]][:2], ch["step"])[0]
                if ch["props"] & 0x0100:
                    e["disconnected_events"] = True
                if ch["props"] & 0x0200:
                    e["broadcast_events"] = True
            if ch["uuid"] == full("14"):
                e["format"] = "bool"
            chars.append(e)
        services.append({"type": svc["uuid"], "iid": svc["iid"], "linked": list(svc["linked"] or []), "characteristics": chars})
    return services


def observed_ble_entity_map(accessories) -> list[dict]:
    (accessory,) = list(accessories)
    assert accessory.aid == 1
    services = []
    for service in accessory.services:
        chars = []
        for char in service.characteristics:
            e = {"type": char.type, "iid": char.iid, "perms": list(char.perms)}
            # the model has defaults for what a signature does not carry; compare what the signature set
            e["format"] = char.format
            for key, attr in (("minValue", "minValue"), ("maxValue", "maxValue"), ("minStep", "minStep")):
                if getattr(char, attr) is not None:
                    e[key] = getattr(char, attr)
            if char.disconnected_events:
                e["disconnected_events"] = True
            if char.broadcast_events:
                e["broadcast_events"] = True
            chars.append(e)
        services.append({"type": service.type, "iid": service.iid, "linked": [s.iid for s in service.linked], "characteristics": chars})
    return services


async def part_c() -> None:
    from bleak.backends.device import BLEDevice

    from aiohomekit.characteristic_cache import CharacteristicCacheMemory
    from aiohomekit.controller.ble.bleak import AIOHomeKitBleakClient
    from aiohomekit.controller.ble.controller import BleController
    from aiohomekit.controller.ble.pairing import BlePairing

    FakeBackend = build_ble_parts()
    controller = BleController(CharacteristicCacheMemory())

    async def fetch(index: int, sizes: tuple[int, ...]):
        address = f"AA:BB:CC:DD:EE:{index:02X}"
        spec = make_ble_spec(random.Random(index), sizes)
        device = BLEDevice(address, f"acc{index}", None)
        client = AIOHomeKitBleakClient(device, backend=FakeBackend)
        client._backend.load(spec)
        pairing = BlePairing(
            controller,
            {"AccessoryPairingID": address.lower(), "AccessoryAddress": address, "Connection": "BLE"},
            device=device,
            client=client,
        )
        accessories = await pairing._async_fetch_gatt_database()
        return spec, client._backend, accessories

    # two pairings at a time, interleaved at every GATT operation, three rounds so that the first
    # decode of each struct type (cold per class caches) and later ones (warm) are both covered
    for round_no, sizes in enumerate(((1, 254, 255), (256, 510, 511), (255, 511, 3))):
        results = await asyncio.gather(fetch(2 * round_no, sizes), fetch(2 * round_no + 1, sizes[::-1]))
        for spec, backend, accessories in results:
            expected = expected_ble_entity_map(spec)
            observed = observed_ble_entity_map(accessories)
            for want, got in zip(expected, observed):
                # The model has defaults for well known characteristic types (format, min/max/step);
                # what the signature does not carry is therefore not compared.
                for w, g in zip(want["characteristics"], got["characteristics"]):
                    for key in ("format", "minValue", "maxValue", "minStep"):
                        if key not in w:
                            g.pop(key, None)
                assert want == got, (want, got)
            assert len(expected) == len(observed) == 7
            reads = sum(1 for entry in backend.log if entry[0] == "read")
            writes = sum(1 for entry in backend.log if entry[0] == "write")
            assert reads > 2 * writes, "signatures were meant to span several PDU fragments"
            note("ble-e2e", observed, accessories.serialize(), backend.log)


# --------------------------------------------------------------------------------------
# part D - CoAP end to end over loopback
# --------------------------------------------------------------------------------------


async def part_d() -> None:
    from aiocoap import Code, Context, Message, resource
    from cryptography.hazmat.primitives.ciphers.aead import ChaCha20Poly1305

    from aiohomekit.controller.coap.connection import CoAPHomeKitConnection, EncryptionContext

    # keys named from the controller's point of view
    send_key, recv_key, event_key = (bytes([k]) * 32 for k in (1, 2, 3))

    class HapResource(resource.Resource):
        """The accessory: decrypts the request, answers HAP PDUs (opcode 9 = database, 3 = characteristic read)."""

        def __init__(self):
            super().__init__()
            self.model: list[dict] = []
            self.rx = ChaCha20Poly1305(send_key)
            self.tx = ChaCha20Poly1305(recv_key)
            self.rx_ctr = 0
            self.tx_ctr = 0
            self.requests: list[tuple[int, int]] = []

        def value_of(self, iid: int) -> bytes:
            return acc_tlv(0x01, b"v" + struct.pack("<H", iid))

        async def render_post(self, request):
            plain = self.rx.decrypt(struct.pack("=4xQ", self.rx_ctr), request.payload, b"")
            self.rx_ctr += 1
            out = b""
            pos = 0
            while pos < len(plain):
                control, opcode, tid, iid, length = struct.unpack("<BBBHH", plain[pos : pos + 7])
                pos += 7 + length
                self.requests.append((opcode, iid))
                if opcode == 0x09:
                    body = coap_database_bytes(self.model)
                elif opcode == 0x03:
                    body = self.value_of(iid)
                else:
                    raise AssertionError(opcode)
                out += struct.pack("<BBBH", 0x02, tid, 0, len(body)) + body
            payload = self.tx.encrypt(struct.pack("=4xQ", self.tx_ctr), out, b"")
            self.tx_ctr += 1
            return Message(code=Code.CHANGED, payload=payload)

    hap = HapResource()
    site = resource.Site()
    site.add_resource([], hap)
    server = await Context.create_server_context(site, bind=("::1", 0))
    # find the port aiocoap bound (different transports keep it in different places)
    port = find_bound_port(server)

    client_ctx = await Context.create_server_context(resource.Site(), bind=("::", 0))  # as do_pair_verify does
    try:
        for n_acc, n_svc, n_chr, size in ((1, 1, 1, 1), (1, 2, 3, 254), (2, 2, 2, 255), (2, 3, 2, 256), (3, 2, 3, 510), (3, 3, 3, 511)):
            model = make_coap_model(random.Random(size * 7 + n_acc), n_acc, n_svc, n_chr, size)
            # make one characteristic per service securely readable so that values get read as well
            for acc in model:
                for svc in acc["services"]:
                    svc["chars"][0]["props"] |= 0x0010
                    svc["chars"][0]["fmt"] = 0x1B
            hap.model = model
            hap.requests.clear()

            conn = CoAPHomeKitConnection(None, "::1", port)
            conn.enc_ctx = EncryptionContext(ChaCha20Poly1305(recv_key), ChaCha20Poly1305(send_key), ChaCha20Poly1305(event_key), f"coap://[::1]:{port}/", client_ctx)
            conn.enc_ctx.send_ctr = hap.rx_ctr
            conn.enc_ctx.recv_ctr = hap.tx_ctr

            info = await asyncio.wait_for(conn.get_accessory_info(), 60)

            check_coap_database(conn.info, model)
            assert hap.requests[0] == (0x09, 0)
            assert [a["aid"] for a in info] == [m["aid"] for m in model]
            for a, m in zip(info, model):
                for s, ms in zip(a["services"], m["services"]):
                    first = s["characteristics"][0]
                    assert first["iid"] == ms["chars"][0]["iid"]
                    assert first["value"] == (b"v" + struct.pack("<H", first["iid"])).hex()
                    assert first["perms"][0] == "pr"
                    for c, mc in zip(s["characteristics"], ms["chars"]):
                        assert c["type"] == f"{mc['type']:X}"
            note("coap-e2e", info, hap.requests)
    finally:
        await client_ctx.shutdown()
        await server.shutdown()


def find_bound_port(ctx) -> int:
    """Dig the UDP port out of an aiocoap context bound to port 0."""
    seen = set()
    stack = [ctx]
    while stack:
        obj = stack.pop()
        if id(obj) in seen:
            continue
        seen.add(id(obj))
        for name in ("transport", "_transport"):
            transport = getattr(obj, name, None)
            if transport is not None and hasattr(transport, "get_extra_info"):
                sockname = transport.get_extra_info("sockname")
                if sockname:
                    return sockname[1]
                sock = transport.get_extra_info("socket")
                if sock is not None:
                    return sock.getsockname()[1]
        for name in ("request_interfaces", "token_interface", "message_interface", "_pool", "_endpoints"):
            child = getattr(obj, name, None)
            if child is None:
                continue
            if isinstance(child, (list, tuple, set)):
                stack.extend(child)
            elif isinstance(child, dict):
                stack.extend(child.values())
            else:
                stack.append(child)
    raise AssertionError("could not find the port the CoAP server was bound to")


# --------------------------------------------------------------------------------------


async def async_parts() -> None:
    await part_c()
    await part_d()


def main() -> int:
    assert aiohomekit.__file__.startswith("/tmp/wt/k16a/"), aiohomekit.__file__
    part_a()
    part_a_garbage()
    part_b()
    asyncio.run(async_parts())
    print("observations:", dict(sorted(_counts.items())))
    print("DIGEST", _digest.hexdigest())
    print("demo_k16a: PASS")
    return 0


def test_demo_k16a() -> None:
    assert main() == 0


if __name__ == "__main__":
    sys.exit(main())
