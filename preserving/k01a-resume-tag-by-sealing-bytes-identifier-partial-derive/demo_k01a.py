"""
demo_k01a.py - demonstration for change k01a (pair-verify / session-resume refactoring).

Property C01: pair-verify yields session keys only for the authentic paired
accessory; every forged / altered / truncated / re-bound / replayed reply makes
the attempt fail with an error and yields no keys; against a conformant
accessory the accessory accepts the controller's proof and both ends hold
identical read / write (and, on CoAP, event) keys.

The accessory in this file is written from the specification with the
`cryptography` primitives, hashlib/hmac HKDF and its own TLV codec - it does not
use any helper of the library under test, so "both ends agree" really compares
two implementations.

What is real: the asyncio event loop, loopback TCP sockets (IP transport, real
SecureHomeKitConnection), loopback UDP/IPv6 sockets with real aiocoap contexts
(CoAP transport, real CoAPHomeKitConnection.do_pair_verify), a real
BlePairing + AIOHomeKitBleakClient/BleakClient with a fake bleak *backend*
(BLE transport, real _async_pair_verify / drive_pairing_state_machine / PDU
code), real X25519/Ed25519/ChaCha20-Poly1305.

Run either way:
    PYTHONPATH=/tmp/wt/k01a /venv/bin/python demo_k01a.py
    PYTHONPATH=/tmp/wt/k01a /venv/bin/python -m pytest -q -p no:cacheprovider demo_k01a.py
"""

from __future__ import annotations

import asyncio
import hashlib
import hmac
import json
import os
import struct
import sys
from dataclasses import dataclass, field
from typing import Any, Callable

from cryptography.exceptions import InvalidSignature, InvalidTag
from cryptography.hazmat.primitives.asymmetric import ed25519, x25519
from cryptography.hazmat.primitives.ciphers.aead import ChaCha20Poly1305

# --------------------------------------------------------------------------
# independent primitives (nothing from aiohomekit in here)
# --------------------------------------------------------------------------

T_METHOD, T_ID, T_PK, T_ENC, T_STATE, T_ERROR, T_SIG, T_SID = 0, 1, 3, 5, 6, 7, 10, 14


class HarnessError(BaseException):
    """A bug of this demo (never counted as 'the controller rejected the reply')."""


def hkdf_sha512(ikm: bytes, salt: bytes, info: bytes, length: int = 32) -> bytes:
    """RFC 5869 with SHA-512, written out by hand."""
    prk = hmac.new(salt, ikm, hashlib.sha512).digest()
    okm, block, counter = b"", b"", 1
    while len(okm) < length:
        block = hmac.new(prk, block + info + bytes([counter]), hashlib.sha512).digest()
        okm += block
        counter += 1
    return okm[:length]


def aead_enc(key: bytes, nonce8: bytes, plaintext: bytes, aad: bytes = b"") -> bytes:
    return ChaCha20Poly1305(key).encrypt(b"\x00\x00\x00\x00" + nonce8, plaintext, aad)


def aead_dec(key: bytes, nonce8: bytes, data: bytes, aad: bytes = b"") -> bytes:
    return ChaCha20Poly1305(key).decrypt(b"\x00\x00\x00\x00" + nonce8, data, aad)


def tlv_enc(items) -> bytes:
    out = bytearray()
    for t, v in items:
        v = bytes(v)
        if not v:
            out += bytes([t, 0])
        for i in range(0, len(v), 255):
            chunk = v[i : i + 255]
            out += bytes([t, len(chunk)]) + chunk
    return bytes(out)


def tlv_dec(data: bytes) -> list[tuple[int, bytes]]:
    items: list[list] = []
    i = 0
    while i < len(data):
        t, n = data[i], data[i + 1]
        v = data[i + 2 : i + 2 + n]
        if len(v) != n:
            raise ValueError("short tlv")
        i += 2 + n
        if items and items[-1][0] == t:
            items[-1][1] += v
        else:
            items.append([t, bytes(v)])
    return [(t, bytes(v)) for t, v in items]


def ident(x):
    return x


@dataclass
class Fault:
    """What the (possibly adversarial) accessory does differently. Default: honest."""

    name: str = "honest"
    eph: x25519.X25519PrivateKey | None = None  # fixed accessory session key
    sign_key: ed25519.Ed25519PrivateKey | None = None  # wrong long-term key
    signed_id: bytes | None = None  # identifier inside the signed transcript
    sent_id: bytes | None = None  # identifier inside the sub-TLV
    signed_acc_pk: bytes | None = None
    signed_ios_pk: bytes | None = None
    perm: tuple[int, int, int] = (0, 1, 2)  # order of accPK, id, iosPK in the transcript
    fixed_sig: bytes | None = None  # signature recorded elsewhere
    sig: Callable[[bytes], bytes] = ident
    inner: Callable[[list], list] = ident
    enc: Callable[[bytes], bytes] = ident
    pk: Callable[[bytes], bytes] = ident
    outer: Callable[[list], list] = ident
    raw: Callable[[bytes], bytes] = ident
    m4: Callable[[list], list] = ident
    allow_resume: bool = True
    resume_secret: Callable[[bytes], bytes] = ident  # secret used for the resume reply tag
    resume_tag: Callable[[bytes], bytes] = ident
    resume_items: Callable[[list], list] = ident
    close_after_m1: bool = False  # TCP only
    dribble: int = 0  # TCP only: write the reply in pieces of this many bytes


HONEST = Fault()


class Accessory:
    """A specification-conformant HAP accessory (pair-verify + pair-resume only)."""

    def __init__(self) -> None:
        self.id = b"12:34:56:AB:CD:EF"
        self.ltsk = ed25519.Ed25519PrivateKey.generate()
        self.ctl_id = b"decc6fa3-de3e-41c9-adba-ef7409821bfc"
        self.ctl_ltsk = ed25519.Ed25519PrivateKey.generate()
        self.sessions: dict[bytes, bytes] = {}

    def pairing_data(self, **extra: Any) -> dict[str, Any]:
        data = {
            "AccessoryPairingID": self.id.decode(),
            "AccessoryLTPK": self.ltsk.public_key().public_bytes_raw().hex(),
            "iOSPairingId": self.ctl_id.decode(),
            "iOSDeviceLTSK": self.ctl_ltsk.private_bytes_raw().hex(),
            "iOSDeviceLTPK": self.ctl_ltsk.public_key().public_bytes_raw().hex(),
        }
        data.update(extra)
        return data


class Exchange:
    """One pair-verify procedure as seen by the accessory."""

    def __init__(self, acc: Accessory, fault: Fault = HONEST) -> None:
        self.acc, self.fault = acc, fault
        self.verified = False  # the controller proved itself to us
        self.resumed = False
        self.shared: bytes | None = None
        self.session_id: bytes | None = None
        self.m1: dict[int, bytes] = {}
        self.last_m2: bytes | None = None
        self.last_sig: bytes | None = None
        self.m3_seen = False

    def keys(self) -> dict[str, bytes]:
        assert self.shared is not None
        return {
            "write": hkdf_sha512(self.shared, b"Control-Salt", b"Control-Write-Encryption-Key"),
            "read": hkdf_sha512(self.shared, b"Control-Salt", b"Control-Read-Encryption-Key"),
            "event": hkdf_sha512(self.shared, b"Event-Salt", b"Event-Read-Encryption-Key"),
        }

    def handle(self, body: bytes) -> bytes:
        try:
            req = dict(tlv_dec(bytes(body)))
            if req.get(T_STATE) == b"\x01":
                return self._m1(req)
            if req.get(T_STATE) == b"\x03":
                return self._m3(req)
            raise ValueError(f"unexpected state {req.get(T_STATE)!r}")
        except Exception as exc:  # noqa: BLE001
            raise HarnessError(f"accessory side failed: {exc!r}") from exc

    def _m1(self, req: dict[int, bytes]) -> bytes:
        f, acc = self.fault, self.acc
        self.m1 = req
        self.ios_pk = ios_pk = req[T_PK]
        assert len(ios_pk) == 32

        if req.get(T_METHOD) == b"\x06" and f.allow_resume:
            sid, tag = req[T_SID], req[T_ENC]
            secret = acc.sessions.get(sid)
            if secret is not None:
                request_key = hkdf_sha512(secret, ios_pk + sid, b"Pair-Resume-Request-Info")
                try:
                    ok = aead_dec(request_key, b"PR-Msg01", tag) == b""
                except InvalidTag:
                    ok = False
                if ok:
                    del acc.sessions[sid]
                    new_sid = os.urandom(8)
                    response_key = hkdf_sha512(
                        f.resume_secret(secret), ios_pk + new_sid, b"Pair-Resume-Response-Info"
                    )
                    reply_tag = f.resume_tag(aead_enc(response_key, b"PR-Msg02", b""))
                    self.shared = hkdf_sha512(secret, ios_pk + new_sid, b"Pair-Resume-Shared-Secret-Info")
                    self.session_id = new_sid
                    self.verified = self.resumed = True
                    acc.sessions[new_sid] = self.shared
                    items = [(T_STATE, b"\x02"), (T_METHOD, b"\x06"), (T_SID, new_sid), (T_ENC, reply_tag)]
                    self.last_m2 = f.raw(tlv_enc(f.resume_items(items)))
                    return self.last_m2

        self.eph = eph = f.eph or x25519.X25519PrivateKey.generate()
        self.acc_pk = acc_pk = eph.public_key().public_bytes_raw()
        self.dh = eph.exchange(x25519.X25519PublicKey.from_public_bytes(ios_pk))
        self.session_key = hkdf_sha512(self.dh, b"Pair-Verify-Encrypt-Salt", b"Pair-Verify-Encrypt-Info")
        parts = [f.signed_acc_pk or acc_pk, acc.id if f.signed_id is None else f.signed_id, f.signed_ios_pk or ios_pk]
        sig = f.fixed_sig or (f.sign_key or acc.ltsk).sign(b"".join(parts[i] for i in f.perm))
        self.last_sig = sig
        inner = f.inner([(T_ID, f.sent_id if f.sent_id is not None else acc.id), (T_SIG, f.sig(sig))])
        enc = f.enc(aead_enc(self.session_key, b"PV-Msg02", tlv_enc(inner)))
        outer = f.outer([(T_STATE, b"\x02"), (T_PK, f.pk(acc_pk)), (T_ENC, enc)])
        self.last_m2 = f.raw(tlv_enc(outer))
        return self.last_m2

    def _m3(self, req: dict[int, bytes]) -> bytes:
        self.m3_seen = True
        acc = self.acc
        refuse = tlv_enc([(T_STATE, b"\x04"), (T_ERROR, b"\x02")])
        try:
            inner = dict(tlv_dec(aead_dec(self.session_key, b"PV-Msg03", req[T_ENC])))
        except InvalidTag:
            return refuse
        if inner.get(T_ID) != acc.ctl_id:
            return refuse
        try:
            acc.ctl_ltsk.public_key().verify(inner[T_SIG], self.ios_pk + inner[T_ID] + self.acc_pk)
        except InvalidSignature:
            return refuse
        self.verified = True
        self.shared = self.dh
        self.session_id = hkdf_sha512(
            self.dh, b"Pair-Verify-ResumeSessionID-Salt", b"Pair-Verify-ResumeSessionID-Info", 8
        )
        acc.sessions[self.session_id] = self.dh
        return tlv_enc(self.fault.m4([(T_STATE, b"\x04")]))


# --------------------------------------------------------------------------
# oracles
# --------------------------------------------------------------------------

# Exceptions that would mean "the code under test is broken", not "it refused".
NOT_A_REFUSAL = (TypeError, AttributeError, NameError, AssertionError, ImportError)

STATS = {"accepted": 0, "refused": 0}


def check_agreement(derive, ex: Exchange, what: str) -> None:
    """Both ends hold the same write/read/event keys and the accessory accepted our proof."""
    assert ex.verified, f"{what}: accessory did not accept the controller's proof"
    k = ex.keys()
    assert derive(b"Control-Salt", b"Control-Write-Encryption-Key") == k["write"], what
    assert derive(b"Control-Salt", b"Control-Read-Encryption-Key") == k["read"], what
    assert derive(b"Event-Salt", b"Event-Read-Encryption-Key") == k["event"], what
    assert len({k["write"], k["read"], k["event"]}) == 3
    STATS["accepted"] += 1


def drive(pairing_data, ex: Exchange, shape: str = "ip", session_id=None, derive=None):
    """Run the library's state machine against `ex`; returns (session_id, derive) or raises."""
    from aiohomekit.protocol import get_session_keys
    from aiohomekit.protocol.tlv import TLV

    if session_id is None:
        machine = get_session_keys(pairing_data)
    else:
        machine = get_session_keys(pairing_data, session_id, derive)
    try:
        request, expected = machine.send(None)
        while True:
            body = ex.handle(bytes(TLV.encode_list(request)))
            if shape == "ip":  # what HomeKitConnection.post_tlv / the CoAP code hand over
                decoded = TLV.decode_bytes(body, expected=expected)
            else:  # what the BLE _pairing_char_write hands over
                decoded = dict(TLV.decode_bytes(body))
            request, expected = machine.send(decoded)
    except StopIteration as result:
        return result.value


def must_refuse(pairing_data, acc: Accessory, fault: Fault, shape: str = "ip", session_id=None, derive=None):
    ex = Exchange(acc, fault)
    try:
        value = drive(pairing_data, ex, shape, session_id, derive)
    except NOT_A_REFUSAL as exc:
        raise AssertionError(f"{fault.name}: failed with a programming error {exc!r}") from exc
    except Exception as exc:  # noqa: BLE001 - any library error is a refusal
        assert not ex.m3_seen or fault.m4 is not ident, f"{fault.name}: controller proof sent before refusing"
        STATS["refused"] += 1
        return exc
    raise AssertionError(f"{fault.name}: forged reply was ACCEPTED, keys yielded: {value!r}")


def must_agree(pairing_data, acc: Accessory, fault: Fault = HONEST, shape: str = "ip", session_id=None, derive=None):
    ex = Exchange(acc, fault)
    sid, new_derive = drive(pairing_data, ex, shape, session_id, derive)
    check_agreement(new_derive, ex, fault.name)
    assert bytes(sid) == ex.session_id, f"{fault.name}: session id differs"
    return ex, sid, new_derive


def flip(data: bytes, bit: int) -> bytes:
    out = bytearray(data)
    out[bit // 8] ^= 1 << (bit % 8)
    return bytes(out)


def setbyte(data: bytes, pos: int, xor: int) -> bytes:
    out = bytearray(data)
    out[pos] ^= xor
    return bytes(out)


# --------------------------------------------------------------------------
# part 1: in-process, exhaustive reply corruption (full pair-verify)
# --------------------------------------------------------------------------


def test_full_verify_in_process() -> None:
    acc = Accessory()
    pd = acc.pairing_data()

    for shape in ("ip", "ble"):
        must_agree(pd, acc, HONEST, shape)

    # learn the sizes from one honest run
    probe = Exchange(acc)
    drive(pd, probe)
    honest = dict(tlv_dec(probe.last_m2))
    enc_len, id_len = len(honest[T_ENC]), len(acc.id)
    assert enc_len == 2 + id_len + 2 + 64 + 16

    # every single bit and every single byte of every field
    for bit in range(32 * 8):
        must_refuse(pd, acc, Fault(f"pk bit {bit}", pk=lambda v, b=bit: flip(v, b)))
    for bit in range(enc_len * 8):
        must_refuse(pd, acc, Fault(f"enc bit {bit}", enc=lambda v, b=bit: flip(v, b)))
    for bit in range(64 * 8):
        must_refuse(pd, acc, Fault(f"sig bit {bit}", sig=lambda v, b=bit: flip(v, b)))
    for bit in range(id_len * 8):
        bad = flip(acc.id, bit)
        must_refuse(pd, acc, Fault(f"sent id bit {bit}", sent_id=bad))
        must_refuse(pd, acc, Fault(f"sent+signed id bit {bit}", sent_id=bad, signed_id=bad))
        must_refuse(pd, acc, Fault(f"signed id bit {bit}", signed_id=bad))
    for xor in (0xFF, 0x80, 0x01, 0x5A):
        for pos in range(32):
            must_refuse(pd, acc, Fault(f"pk byte {pos}^{xor}", pk=lambda v, p=pos, x=xor: setbyte(v, p, x)))
        for pos in range(enc_len):
            must_refuse(pd, acc, Fault(f"enc byte {pos}^{xor}", enc=lambda v, p=pos, x=xor: setbyte(v, p, x)))
        for pos in range(64):
            must_refuse(pd, acc, Fault(f"sig byte {pos}^{xor}", sig=lambda v, p=pos, x=xor: setbyte(v, p, x)))

    # identifiers: other accessory, prefix, suffix, case, empty, not UTF-8, non-canonical UTF-8
    for other in (
        b"12:34:56:AB:CD:EE",
        acc.id[:-1],
        acc.id + b"\x00",
        acc.id + b" ",
        acc.id.lower(),
        b"",
        b"\xff\xfe" + acc.id,
        acc.id[:-1] + b"\xc1\x86",  # over-long encoding of the final 'F'
        acc.id[:-1] + b"\xef\xbc\xa6",  # full-width 'F'
    ):
        must_refuse(pd, acc, Fault(f"other id {other!r} (signed over it)", sent_id=other, signed_id=other))
        must_refuse(pd, acc, Fault(f"other id {other!r} (signed over ours)", sent_id=other))
        must_refuse(pd, acc, Fault(f"our id, signed over {other!r}", signed_id=other))

    # wrong long-term key: another key, and the controller's own key
    must_refuse(pd, acc, Fault("wrong LTSK", sign_key=ed25519.Ed25519PrivateKey.generate()))
    must_refuse(pd, acc, Fault("controller LTSK", sign_key=acc.ctl_ltsk))
    # the record holds another accessory's key
    other_ltpk = ed25519.Ed25519PrivateKey.generate().public_key().public_bytes_raw().hex()
    must_refuse(acc.pairing_data(AccessoryLTPK=other_ltpk), acc, Fault("record has other LTPK"))
    must_refuse(acc.pairing_data(AccessoryPairingID="12:34:56:AB:CD:00"), acc, Fault("record has other id"))

    # signature over a permuted transcript
    for perm in ((0, 2, 1), (1, 0, 2), (1, 2, 0), (2, 0, 1), (2, 1, 0)):
        must_refuse(pd, acc, Fault(f"transcript order {perm}", perm=perm))
    # controller-style transcript (iosPK | id | accPK) is perm (2,1,0) - covered above

    # signature bound to other keys
    stranger = x25519.X25519PrivateKey.generate().public_key().public_bytes_raw()
    must_refuse(pd, acc, Fault("signed other accessory session key", signed_acc_pk=stranger))
    must_refuse(pd, acc, Fault("signed other controller session key", signed_ios_pk=stranger))

    # replies recorded from a different exchange
    first = Exchange(acc)
    drive(pd, first)
    must_refuse(pd, acc, Fault("whole M2 replayed", raw=lambda _v: first.last_m2))
    must_refuse(
        pd,
        acc,
        Fault("old accessory key + old signature, fresh encryption", eph=first.eph, fixed_sig=first.last_sig),
    )
    must_refuse(pd, acc, Fault("old signature, fresh key", fixed_sig=first.last_sig))
    must_refuse(
        pd,
        acc,
        Fault("old encrypted part under new key", outer=lambda o: [o[0], o[1], (T_ENC, dict(tlv_dec(first.last_m2))[T_ENC])]),
    )

    # field removal
    must_refuse(pd, acc, Fault("no public key", outer=lambda o: [o[0], o[2]]))
    must_refuse(pd, acc, Fault("no encrypted data", outer=lambda o: [o[0], o[1]]))
    must_refuse(pd, acc, Fault("no identifier", inner=lambda i: [i[1]]))
    must_refuse(pd, acc, Fault("no signature", inner=lambda i: [i[0]]))
    must_refuse(pd, acc, Fault("empty sub-TLV", inner=lambda i: []))
    must_refuse(pd, acc, Fault("empty reply", raw=lambda _v: b""))
    # wrong state / error reported
    must_refuse(pd, acc, Fault("state M4 in M2", outer=lambda o: [(T_STATE, b"\x04"), o[1], o[2]]))
    must_refuse(pd, acc, Fault("error in M2", outer=lambda o: [*o, (T_ERROR, b"\x02")]))
    must_refuse(pd, acc, Fault("error in M4", m4=lambda o: [*o, (T_ERROR, b"\x02")]))
    must_refuse(pd, acc, Fault("state M2 in M4", m4=lambda o: [(T_STATE, b"\x02")]))

    # duplication (adjacent duplicates concatenate in TLV8)
    must_refuse(pd, acc, Fault("public key twice", outer=lambda o: [o[0], o[1], o[1], o[2]]))
    must_refuse(pd, acc, Fault("encrypted data twice", outer=lambda o: [o[0], o[1], o[2], o[2]]))
    must_refuse(pd, acc, Fault("identifier twice", inner=lambda i: [i[0], i[0], i[1]]))
    must_refuse(pd, acc, Fault("signature twice", inner=lambda i: [i[0], i[1], i[1]]))
    must_refuse(pd, acc, Fault("other id appended", inner=lambda i: [i[0], i[1], (T_ID, b"12:34:56:AB:CD:EE")]))
    must_refuse(pd, acc, Fault("other sig appended", inner=lambda i: [i[0], i[1], (T_SIG, bytes(64))]))
    must_refuse(pd, acc, Fault("other key appended", outer=lambda o: [*o, (T_PK, stranger)]))

    # wrong-length keys / signatures, low-order point
    for n in (0, 1, 31, 33, 64):
        must_refuse(pd, acc, Fault(f"public key of {n} bytes", pk=lambda v, n=n: (v * 3)[:n]))
    for n in (0, 63, 65, 128):
        must_refuse(pd, acc, Fault(f"signature of {n} bytes", sig=lambda v, n=n: (v * 3)[:n]))
    must_refuse(pd, acc, Fault("all-zero public key", pk=lambda v: bytes(32)))
    must_refuse(acc.pairing_data(AccessoryLTPK=pd["AccessoryLTPK"][:-2]), acc, Fault("record LTPK 31 bytes"))
    must_refuse(acc.pairing_data(AccessoryLTPK=pd["AccessoryLTPK"] + "00"), acc, Fault("record LTPK 33 bytes"))

    # truncation of the encrypted part and of the whole reply
    for cut in range(1, enc_len + 1):
        must_refuse(pd, acc, Fault(f"enc cut by {cut}", enc=lambda v, c=cut: v[:-c]))
    total = len(probe.last_m2)
    for cut in range(1, total):
        must_refuse(pd, acc, Fault(f"reply cut by {cut}", raw=lambda v, c=cut: v[:-c]))
    must_refuse(pd, acc, Fault("enc with a trailing byte", enc=lambda v: v + b"\x00"))

    # benign re-encodings of an authentic reply: whatever the library decides,
    # keys come out only together with agreement (and they do agree).
    for name, fault in (
        ("outer fields reordered", Fault(outer=lambda o: [o[2], o[1], o[0]])),
        ("sub-TLV reordered", Fault(inner=lambda i: [i[1], i[0]])),
        ("no state in M2 (tolerated quirk)", Fault(outer=lambda o: [o[1], o[2]])),
    ):
        fault.name = name
        for shape in ("ip", "ble"):
            ex = Exchange(acc, fault)
            try:
                _sid, derive = drive(pd, ex, shape)
            except NOT_A_REFUSAL:
                raise
            except Exception:  # noqa: BLE001
                continue
            check_agreement(derive, ex, name)

    # fresh keys every time
    seen = set()
    for _ in range(5):
        ex, _sid, _derive = must_agree(pd, acc)
        seen.add(ex.keys()["write"])
        seen.add(ex.m1[T_PK])
    assert len(seen) == 10


# --------------------------------------------------------------------------
# part 2: in-process, session resume (the BLE path of the state machine)
# --------------------------------------------------------------------------


def test_resume_in_process() -> None:
    acc = Accessory()
    pd = acc.pairing_data()

    def fresh_session():
        ex, sid, derive = must_agree(pd, acc, HONEST, "ble")
        assert not ex.resumed
        return sid, derive

    # honest resume, chained three times; every link gives new, agreed keys
    sid, derive = fresh_session()
    previous = derive(b"Control-Salt", b"Control-Write-Encryption-Key")
    for _ in range(3):
        ex, sid, derive = must_agree(pd, acc, Fault("honest resume"), "ble", sid, derive)
        assert ex.resumed and ex.m1[T_METHOD] == b"\x06"
        now = derive(b"Control-Salt", b"Control-Write-Encryption-Key")
        assert now != previous
        previous = now
        # the derive we got must also work for the broadcast key (extra length / salt)
        assert derive(b"salt", b"Broadcast-Encryption-Key") == hkdf_sha512(ex.shared, b"salt", b"Broadcast-Encryption-Key")
        assert derive(b"s", b"i", length=8) == hkdf_sha512(ex.shared, b"s", b"i", 8)

    def refuse(fault: Fault) -> None:
        sid, derive = fresh_session()
        must_refuse(pd, acc, fault, "ble", sid, derive)

    refuse(Fault("resume tag from a wrong secret", resume_secret=lambda s: flip(s, 0)))
    refuse(Fault("resume tag from all-zero secret", resume_secret=lambda s: bytes(32)))
    for bit in range(16 * 8):
        refuse(Fault(f"resume tag bit {bit}", resume_tag=lambda t, b=bit: flip(t, b)))
    for bit in range(8 * 8):
        refuse(Fault(f"resume session id bit {bit}", resume_items=lambda i, b=bit: [i[0], i[1], (T_SID, flip(i[2][1], b)), i[3]]))
    for cut in range(1, 16):
        refuse(Fault(f"resume tag cut by {cut}", resume_tag=lambda t, c=cut: t[:-c]))
    refuse(Fault("resume tag + trailing byte", resume_tag=lambda t: t + b"\x00"))
    refuse(Fault("resume tag twice", resume_tag=lambda t: t + t))
    refuse(Fault("no resume tag", resume_items=lambda i: i[:3]))
    refuse(Fault("empty resume tag", resume_items=lambda i: [*i[:3], (T_ENC, b"")]))
    refuse(Fault("no session id", resume_items=lambda i: [i[0], i[1], i[3]]))
    refuse(Fault("no method", resume_items=lambda i: [i[0], i[2], i[3]]))
    refuse(Fault("method pair-verify", resume_items=lambda i: [i[0], (T_METHOD, b"\x02"), i[2], i[3]]))
    refuse(Fault("error in resume reply", resume_items=lambda i: [*i, (T_ERROR, b"\x02")]))
    refuse(Fault("state M4 in resume reply", resume_items=lambda i: [(T_STATE, b"\x04"), *i[1:]]))

    # a *valid* AEAD message under the right key and nonce, but not the empty one
    sid, derive = fresh_session()
    secret = acc.sessions[bytes(sid)]

    def nonempty(items, secret=secret):
        new_sid = items[2][1]
        ios_pk = cur.m1[T_PK]
        key = hkdf_sha512(secret, ios_pk + new_sid, b"Pair-Resume-Response-Info")
        return [*items[:3], (T_ENC, aead_enc(key, b"PR-Msg02", b"\x00"))]

    cur = Exchange(acc, Fault("valid AEAD of a non-empty message", resume_items=nonempty))
    try:
        value = drive(pd, cur, "ble", sid, derive)
    except NOT_A_REFUSAL:
        raise
    except Exception:  # noqa: BLE001
        STATS["refused"] += 1
    else:
        raise AssertionError(f"non-empty resume message accepted: {value!r}")

    # the controller's own request tag reflected back
    sid, derive = fresh_session()
    cur2 = Exchange(acc, Fault("request tag reflected"))
    cur2.fault.resume_items = lambda i: [*i[:3], (T_ENC, cur2.m1[T_ENC])]
    try:
        value = drive(pd, cur2, "ble", sid, derive)
    except NOT_A_REFUSAL:
        raise
    except Exception:  # noqa: BLE001
        STATS["refused"] += 1
    else:
        raise AssertionError("reflected request tag accepted")

    # a resume reply recorded from another exchange (other controller key)
    sid, derive = fresh_session()
    recorded = Exchange(acc)
    drive(pd, recorded, "ble", sid, derive)  # consumes sid on the accessory
    assert recorded.resumed
    sid2, derive2 = fresh_session()
    refuse_fault = Fault("resume reply replayed", raw=lambda _v: recorded.last_m2)
    must_refuse(pd, acc, refuse_fault, "ble", sid2, derive2)
    # ... also when presented to the very session state it was recorded for
    must_refuse(pd, acc, Fault("resume reply replayed to old state", raw=lambda _v: recorded.last_m2), "ble", sid, derive)

    # a controller holding a wrong secret gets a full pair-verify instead (accessory
    # does not know the tag) and the result is a *full* authentic session
    sid, derive = fresh_session()
    ex, _sid, _derive = must_agree(pd, acc, Fault("unknown session -> full"), "ble", bytes(8), derive)
    assert not ex.resumed
    # accessory that declines resume answers with an ordinary M2: full verify, full checks
    ex, _sid, _derive = must_agree(pd, acc, Fault("resume declined", allow_resume=False), "ble", sid, derive)
    assert not ex.resumed
    sid, derive = fresh_session()
    must_refuse(
        pd,
        acc,
        Fault("resume declined + forged signature", allow_resume=False, sig=lambda s: flip(s, 7)),
        "ble",
        sid,
        derive,
    )
    # resume fields with a bad tag glued onto a forged full reply: full checks still apply
    sid, derive = fresh_session()
    must_refuse(
        pd,
        acc,
        Fault(
            "bad resume + wrong LTSK full reply",
            allow_resume=False,
            sign_key=ed25519.Ed25519PrivateKey.generate(),
            outer=lambda o: [o[0], (T_METHOD, b"\x06"), (T_SID, bytes(8)), o[1], o[2]],
        ),
        "ble",
        sid,
        derive,
    )
    # ... and onto an authentic full reply: a full, authentic session (or a refusal), never a resumed one
    ex = Exchange(
        acc,
        Fault(
            "bad resume + authentic full reply",
            allow_resume=False,
            outer=lambda o: [o[0], (T_METHOD, b"\x06"), (T_SID, bytes(8)), o[1], o[2]],
        ),
    )
    try:
        got_sid, got_derive = drive(pd, ex, "ble", sid, derive)
    except NOT_A_REFUSAL:
        raise
    except Exception:  # noqa: BLE001
        pass
    else:
        check_agreement(got_derive, ex, "bad resume + authentic full reply")
        assert bytes(got_sid) == ex.session_id != bytes(8)


# --------------------------------------------------------------------------
# part 3: IP transport - real SecureHomeKitConnection over loopback TCP
# --------------------------------------------------------------------------


class TcpAccessory:
    def __init__(self, acc: Accessory, faults: list[Fault]) -> None:
        self.acc, self.faults = acc, list(faults)
        self.exchanges: list[Exchange] = []
        self.secure_requests: list[tuple[int, str]] = []
        self.garbage_after_failure: list[bytes] = []
        self.m2_recorded = asyncio.Event()
        self.tasks: set[asyncio.Task] = set()

    async def start(self) -> int:
        self.server = await asyncio.start_server(self._client, "127.0.0.1", 0)
        return self.server.sockets[0].getsockname()[1]

    async def stop(self) -> None:
        self.server.close()
        await self.server.wait_closed()

    @staticmethod
    async def _read_request(reader: asyncio.StreamReader):
        try:
            head = await reader.readuntil(b"\r\n\r\n")
        except (asyncio.IncompleteReadError, ConnectionError):
            return None
        lines = head.decode().split("\r\n")
        method, target, _ = lines[0].split(" ")
        length = 0
        for line in lines[1:]:
            if line.lower().startswith("content-length:"):
                length = int(line.split(":")[1])
        body = await reader.readexactly(length) if length else b""
        return method, target, body

    @staticmethod
    def _response(body: bytes, ctype: str) -> bytes:
        return (
            b"HTTP/1.1 200 OK\r\nContent-Type: " + ctype.encode() + b"\r\nContent-Length: "
            + str(len(body)).encode() + b"\r\n\r\n" + body
        )

    async def _client(self, reader: asyncio.StreamReader, writer: asyncio.StreamWriter) -> None:
        index = len(self.exchanges)
        fault = self.faults[index] if index < len(self.faults) else HONEST
        ex = Exchange(self.acc, fault)
        self.exchanges.append(ex)
        try:
            while True:
                req = await self._read_request(reader)
                if req is None:
                    return
                method, target, body = req
                assert (method, target) == ("POST", "/pair-verify"), req
                if fault.close_after_m1:
                    return
                reply = self._response(ex.handle(body), "application/pairing+tlv8")
                if ex.last_m2 is not None:
                    self.m2_recorded.set()
                if fault.dribble:
                    for i in range(0, len(reply), fault.dribble):
                        writer.write(reply[i : i + fault.dribble])
                        await writer.drain()
                        await asyncio.sleep(0.001)
                else:
                    writer.write(reply)
                    await writer.drain()
                if ex.m3_seen:
                    break
            if ex.verified and fault.m4 is ident:
                await self._secure(index, ex, reader, writer)
            else:
                # whatever arrives now was sent by a controller that should have given up
                rest = await reader.read(65536)
                if rest:
                    self.garbage_after_failure.append(rest)
        except HarnessError:
            raise
        finally:
            writer.close()

    async def _secure(self, index: int, ex: Exchange, reader, writer) -> None:
        keys = ex.keys()
        rx = tx = 0
        while True:
            try:
                length_bytes = await reader.readexactly(2)
            except (asyncio.IncompleteReadError, ConnectionError):
                return
            (length,) = struct.unpack("<H", length_bytes)
            block = await reader.readexactly(length + 16)
            # controller -> accessory uses the *write* key; a wrong label fails right here
            plain = ChaCha20Poly1305(keys["write"]).decrypt(b"\0\0\0\0" + struct.pack("<Q", rx), block, length_bytes)
            rx += 1
            target = plain.split(b" ")[1].decode()
            self.secure_requests.append((index, target))
            body = json.dumps({"pong": index, "target": target}).encode()
            reply = self._response(body, "application/hap+json")
            length_bytes = struct.pack("<H", len(reply))
            writer.write(
                length_bytes
                + ChaCha20Poly1305(keys["read"]).encrypt(b"\0\0\0\0" + struct.pack("<Q", tx), reply, length_bytes)
            )
            tx += 1
            await writer.drain()


async def _ip_part() -> None:
    from aiohomekit.controller.ip.connection import SecureHomeKitConnection, SecureHomeKitProtocol
    from aiohomekit.exceptions import AccessoryDisconnectedError

    acc = Accessory()

    def connection(port: int) -> SecureHomeKitConnection:
        return SecureHomeKitConnection(None, acc.pairing_data(AccessoryIP="127.0.0.1", AccessoryPort=port))

    # honest, through the public entry point, reply dribbled in 7 byte pieces
    server = TcpAccessory(acc, [Fault("honest, dribbled", dribble=7)])
    port = await server.start()
    conn = connection(port)
    await asyncio.wait_for(conn.ensure_connection(), 20)
    assert conn.is_secure and isinstance(conn.protocol, SecureHomeKitProtocol)
    ex = server.exchanges[0]
    assert ex.verified
    assert conn.protocol.c2a_key == ex.keys()["write"] and conn.protocol.a2c_key == ex.keys()["read"]
    for n in range(3):  # both directions really work, counters advance
        assert (await conn.get_json(f"/ping{n}")) == {"pong": 0, "target": f"/ping{n}"}
    assert server.secure_requests == [(0, "/ping0"), (0, "/ping1"), (0, "/ping2")]
    STATS["accepted"] += 1
    await conn.close()
    await server.stop()

    # faults: every attempt must fail, leave no secure protocol and send nothing further
    replay_source = Exchange(acc)
    drive(acc.pairing_data(), replay_source)
    faults = [
        Fault("tcp: wrong LTSK", sign_key=ed25519.Ed25519PrivateKey.generate()),
        Fault("tcp: other identifier", sent_id=b"12:34:56:AB:CD:EE", signed_id=b"12:34:56:AB:CD:EE"),
        Fault("tcp: identifier not UTF-8", sent_id=b"\xff" + acc.id[1:], signed_id=b"\xff" + acc.id[1:]),
        Fault("tcp: signature bit", sig=lambda s: flip(s, 300)),
        Fault("tcp: encrypted data bit", enc=lambda s: flip(s, 9)),
        Fault("tcp: public key bit 255", pk=lambda s: flip(s, 255)),
        Fault("tcp: permuted transcript", perm=(2, 1, 0)),
        Fault("tcp: replayed M2", raw=lambda _v: replay_source.last_m2),
        Fault("tcp: truncated TLV", raw=lambda v: v[:-5]),
        Fault("tcp: short public key", pk=lambda v: v[:31]),
        Fault("tcp: error in M4", m4=lambda o: [*o, (T_ERROR, b"\x02")]),
        Fault("tcp: connection closed after M1", close_after_m1=True),
        Fault("tcp: dribbled forged reply", dribble=5, sig=lambda s: flip(s, 0)),
    ]
    server = TcpAccessory(acc, faults)
    port = await server.start()
    for fault in faults:
        conn = connection(port)
        try:
            await asyncio.wait_for(conn._connect_once(), 20)
        except NOT_A_REFUSAL as exc:
            raise AssertionError(f"{fault.name}: programming error {exc!r}") from exc
        except Exception:  # noqa: BLE001
            STATS["refused"] += 1
        else:
            raise AssertionError(f"{fault.name}: secure session established with a forged reply")
        assert not conn.is_secure and not conn.is_connected, fault.name
        assert conn.protocol is None and conn.transport is None, fault.name
        await conn.close()
    await asyncio.sleep(0.05)
    assert server.secure_requests == [] and server.garbage_after_failure == []
    assert len(server.exchanges) == len(faults)
    await server.stop()

    # interleaving: two controllers at once; B is answered with the reply recorded for A
    fault_b = Fault("tcp: B gets A's M2")
    server = TcpAccessory(acc, [])
    port = await server.start()

    async def attempt_a():
        conn = connection(port)
        await conn.ensure_connection()
        return conn

    async def attempt_b():
        await server.m2_recorded.wait()  # A's M2 exists now (A may or may not have finished)
        recorded = server.exchanges[0].last_m2
        fault_b.raw = lambda _v: recorded
        server.faults = [HONEST, fault_b]
        conn = connection(port)
        try:
            await conn._connect_once()
        except NOT_A_REFUSAL:
            raise
        except Exception:  # noqa: BLE001
            STATS["refused"] += 1
            return conn
        raise AssertionError("B accepted the reply recorded for A")

    conn_a, conn_b = await asyncio.wait_for(asyncio.gather(attempt_a(), attempt_b()), 20)
    assert conn_a.is_secure and not conn_b.is_secure and conn_b.protocol is None
    assert (await conn_a.get_json("/after")) == {"pong": 0, "target": "/after"}
    STATS["accepted"] += 1
    await conn_a.close()
    await conn_b.close()
    await server.stop()

    # fault first, then recovery through the library's own retry loop: new keys, agreed
    server = TcpAccessory(acc, [Fault("tcp: first attempt forged", sig=lambda s: flip(s, 1)), HONEST])
    port = await server.start()
    conn = connection(port)
    await asyncio.wait_for(conn.ensure_connection(), 20)
    assert conn.is_secure and len(server.exchanges) == 2
    assert not server.exchanges[0].verified and server.exchanges[1].verified
    assert conn.protocol.c2a_key == server.exchanges[1].keys()["write"]
    assert (await conn.get_json("/x")) == {"pong": 1, "target": "/x"}
    STATS["accepted"] += 1
    await conn.close()
    await server.stop()

    # the peer goes away while the request is in flight (no AccessoryDisconnectedError swallowed into success)
    server = TcpAccessory(acc, [Fault("closed", close_after_m1=True)])
    port = await server.start()
    conn = connection(port)
    try:
        await asyncio.wait_for(conn._connect_once(), 20)
    except AccessoryDisconnectedError:
        STATS["refused"] += 1
    else:
        raise AssertionError("closed connection produced a session")
    await conn.close()
    await server.stop()


def test_ip_transport() -> None:
    asyncio.run(_ip_part())


# --------------------------------------------------------------------------
# part 4: BLE transport - real BlePairing/AIOHomeKitBleakClient, fake bleak backend
# --------------------------------------------------------------------------


def _make_backend_class(acc: Accessory, faults: list[Fault]):
    from bleak.backends.characteristic import BleakGATTCharacteristic
    from bleak.backends.client import BaseBleakClient
    from bleak.backends.descriptor import BleakGATTDescriptor
    from bleak.backends.service import BleakGATTService, BleakGATTServiceCollection

    from aiohomekit.controller.ble.bleak import CHAR_DESCRIPTOR_ID
    from aiohomekit.model.characteristics import CharacteristicsTypes
    from aiohomekit.model.services import ServicesTypes

    class FakeBackend(BaseBleakClient):
        exchanges: list[Exchange] = []
        writes: list[bytes] = []

        def __init__(self, address_or_ble_device, **kwargs):
            super().__init__(address_or_ble_device, **kwargs)
            self._connected = False
            self._rx = bytearray()
            self._rx_head = None
            self._tx: list[bytes] = []
            self._exchange: Exchange | None = None

        async def connect(self, pair: bool, **kwargs) -> None:
            services = BleakGATTServiceCollection()
            service = BleakGATTService(None, 1, ServicesTypes.PAIRING.lower())
            services.add_service(service)
            char = BleakGATTCharacteristic(
                None, 2, CharacteristicsTypes.PAIR_VERIFY.lower(), ["read", "write"], lambda: 20, service
            )
            services.add_characteristic(char)
            services.add_descriptor(BleakGATTDescriptor(None, 3, CHAR_DESCRIPTOR_ID.lower(), char))
            self.services = services
            self._connected = True

        async def disconnect(self) -> None:
            self._connected = False

        @property
        def is_connected(self) -> bool:
            return self._connected

        @property
        def mtu_size(self) -> int:
            return 60  # -> the library uses its minimum of 100, so M1/M3 are fragmented

        async def read_gatt_descriptor(self, descriptor, **kwargs) -> bytearray:
            await asyncio.sleep(0)
            return bytearray(b"\x35\x00")

        async def write_gatt_char(self, characteristic, data, response: bool) -> None:
            await asyncio.sleep(0)
            data = bytes(data)
            FakeBackend.writes.append(data)
            if data[0] & 0x80:
                assert data[1] == self._rx_head[0]
                self._rx += data[2:]
            else:
                opcode, tid, iid = data[1], data[2], struct.unpack("<H", data[3:5])[0]
                assert opcode == 0x02 and iid == 0x35
                (length,) = struct.unpack("<H", data[5:7])
                self._rx_head = (tid, length)
                self._rx = bytearray(data[7:])
            tid, length = self._rx_head
            if len(self._rx) < length:
                return
            params = dict(tlv_dec(bytes(self._rx)))
            value = params[0x01]
            if dict(tlv_dec(value)).get(T_STATE) == b"\x01":
                fault = faults.pop(0) if faults else HONEST
                self._exchange = Exchange(acc, fault)
                FakeBackend.exchanges.append(self._exchange)
            reply = tlv_enc([(0x01, self._exchange.handle(value))])
            pdu = bytes([0x02, tid, 0x00]) + struct.pack("<H", len(reply))
            first, rest = reply[:40], reply[40:]
            self._tx = [pdu + first] + [bytes([0x82, tid]) + rest[i : i + 45] for i in range(0, len(rest), 45)]

        async def read_gatt_char(self, characteristic, **kwargs) -> bytearray:
            await asyncio.sleep(0)
            return bytearray(self._tx.pop(0))

        async def write_gatt_descriptor(self, *a, **k):
            raise NotImplementedError

        async def start_notify(self, *a, **k):
            raise NotImplementedError

        async def stop_notify(self, *a, **k):
            raise NotImplementedError

        async def pair(self, *a, **k):
            raise NotImplementedError

        async def unpair(self, *a, **k):
            raise NotImplementedError

    FakeBackend.exchanges = []
    FakeBackend.writes = []
    return FakeBackend


async def _ble_part() -> None:
    from aiohomekit.characteristic_cache import CharacteristicCacheMemory
    from aiohomekit.controller.ble.bleak import AIOHomeKitBleakClient
    from aiohomekit.controller.ble.controller import BleController
    from aiohomekit.controller.ble.pairing import BlePairing

    acc = Accessory()
    faults: list[Fault] = []
    backend = _make_backend_class(acc, faults)
    client = AIOHomeKitBleakClient("AA:BB:CC:DD:EE:FF", backend=backend)
    await client.connect()
    pairing = BlePairing(
        BleController(CharacteristicCacheMemory()),
        acc.pairing_data(AccessoryAddress="AA:BB:CC:DD:EE:FF", Connection="BLE"),
        client=client,
    )

    def check_installed(ex: Exchange) -> None:
        # the installed key objects interoperate with the accessory's own keys
        k = ex.keys()
        assert aead_dec(k["write"], struct.pack("<Q", 0), pairing._encryption_key.encrypt(b"to accessory")) == b"to accessory"
        assert pairing._decryption_key.decrypt(aead_enc(k["read"], struct.pack("<Q", 0), b"to controller")) == b"to controller"
        assert bytes(pairing._session_id) == ex.session_id
        check_agreement(pairing._derive, ex, "ble installed derive")

    # 1. full pair-verify
    await pairing._async_pair_verify()
    ex1 = backend.exchanges[-1]
    assert ex1.verified and not ex1.resumed and T_METHOD not in ex1.m1
    check_installed(ex1)
    assert any(w[0] & 0x80 for w in backend.writes), "expected fragmented writes"

    # 2. honest resume
    await pairing._async_pair_verify()
    ex2 = backend.exchanges[-1]
    assert ex2.resumed and ex2.m1[T_METHOD] == b"\x06" and ex2.m1[T_SID] == ex1.session_id
    assert ex2.keys() != ex1.keys()
    check_installed(ex2)

    # 3. resume answered with a tag from a wrong secret / damaged tag / replay: error, state untouched
    for fault in (
        Fault("ble: resume tag from wrong secret", resume_secret=lambda s: flip(s, 5)),
        Fault("ble: resume tag bit", resume_tag=lambda t: flip(t, 77)),
        Fault("ble: resume reply of exchange 2 replayed", raw=lambda _v: ex2.last_m2),
        Fault("ble: resume declined, forged full reply", allow_resume=False, sign_key=ed25519.Ed25519PrivateKey.generate()),
    ):
        # the accessory drops the session it tried to resume, so start from a good one
        pairing._session_id = pairing._derive = None
        await pairing._async_pair_verify()
        good = backend.exchanges[-1]
        before = (pairing._session_id, pairing._derive, pairing._encryption_key, pairing._decryption_key)
        faults.append(fault)
        try:
            await pairing._async_pair_verify()
        except NOT_A_REFUSAL as exc:
            raise AssertionError(f"{fault.name}: programming error {exc!r}") from exc
        except Exception:  # noqa: BLE001
            STATS["refused"] += 1
        else:
            raise AssertionError(f"{fault.name}: accepted")
        after = (pairing._session_id, pairing._derive, pairing._encryption_key, pairing._decryption_key)
        assert all(a is b for a, b in zip(before, after)), f"{fault.name}: state changed by a refused attempt"
        assert not pairing._ble_request_lock.locked()
        assert good.verified

    # 4. resume declined by an honest accessory -> full verify, keys agree
    faults.append(Fault("ble: resume declined", allow_resume=False))
    await pairing._async_pair_verify()
    ex4 = backend.exchanges[-1]
    assert ex4.verified and not ex4.resumed and ex4.m1[T_METHOD] == b"\x06"
    check_installed(ex4)

    # 5. two pair-verifies requested at once are serialised by the request lock; both end agreed
    await asyncio.gather(pairing._async_pair_verify(), pairing._async_pair_verify())
    check_installed(backend.exchanges[-1])
    assert backend.exchanges[-1].resumed and backend.exchanges[-2].resumed

    await client.disconnect()


def test_ble_transport() -> None:
    asyncio.run(_ble_part())


# --------------------------------------------------------------------------
# part 5: CoAP transport - real aiocoap contexts over loopback UDP (::1)
# --------------------------------------------------------------------------


async def _coap_part() -> None:
    import socket

    from aiocoap import Context, Message, resource
    from aiocoap.numbers.codes import Code

    from aiohomekit.controller.coap.connection import CoAPHomeKitConnection

    acc = Accessory()
    state: dict[str, Any] = {"faults": [], "exchanges": []}

    class PairVerify(resource.Resource):
        async def render_post(self, request):
            if dict(tlv_dec(request.payload)).get(T_STATE) == b"\x01":
                fault = state["faults"].pop(0) if state["faults"] else HONEST
                state["exchanges"].append(Exchange(acc, fault))
            return Message(code=Code.CHANGED, payload=state["exchanges"][-1].handle(request.payload))

    probe = socket.socket(socket.AF_INET6, socket.SOCK_DGRAM)
    probe.bind(("::1", 0))
    port = probe.getsockname()[1]
    probe.close()
    site = resource.Site()
    site.add_resource(["2"], PairVerify())
    server = await Context.create_server_context(site, bind=("::1", port))
    try:
        conn = CoAPHomeKitConnection(None, "::1", port)
        assert await asyncio.wait_for(conn.do_pair_verify(acc.pairing_data()), 20) is True
        ex = state["exchanges"][-1]
        assert ex.verified
        k = ex.keys()
        nonce0 = struct.pack("<Q", 0)
        assert aead_dec(k["write"], nonce0, conn.enc_ctx.encrypt(b"request")) == b"request"
        assert conn.enc_ctx.decrypt(aead_enc(k["read"], nonce0, b"response")) == b"response"
        assert conn.enc_ctx.decrypt_event(aead_enc(k["event"], nonce0, b"event")) == b"event"
        STATS["accepted"] += 1
        await conn.enc_ctx.coap_ctx.shutdown()

        for fault in (
            Fault("coap: wrong LTSK", sign_key=ed25519.Ed25519PrivateKey.generate()),
            Fault("coap: signature bit", sig=lambda s: flip(s, 511)),
            Fault("coap: other identifier", sent_id=b"12:34:56:AB:CD:EE", signed_id=b"12:34:56:AB:CD:EE"),
            Fault("coap: replayed M2", raw=lambda _v, m2=ex.last_m2: m2),
            Fault("coap: error in M4", m4=lambda o: [*o, (T_ERROR, b"\x02")]),
        ):
            state["faults"].append(fault)
            conn = CoAPHomeKitConnection(None, "::1", port)
            try:
                await asyncio.wait_for(conn.do_pair_verify(acc.pairing_data()), 20)
            except NOT_A_REFUSAL as exc:
                raise AssertionError(f"{fault.name}: programming error {exc!r}") from exc
            except Exception:  # noqa: BLE001
                STATS["refused"] += 1
            else:
                raise AssertionError(f"{fault.name}: accepted")
            assert conn.enc_ctx is None, fault.name
    finally:
        await server.shutdown()


def test_coap_transport() -> None:
    asyncio.run(_coap_part())


# --------------------------------------------------------------------------


def main() -> int:
    import aiohomekit

    print("library under test:", aiohomekit.__file__)
    for test in (
        test_full_verify_in_process,
        test_resume_in_process,
        test_ip_transport,
        test_ble_transport,
        test_coap_transport,
    ):
        before = dict(STATS)
        test()
        print(
            f"PASS {test.__name__}: {STATS['refused'] - before['refused']} forged/damaged replies refused, "
            f"{STATS['accepted'] - before['accepted']} authentic sessions with agreed keys"
        )
    print("ALL PASSED", STATS)
    return 0


if __name__ == "__main__":
    sys.exit(main())
