"""
Demonstration for change k20b (property C20: saved pairings and the accessory
cache survive restart and interrupted saves).

Runs against whatever `aiohomekit` is first on PYTHONPATH and must pass both on
the unmodified code and with patch.diff applied:

    PYTHONPATH=/tmp/wt/k20b /venv/bin/python demo_k20b.py

Everything is real: a real asyncio event loop, a real AsyncZeroconf bound to
the loopback interface only, real Controller / IpController / CoAPController /
BleController / *Pairing / CharacteristicCacheFile objects and real files in a
temporary directory.  The only fake is a thin fault-injecting layer put in
front of `open` (for writing), `os.fsync` and `os.replace` while a save is in
progress; it forwards to an unbuffered real file so that a simulated crash
leaves on disk exactly the bytes "written so far".
"""

from __future__ import annotations

import asyncio
import builtins
import errno
import glob
import io
import json
import os
import pathlib
import random
import shutil
import sys
import tempfile
from contextlib import contextmanager
from unittest import mock

from zeroconf.asyncio import AsyncZeroconf

import aiohomekit
from aiohomekit import Controller
from aiohomekit.characteristic_cache import CharacteristicCacheFile
from aiohomekit.controller.abstract import TransportType
from aiohomekit.controller.ble.controller import BleController
from aiohomekit.controller.coap.controller import CoAPController
from aiohomekit.controller.ip.controller import IpController
from aiohomekit.exceptions import ConfigLoadingError
from aiohomekit.model import Accessories, Accessory
from aiohomekit.model.characteristics import CharacteristicsTypes
from aiohomekit.model.services import ServicesTypes

HERE = pathlib.Path(__file__).resolve().parent
FIXTURES = sorted(glob.glob(str(HERE / "tests" / "fixtures" / "*.json")))

REAL_OPEN = builtins.open
REAL_FSYNC = os.fsync
REAL_REPLACE = os.replace


# --------------------------------------------------------------------------
# fault injection
# --------------------------------------------------------------------------
class Crash(BaseException):
    """The process dies here.  Nothing after this point happens."""


class Plan:
    """Decides at which crash point the process dies.

    Crash points are numbered in the order they are reached.  `target` is the
    point to die at (None: never, just count).  A write of n bytes/characters
    contributes n + 1 points: die after 0, 1, ..., n units reached the disk.
    """

    def __init__(self, target: int | None, fail_with: BaseException | None = None) -> None:
        self.target = target
        self.count = 0
        self.dead = False
        self.fail_with = fail_with
        self.log: list[str] = []

    def point(self, what: str) -> None:
        if self.dead:
            return
        self.log.append(what)
        if self.target is not None and self.count == self.target:
            self.dead = True
            raise (self.fail_with or Crash(what))
        self.count += 1

    def write_cut(self, length: int) -> int | None:
        """Return the number of units to let through before dying, or None."""
        if self.dead:
            return 0
        self.log.append(f"write[{length}]")
        if self.target is not None and self.count <= self.target <= self.count + length:
            self.dead = True
            return self.target - self.count
        self.count += length + 1
        return None


class FaultyFile:
    """Write-mode file object forwarding to an unbuffered real file."""

    def __init__(self, plan: Plan, path, mode: str) -> None:
        self._plan = plan
        self._text = "b" not in mode
        plan.point(f"before open {os.path.basename(str(path))} {mode}")
        self._raw = io.FileIO(path, "w")  # creates / truncates for real
        plan.point("after open+truncate")

    def __enter__(self):
        return self

    def __exit__(self, *exc):
        self.close()
        return False

    def write(self, data):
        cut = self._plan.write_cut(len(data))
        part = data if cut is None else data[:cut]
        if not self._plan.dead or cut:
            raw = part.encode("utf-8", "surrogatepass") if self._text else bytes(part)
            view = memoryview(raw)
            while view:
                view = view[self._raw.write(view) :]
        if cut is not None:
            raise (self._plan.fail_with or Crash("write"))
        return len(data)

    def flush(self):
        self._plan.point("before flush")
        self._plan.point("after flush")

    def fileno(self):
        return self._raw.fileno()

    def close(self):
        if self._raw.closed:
            return
        if self._plan.dead:
            # the process is gone; the kernel closes the descriptor
            self._raw.close()
            return
        self._plan.point("before close")
        self._raw.close()
        self._plan.point("after close")


@contextmanager
def faults(plan: Plan, root: pathlib.Path):
    """Route write-opens below root, os.fsync and os.replace through plan."""

    def fake_open(file, mode="r", *args, **kwargs):
        if isinstance(file, (str, os.PathLike)) and str(file).startswith(str(root)):
            if any(c in mode for c in "wax+"):
                return FaultyFile(plan, file, mode)
        return REAL_OPEN(file, mode, *args, **kwargs)

    def fake_fsync(fd):
        plan.point("before fsync")
        REAL_FSYNC(fd)
        plan.point("after fsync")

    def fake_replace(src, dst, **kwargs):
        plan.point("before replace")
        REAL_REPLACE(src, dst, **kwargs)
        plan.point("after replace")

    with (
        mock.patch.object(builtins, "open", fake_open),
        mock.patch.object(io, "open", fake_open),
        mock.patch.object(os, "fsync", fake_fsync),
        mock.patch.object(os, "replace", fake_replace),
    ):
        yield plan


def crash_points(action, root: pathlib.Path, reset) -> int:
    """Number of crash points of action() when nothing goes wrong."""
    reset()
    with faults(Plan(None), root) as plan:
        action()
    return plan.count


# --------------------------------------------------------------------------
# helpers building real controllers
# --------------------------------------------------------------------------
PAIRINGS = {
    "ip-lamp": {
        "AccessoryPairingID": "12:34:56:00:01:0A",
        "AccessoryLTPK": "7986cf939de8986f428744e36ed72d86189bea46b4dcdc8d9d79a3e4fceb92b9",
        "iOSPairingId": "decc6fa3-de3e-41c9-adba-ef7409821bfc",
        "iOSDeviceLTSK": "fa45f082ef87efc6c8c8d043d74084a3ea923a2253e323a7eb9917b4090c2fcc",
        "iOSDeviceLTPK": "d708df2fbf4a8779669f0ccd43f4962d6d49e4274f88b1292f822edc3bcf8ed8",
        "AccessoryIP": "127.0.0.1",
        "AccessoryPort": 51842,
        "Connection": "IP",
    },
    "Wohnzimmer – Küche \U0001f4a1 灯": {
        "AccessoryPairingID": "AA:BB:CC:00:01:0B",
        "AccessoryLTPK": "11" * 32,
        "iOSPairingId": "0a1b2c3d-0000-4000-8000-00000000000b",
        "iOSDeviceLTSK": "22" * 32,
        "iOSDeviceLTPK": "33" * 32,
        "AccessoryIP": "127.0.0.1",
        "AccessoryIPs": ["127.0.0.1", "::1"],
        "AccessoryPort": 51843,
        "Connection": "IP",
    },
    "thread éclair": {
        "AccessoryPairingID": "AA:BB:CC:00:01:0C",
        "AccessoryLTPK": "44" * 32,
        "iOSPairingId": "0a1b2c3d-0000-4000-8000-00000000000c",
        "iOSDeviceLTSK": "55" * 32,
        "iOSDeviceLTPK": "66" * 32,
        "AccessoryIP": "::1",
        "AccessoryPort": 5683,
        "Connection": "CoAP",
    },
    "ble センサー": {
        "AccessoryPairingID": "AA:BB:CC:00:01:0D",
        "AccessoryLTPK": "77" * 32,
        "iOSPairingId": "0a1b2c3d-0000-4000-8000-00000000000d",
        "iOSDeviceLTSK": "88" * 32,
        "iOSDeviceLTPK": "99" * 32,
        "AccessoryAddress": "00:11:22:33:44:55",
        "Connection": "BLE",
    },
    # No "Connection": load_pairing defaults it to IP
    "legacy": {
        "AccessoryPairingID": "AA:BB:CC:00:01:0E",
        "AccessoryLTPK": "ab" * 32,
        "iOSPairingId": "0a1b2c3d-0000-4000-8000-00000000000e",
        "iOSDeviceLTSK": "cd" * 32,
        "iOSDeviceLTPK": "ef" * 32,
        "AccessoryIP": "127.0.0.1",
        "AccessoryPort": 51844,
    },
}


def clone(obj):
    return json.loads(json.dumps(obj))


def make_controller(zc: AsyncZeroconf, cache) -> Controller:
    """A real Controller with all three real transports registered (not started)."""
    controller = Controller(async_zeroconf_instance=zc, char_cache=cache)
    controller.transports[TransportType.IP] = IpController(char_cache=cache, zeroconf_instance=zc)
    controller.transports[TransportType.COAP] = CoAPController(char_cache=cache, zeroconf_instance=zc)
    controller.transports[TransportType.BLE] = BleController(char_cache=cache)
    return controller


def restart(zc: AsyncZeroconf, pairing_file: pathlib.Path, cache_file: pathlib.Path) -> Controller:
    """What a new process does: open the cache, build a controller, load the pairings."""
    cache = CharacteristicCacheFile(cache_file)
    controller = make_controller(zc, cache)
    controller.load_data(str(pairing_file))
    return controller


def pairing_view(controller: Controller) -> dict:
    return {alias: dict(p.pairing_data) for alias, p in controller.aliases.items()}


def entity_map(accessories) -> list:
    """The serialised database without the free-text "description" of a
    characteristic: the model may fill that in from its own tables when an
    entity map is parsed (one fixture shows it), in memory and without any file
    involved, and it is not among the fields C20 lists."""
    data = clone(accessories.serialize())
    for accessory in data:
        for service in accessory["services"]:
            for char in service["characteristics"]:
                char.pop("description", None)
    return data


def state_view(pairing) -> tuple:
    if pairing.accessories is None:
        return None
    return (
        entity_map(pairing.accessories),
        pairing.config_num,
        pairing.broadcast_key,
        pairing.state_num,
    )


def random_accessories(rng: random.Random) -> list:
    accessories = Accessories()
    for aid in range(1, rng.randint(2, 4)):
        accessory = Accessory.create_with_info(
            aid,
            f"Näme {rng.randint(0, 999)} ☃",
            "Mänufacturer",
            "Model モデル",
            f"{rng.randint(0, 10**8):08d}",
            "1.2.3",
        )
        accessory.aid = aid
        bulb = accessory.add_service(ServicesTypes.LIGHTBULB)
        bulb.add_char(CharacteristicsTypes.ON, value=rng.choice([True, False]))
        bulb.add_char(CharacteristicsTypes.BRIGHTNESS, value=rng.randint(0, 100))
        bulb.add_char(CharacteristicsTypes.HUE, value=rng.randint(0, 3600) / 10)
        sensor = accessory.add_service(ServicesTypes.TEMPERATURE_SENSOR)
        sensor.add_char(CharacteristicsTypes.TEMPERATURE_CURRENT, value=rng.randint(-100, 400) / 10)
        sensor.add_linked_service(bulb)
        accessories.add_accessory(accessory)
    return accessories.serialize()


# --------------------------------------------------------------------------
# the scenarios
# --------------------------------------------------------------------------
async def scenario_round_trip(zc, tmp: pathlib.Path) -> None:
    """Pairings of every transport and every fixture database survive a restart."""
    pairing_file = tmp / "sub" / "dir" / "pairing.json"  # parent does not exist yet
    cache_file = tmp / "charmap.json"

    first = make_controller(zc, CharacteristicCacheFile(cache_file))
    for alias, data in PAIRINGS.items():
        first.load_pairing(alias, clone(data))
    expected_pairings = pairing_view(first)
    assert expected_pairings["legacy"]["Connection"] == "IP"
    first.save_data(str(pairing_file))

    rng = random.Random(20)
    databases = [json.loads(pathlib.Path(f).read_text(encoding="utf-8")) for f in FIXTURES]
    databases += [random_accessories(rng) for _ in range(10)]
    assert len(databases) >= 20
    aliases = list(PAIRINGS)
    for n, database in enumerate(databases):
        alias = aliases[n % len(aliases)]
        key = bytes(rng.randrange(256) for _ in range(32)) if n % 3 else None
        state_num = rng.randint(1, 65535) if n % 2 else None
        pairing = first.aliases[alias]
        pairing.restore_accessories_state(clone(database), n + 1, key, state_num)
        # acknowledged == durable: a new process started right now sees it
        expected = state_view(pairing)
        assert expected[0] == entity_map(Accessories.from_list(database))

        second = restart(zc, pairing_file, cache_file)
        assert pairing_view(second) == expected_pairings, "pairing data changed across restart"
        assert list(second.aliases) == list(first.aliases)
        for a in aliases:
            assert type(second.aliases[a]) is type(first.aliases[a])
            assert state_view(second.aliases[a]) == state_view(first.aliases[a]), (n, a)
        assert state_view(second.aliases[alias]) == expected
        assert second.aliases[alias].id == PAIRINGS[alias]["AccessoryPairingID"]
        assert PAIRINGS[alias]["AccessoryPairingID"].lower() in second.pairings

        # A save from the restarted process does not alter anything either
        second.save_data(str(pairing_file))
        third = restart(zc, pairing_file, cache_file)
        assert pairing_view(third) == expected_pairings
        assert state_view(third.aliases[alias]) == expected

    # Deleting a map is durable as well
    victim = first.aliases[aliases[0]]
    first._char_cache.async_delete_map(victim.id)
    after = restart(zc, pairing_file, cache_file)
    assert after.aliases[aliases[0]].accessories is None
    assert state_view(after.aliases[aliases[1]]) == state_view(first.aliases[aliases[1]])
    print(f"  round trip: {len(PAIRINGS)} pairings x {len(databases)} accessory databases ok")


async def scenario_pairing_file_crashes(zc, tmp: pathlib.Path) -> None:
    """A crash at every point of save_data never loses the saved pairings."""
    root = tmp / "crash-pairing"
    pairing_file = root / "pairing.json"
    cache_file = root / "charmap.json"
    old = {k: PAIRINGS[k] for k in list(PAIRINGS)[:2]}
    new = dict(PAIRINGS)

    def reset() -> None:
        shutil.rmtree(root, ignore_errors=True)
        root.mkdir(parents=True)
        seed = make_controller(zc, CharacteristicCacheFile(cache_file))
        for alias, data in old.items():
            seed.load_pairing(alias, clone(data))
        seed.save_data(str(pairing_file))

    def action() -> None:
        controller = restart(zc, pairing_file, cache_file)
        for alias, data in new.items():
            if alias not in controller.aliases:
                controller.load_pairing(alias, clone(data))
        controller.save_data(str(pairing_file))

    reset()
    old_view = pairing_view(restart(zc, pairing_file, cache_file))
    total = crash_points(action, root, reset)
    new_view = pairing_view(restart(zc, pairing_file, cache_file))
    assert old_view != new_view and len(new_view) == len(PAIRINGS)
    assert total > 20

    outcomes = {"old": 0, "new": 0}
    for target in range(total + 1):
        reset()
        plan = Plan(target)
        try:
            with faults(plan, root):
                action()
        except Crash:
            pass
        else:
            assert target == total, "the crash point was never reached"
        # the next process start
        survivor = pairing_view(restart(zc, pairing_file, cache_file))
        if survivor == old_view:
            outcomes["old"] += 1
        elif survivor == new_view:
            outcomes["new"] += 1
        else:
            raise AssertionError(f"pairing data destroyed by a crash at {plan.log[-1]!r}: {survivor}")
        if target == total:
            assert survivor == new_view
    assert outcomes["old"] and outcomes["new"]

    # An I/O error (disk full) instead of a crash: same guarantee, same process goes on
    for target in range(0, total, 37):
        reset()
        controller = restart(zc, pairing_file, cache_file)
        for alias, data in new.items():
            if alias not in controller.aliases:
                controller.load_pairing(alias, clone(data))
        try:
            with faults(Plan(target, OSError(errno.ENOSPC, "No space left on device")), root):
                controller.save_data(str(pairing_file))
        except OSError:
            pass
        assert pairing_view(restart(zc, pairing_file, cache_file)) in (old_view, new_view)
        controller.save_data(str(pairing_file))  # retry succeeds
        assert pairing_view(restart(zc, pairing_file, cache_file)) == new_view
    print(f"  pairing file: {total + 1} crash points, outcomes {outcomes}")


async def scenario_cache_crashes(zc, tmp: pathlib.Path) -> None:
    """A crash at every point of a cache save: start-up works, cache is old, new or empty."""
    root = tmp / "crash-cache"
    pairing_file = root / "pairing.json"
    cache_file = root / "charmap.json"
    rng = random.Random(7)
    db_old = random_accessories(rng)
    db_new = random_accessories(rng)
    alias = list(PAIRINGS)[1]

    def reset() -> None:
        shutil.rmtree(root, ignore_errors=True)
        root.mkdir(parents=True)
        seed = make_controller(zc, CharacteristicCacheFile(cache_file))
        for a, data in PAIRINGS.items():
            seed.load_pairing(a, clone(data))
        seed.save_data(str(pairing_file))
        seed.aliases[alias].restore_accessories_state(clone(db_old), 3, b"\x01" * 32, 10)

    def action() -> None:
        controller = restart(zc, pairing_file, cache_file)
        controller.aliases[alias].restore_accessories_state(clone(db_new), 4, b"\x02" * 32, 11)

    reset()
    old_state = state_view(restart(zc, pairing_file, cache_file).aliases[alias])
    total = crash_points(action, root, reset)
    new_state = state_view(restart(zc, pairing_file, cache_file).aliases[alias])
    assert old_state is not None and new_state is not None and old_state != new_state
    all_pairings = pairing_view(restart(zc, pairing_file, cache_file))

    outcomes = {"old": 0, "new": 0, "empty": 0}
    for target in range(total + 1):
        reset()
        plan = Plan(target)
        try:
            with faults(plan, root):
                action()
        except Crash:
            pass
        else:
            assert target == total
        survivor = restart(zc, pairing_file, cache_file)  # must not raise
        assert pairing_view(survivor) == all_pairings
        state = state_view(survivor.aliases[alias])
        if state is None:
            outcomes["empty"] += 1
        elif state == old_state:
            outcomes["old"] += 1
        elif state == new_state:
            outcomes["new"] += 1
        else:
            raise AssertionError(f"cache neither old, new nor empty after crash at {plan.log[-1]!r}")
        if target == total:
            assert state == new_state
        # The restarted process can populate the cache again, durably
        survivor.aliases[alias].restore_accessories_state(clone(db_new), 4, b"\x02" * 32, 11)
        assert state_view(restart(zc, pairing_file, cache_file).aliases[alias]) == new_state
    assert outcomes["new"]

    # An I/O error in the middle of a cache save, the same process carries on and
    # repeats the very same update: once that is acknowledged it must be on disk.
    for target in range(0, total, 53):
        reset()
        controller = restart(zc, pairing_file, cache_file)
        pairing = controller.aliases[alias]
        try:
            with faults(Plan(target, OSError(errno.ENOSPC, "No space left on device")), root):
                pairing.restore_accessories_state(clone(db_new), 4, b"\x02" * 32, 11)
        except OSError:
            pass
        pairing.restore_accessories_state(clone(db_new), 4, b"\x02" * 32, 11)
        assert state_view(restart(zc, pairing_file, cache_file).aliases[alias]) == new_state
    print(f"  cache file: {total + 1} crash points, outcomes {outcomes}")


async def scenario_cache_prefixes_and_corruption(zc, tmp: pathlib.Path) -> None:
    """Every prefix of a valid cache and unparsable corruptions load as an empty cache."""
    root = tmp / "corrupt"
    root.mkdir()
    pairing_file = root / "pairing.json"
    cache_file = root / "charmap.json"
    seed = make_controller(zc, CharacteristicCacheFile(cache_file))
    for a, data in PAIRINGS.items():
        seed.load_pairing(a, clone(data))
    seed.save_data(str(pairing_file))
    rng = random.Random(11)
    aliases = list(PAIRINGS)
    seed.aliases[aliases[0]].restore_accessories_state(random_accessories(rng), 2, b"\x05" * 32, 77)
    seed.aliases[aliases[3]].restore_accessories_state(random_accessories(rng), 9, None, None)
    valid = cache_file.read_bytes()
    assert any(b > 0x7F for b in valid), "want multi-byte characters in the cache file"
    full = {a: state_view(p) for a, p in restart(zc, pairing_file, cache_file).aliases.items()}
    assert full[aliases[0]] is not None and full[aliases[3]] is not None
    expected_pairings = pairing_view(seed)

    def check_empty(content: bytes, label: str) -> None:
        cache_file.write_bytes(content)
        cache = CharacteristicCacheFile(cache_file)  # must not raise
        assert cache.storage_data == {}, label
        controller = make_controller(zc, cache)
        controller.load_data(str(pairing_file))  # start-up does not fail
        assert pairing_view(controller) == expected_pairings
        assert all(p.accessories is None for p in controller.aliases.values()), label

    step = max(1, len(valid) // 400)
    lengths = set(range(0, len(valid), step)) | set(range(0, 64)) | set(range(len(valid) - 64, len(valid)))
    # every cut inside a multi-byte character
    lengths |= {i for i in range(1, len(valid)) if valid[i] & 0xC0 == 0x80}
    for length in sorted(lengths):
        check_empty(valid[:length], f"prefix {length}")

    corruptions = {
        "invalid utf-8": valid[:40] + b"\xff\xfe" + valid[40:],
        "nul bytes": b"\x00" * len(valid),
        "structural": b"[" + valid[1:],
        "trailing garbage": valid + b"}{",
        "dropped quote": valid.replace(b'"', b"", 1),
        "raw newline in string": valid.replace(b'"pairings"', b'"pair\nings"', 1),
        "raw cr in string": valid.replace(b'"pairings"', b'"pair\rings"', 1),
        "bom + cut": b"\xef\xbb\xbf" + valid[:-1],
        "not json": "äöü not json at all".encode(),
    }
    for label, content in corruptions.items():
        check_empty(content, label)

    # After a corrupted cache the next update rewrites a good one
    cache_file.write_bytes(valid[: len(valid) // 2])
    controller = restart(zc, pairing_file, cache_file)
    db = random_accessories(rng)
    controller.aliases[aliases[2]].restore_accessories_state(clone(db), 5, b"\x07" * 32, 1)
    again = restart(zc, pairing_file, cache_file)
    assert state_view(again.aliases[aliases[2]]) == state_view(controller.aliases[aliases[2]])
    assert again.aliases[aliases[0]].accessories is None

    # The intact file still loads completely; a missing one is an empty cache
    cache_file.write_bytes(valid)
    assert {a: state_view(p) for a, p in restart(zc, pairing_file, cache_file).aliases.items()} == full
    cache_file.unlink()
    assert CharacteristicCacheFile(cache_file).storage_data == {}

    # The pairing file itself: unparsable is reported, missing is an empty controller
    good = pairing_file.read_bytes()
    pairing_file.write_bytes(good[: len(good) // 2])
    try:
        restart(zc, pairing_file, cache_file)
    except ConfigLoadingError:
        pass
    else:
        raise AssertionError("half a pairing file was accepted")
    pairing_file.unlink()
    assert restart(zc, pairing_file, cache_file).aliases == {}
    print(f"  corruption: {len(lengths)} prefixes and {len(corruptions)} corruptions load as empty cache")


async def scenario_interleaved_updates(zc, tmp: pathlib.Path) -> None:
    """Updates from concurrently running tasks; each is durable when acknowledged."""
    root = tmp / "interleaved"
    root.mkdir()
    pairing_file = root / "pairing.json"
    cache_file = root / "charmap.json"
    controller = make_controller(zc, CharacteristicCacheFile(cache_file))
    for a, data in PAIRINGS.items():
        controller.load_pairing(a, clone(data))
    controller.save_data(str(pairing_file))
    checks = 0

    async def worker(alias: str, seed: int) -> None:
        nonlocal checks
        rng = random.Random(seed)
        pairing = controller.aliases[alias]
        db = random_accessories(rng)
        for round_ in range(6):
            if round_ % 2 == 0:
                db = random_accessories(rng)  # odd rounds repeat the identical update
            pairing.restore_accessories_state(clone(db), round_ // 2 + 1, bytes([seed]) * 32, round_ // 2)
            # No await between the acknowledgement and the "power cut"
            reborn = restart(zc, pairing_file, cache_file)
            assert state_view(reborn.aliases[alias]) == state_view(pairing), (alias, round_)
            # ... and everything the other tasks had acknowledged so far
            assert reborn._char_cache.storage_data == clone(controller._char_cache.storage_data)
            checks += 1
            for _ in range(rng.randint(0, 3)):
                await asyncio.sleep(0)
            if round_ == 3:
                await asyncio.sleep(0.01)
                controller._char_cache.async_delete_map(pairing.id)
                assert restart(zc, pairing_file, cache_file).aliases[alias].accessories is None

    await asyncio.gather(*(worker(alias, n + 1) for n, alias in enumerate(PAIRINGS)))
    # Let anything that might have been deferred to the loop run, then look again
    for _ in range(5):
        await asyncio.sleep(0)
    await asyncio.sleep(0.05)
    reborn = restart(zc, pairing_file, cache_file)
    for alias, p in controller.aliases.items():
        assert state_view(reborn.aliases[alias]) == state_view(p)
        assert state_view(p) is not None
    leftovers = sorted(f.name for f in root.iterdir())
    assert "pairing.json" in leftovers and "charmap.json" in leftovers
    print(f"  interleaved: {checks} acknowledged updates checked from {len(PAIRINGS)} tasks")


async def main() -> None:
    print("aiohomekit from", aiohomekit.__file__)
    zc = AsyncZeroconf(interfaces=["127.0.0.1"])
    tmp = pathlib.Path(tempfile.mkdtemp(prefix="demo_k20b_"))
    try:
        await scenario_round_trip(zc, tmp)
        await scenario_pairing_file_crashes(zc, tmp)
        await scenario_cache_crashes(zc, tmp)
        await scenario_cache_prefixes_and_corruption(zc, tmp)
        await scenario_interleaved_updates(zc, tmp)
    finally:
        await zc.async_close()
        shutil.rmtree(tmp, ignore_errors=True)
    print("demo_k20b: all scenarios passed")


def test_demo_k20b() -> None:
    asyncio.run(main())


if __name__ == "__main__":
    asyncio.run(main())
    sys.exit(0)
