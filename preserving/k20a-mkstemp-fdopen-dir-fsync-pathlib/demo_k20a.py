"""
Demonstration for change k20a (property C20: saved pairings and the accessory
cache survive a restart and interrupted saves).

Everything here is real: a real asyncio event loop, a real AsyncZeroconf bound to
the loopback interface with a real AsyncServiceBrowser, the real IP / CoAP / BLE
transport controllers (bleak's scanner fails to find BlueZ and is skipped by the
library itself), real files in a real temporary directory and real processes.

A "crash" is a real process death: the save runs in a fork()ed child that is
killed (os._exit, or SIGXFSZ from the kernel via RLIMIT_FSIZE) at a chosen point,
and the parent then "restarts" - builds a fresh cache and a fresh Controller and
loads the files the child left behind.  The fault injector wraps *every* file
primitive either implementation could use (builtins.open / io.open and the file
objects they return, os.open/close/write/fsync/replace/rename/unlink/mkdir...),
so it does not depend on how the library writes its files.

Run:  PYTHONPATH=/tmp/wt/k20a /venv/bin/python demo_k20a.py
 or:  PYTHONPATH=/tmp/wt/k20a /venv/bin/python -m pytest -q -p no:cacheprovider demo_k20a.py
"""

from __future__ import annotations

import os

os.environ.setdefault("AIOHOMEKIT_TRANSPORT_BLE", "1")

import asyncio  # noqa: E402
import builtins  # noqa: E402
import copy  # noqa: E402
import errno  # noqa: E402
import io  # noqa: E402
import json  # noqa: E402
import logging  # noqa: E402
import pathlib  # noqa: E402
import resource  # noqa: E402
import shutil  # noqa: E402
import signal  # noqa: E402
import tempfile  # noqa: E402
import time  # noqa: E402

from zeroconf.asyncio import AsyncServiceBrowser, AsyncZeroconf  # noqa: E402

import aiohomekit  # noqa: E402
from aiohomekit import Controller, hkjson  # noqa: E402
from aiohomekit.characteristic_cache import CharacteristicCacheFile  # noqa: E402
from aiohomekit.model import Accessories  # noqa: E402
from aiohomekit.zeroconf import ZeroconfServiceListener  # noqa: E402

HERE = pathlib.Path(__file__).resolve().parent
FIXTURES = HERE / "tests" / "fixtures"

logging.getLogger("asyncio").setLevel(logging.CRITICAL)  # "Skipped pairing" noise

# --------------------------------------------------------------------------
# data
# --------------------------------------------------------------------------


def _hex(seed: int, n: int = 32) -> str:
    return bytes((seed * 31 + i * 7) % 256 for i in range(n)).hex()


def pairing_sets() -> tuple[dict, dict]:
    """OLD and NEW sets of pairings: all transports, unicode aliases, optional fields."""
    ip = {
        "AccessoryPairingID": "12:34:56:00:01:0A",
        "AccessoryLTPK": _hex(1),
        "iOSPairingId": "decc6fa3-de3e-41c9-adba-ef7409821bfc",
        "iOSDeviceLTSK": _hex(2),
        "iOSDeviceLTPK": _hex(3),
        "AccessoryIP": "127.0.0.1",
        "AccessoryIPs": ["127.0.0.1", "::1"],
        "AccessoryPort": 51842,
        "Connection": "IP",
    }
    ip_legacy = {  # no "Connection" and no "AccessoryIPs": optional fields
        "AccessoryPairingID": "AA:BB:CC:00:01:0B",
        "AccessoryLTPK": _hex(4),
        "iOSPairingId": "0e0f6a59-8e8d-4a0e-9d3b-5d6c0e0f6a59",
        "iOSDeviceLTSK": _hex(5),
        "iOSDeviceLTPK": _hex(6),
        "AccessoryIP": "::1",
        "AccessoryPort": 80,
    }
    coap = {
        "AccessoryPairingID": "C0:A9:00:00:00:01",
        "AccessoryLTPK": _hex(7),
        "iOSPairingId": "5b1f1e9c-51cf-4d0c-8a42-0b1c9f6d2a11",
        "iOSDeviceLTSK": _hex(8),
        "iOSDeviceLTPK": _hex(9),
        "AccessoryIP": "fd00::1234",
        "AccessoryPort": 5683,
        "Connection": "CoAP",
    }
    ble = {
        "AccessoryPairingID": "B1:E0:00:00:00:02",
        "AccessoryLTPK": _hex(10),
        "iOSPairingId": "f3a9f1b4-3c1e-4e0a-8d0e-1a2b3c4d5e6f",
        "iOSDeviceLTSK": _hex(11),
        "iOSDeviceLTPK": _hex(12),
        "AccessoryAddress": "AA:BB:CC:DD:EE:FF",
        "Connection": "BLE",
    }
    old = {
        "alias": ip,
        "Wohnzimmer-Lämpchen éè 東京 \U0001f4a1": ip_legacy,
        "thread ☃": coap,
    }
    new = copy.deepcopy(old)
    new["ble Жук \"quoted\" \\ back"] = ble
    new["alias"]["AccessoryIP"] = "127.0.0.2"
    new["alias"]["AccessoryIPs"] = ["127.0.0.2"]
    new["alias"]["AccessoryPort"] = 65535
    del new["thread ☃"]
    new["thread ☃ v2"] = dict(coap, AccessoryPairingID="C0:A9:00:00:00:03", AccessoryPort=1)
    return old, new


SYNTHETIC = [
    {
        "aid": 1,
        "services": [
            {
                "iid": 1,
                "type": "0000003E-0000-1000-8000-0026BB765291",
                "primary": False,
                "hidden": False,
                "linked": [],
                "characteristics": [
                    {"iid": 2, "type": "23", "perms": ["pr"], "format": "string", "value": "Küche 東京 \U0001f4a1", "maxLen": 64},
                    {"iid": 3, "type": "20", "perms": ["pr"], "format": "string", "value": "Über GmbH"},
                    {"iid": 4, "type": "21", "perms": ["pr"], "format": "string", "value": "Mödel"},
                    {"iid": 5, "type": "30", "perms": ["pr"], "format": "string", "value": "№ 1"},
                    {"iid": 6, "type": "14", "perms": ["pw"], "format": "bool"},
                    {"iid": 7, "type": "52", "perms": ["pr"], "format": "string", "value": "1.0"},
                ],
            },
            {
                "iid": 10,
                "type": "00000043-0000-1000-8000-0026BB765291",
                "primary": True,
                "hidden": False,
                "linked": [20],
                "characteristics": [
                    {"iid": 11, "type": "25", "perms": ["pr", "pw", "ev"], "format": "bool", "value": True},
                    {
                        "iid": 12,
                        "type": "8",
                        "perms": ["pr", "pw", "ev"],
                        "format": "int",
                        "value": 42,
                        "minValue": 0,
                        "maxValue": 100,
                        "minStep": 1,
                        "unit": "percentage",
                    },
                    {
                        "iid": 13,
                        "type": "13",
                        "perms": ["pr", "pw", "ev", "tw", "aa", "hd"],
                        "format": "float",
                        "value": 12.5,
                        "minValue": 0.0,
                        "maxValue": 360.0,
                        "minStep": 0.5,
                        "unit": "arcdegrees",
                        "description": "Faßbrause",
                    },
                    {
                        "iid": 14,
                        "type": "CE",
                        "perms": ["pr", "ev"],
                        "format": "uint8",
                        "value": 1,
                        "valid-values": [0, 1, 3],
                        "valid-values-range": [0, 3],
                    },
                ],
            },
            {
                "iid": 20,
                "type": "00000040-0000-1000-8000-0026BB765291",
                "primary": False,
                "hidden": True,
                "linked": [],
                "characteristics": [
                    {"iid": 21, "type": "B0", "perms": ["pr", "pw", "ev"], "format": "uint8", "value": 0, "minValue": 0, "maxValue": 1},
                    {"iid": 22, "type": "00000143-0000-1000-8000-0026BB765291", "perms": ["pr"], "format": "tlv8", "value": "AQEA"},
                    {"iid": 23, "type": "E863F10A-079E-48FF-8F27-9C2605A29F52", "perms": ["pr"], "format": "data", "value": "3q2+7w=="},
                ],
            },
        ],
    }
]


def accessory_databases() -> list[tuple[str, list]]:
    out = [("synthetic-unicode", SYNTHETIC)]
    for path in sorted(FIXTURES.glob("*.json")):
        out.append((path.name, json.loads(path.read_text(encoding="utf-8"))))
    return out


# --------------------------------------------------------------------------
# fault injector (installed only inside fork()ed children)
# --------------------------------------------------------------------------

REAL_EXIT = os._exit
CRASH_CODE = 77


def prefix_points(length: int, dense: int, budget: int) -> list[int]:
    """Which strict prefixes 0 < n < length of one write are crash points."""
    if length <= 2 * dense + budget:
        return list(range(1, length))
    step = max(1, (length - 2 * dense) // budget)
    pts = set(range(1, dense + 1)) | set(range(length - dense, length)) | set(range(dense, length - dense, step))
    return sorted(p for p in pts if 0 < p < length)


class Injector:
    def __init__(self, mode: str, target: int = -1, err: int = 0, dense: int = 10**9, budget: int = 0) -> None:
        self.mode = mode  # record | crash | error
        self.target = target
        self.err = err
        self.dense = dense
        self.budget = budget
        self.count = 0
        self.labels: list[list] = []

    def hit(self, label: tuple) -> bool:
        i = self.count
        self.count += 1
        if self.mode == "record":
            self.labels.append(list(label))
            return False
        return i == self.target

    def point(self, label: tuple) -> bool:
        if self.hit(label):
            if self.mode == "crash":
                REAL_EXIT(CRASH_CODE)
            return True
        return False

    def fail(self, what: str):
        return OSError(self.err, os.strerror(self.err), f"<injected at {what}>")

    def wrap(self, name: str, real, post=None):
        def wrapper(*a, **kw):
            if self.point(("before", name)):
                raise self.fail(name)
            result = real(*a, **kw)
            if post is not None:
                result = post(result, a, kw)
            self.point(("after", name))
            return result

        return wrapper

    def install(self) -> None:
        def proxy_if_writing(fobj, a, kw):
            mode = kw.get("mode", a[1] if len(a) > 1 else "r")
            if any(c in mode for c in "wax+"):
                return FileProxy(self, fobj)
            return fobj

        opener = self.wrap("open", io.open, proxy_if_writing)
        builtins.open = opener
        io.open = opener
        for name in ("open", "close", "write", "fsync", "fdatasync", "replace", "rename", "unlink",
                     "remove", "mkdir", "truncate", "ftruncate", "link", "symlink", "rmdir"):  # fmt: skip
            setattr(os, name, self.wrap(f"os.{name}", getattr(os, name)))


class FileProxy:
    """Wraps a real file object so that its write/flush/close become crash points."""

    def __init__(self, inj: Injector, real) -> None:
        self._inj = inj
        self._real = real
        self.flush = inj.wrap("fp.flush", real.flush)
        self._close = inj.wrap("fp.close", real.close)

    def write(self, data):
        inj, real = self._inj, self._real
        length = len(data)
        if inj.hit(("before", "fp.write", length)):
            if inj.mode == "crash":
                REAL_EXIT(CRASH_CODE)
            real.write(data[: length // 2])  # short write, then the error
            real.flush()
            raise inj.fail("fp.write")
        for n in prefix_points(length, inj.dense, inj.budget):
            if inj.hit(("prefix", "fp.write", n)) and inj.mode == "crash":
                real.write(data[:n])
                real.flush()
                REAL_EXIT(CRASH_CODE)
        result = real.write(data)
        inj.point(("after", "fp.write"))
        return result

    def close(self):
        return self._close()

    def __enter__(self):
        return self

    def __exit__(self, *exc):
        self.close()

    def __getattr__(self, name):
        return getattr(self._real, name)


def run_child(fn, inj: Injector | None = None, fsize: int | None = None, ignore_xfsz: bool = False):
    """Run fn() in a forked child under the injector / a kernel file size limit.

    With fsize the kernel refuses to let any file grow beyond fsize bytes: the write
    that crosses the limit is cut short and the next one kills the process with
    SIGXFSZ (or, with ignore_xfsz - CPython's default disposition - fails with EFBIG).

    Returns (kind, value, info): kind is "exit" or "signal".
    """
    rfd, wfd = os.pipe()
    pid = os.fork()
    if pid == 0:
        code = 5
        try:
            os.close(rfd)
            real_write = os.write
            if fsize is not None:
                signal.signal(signal.SIGXFSZ, signal.SIG_IGN if ignore_xfsz else signal.SIG_DFL)
                resource.setrlimit(resource.RLIMIT_CORE, (0, 0))
                resource.setrlimit(resource.RLIMIT_FSIZE, (fsize, fsize))
            if inj is not None:
                inj.install()
            try:
                fn()
                code = 0
            except Exception as exc:  # noqa: BLE001 - a failed save is a legal outcome
                code = 3
                real_write(wfd, json.dumps({"exc": repr(exc)}).encode() + b"\n")
            if inj is not None and inj.mode == "record":
                real_write(wfd, json.dumps({"labels": inj.labels}).encode() + b"\n")
        finally:
            REAL_EXIT(code)
    os.close(wfd)
    chunks = []
    while chunk := os.read(rfd, 1 << 16):
        chunks.append(chunk)
    os.close(rfd)
    _, status = os.waitpid(pid, 0)
    info = {}
    for line in b"".join(chunks).splitlines():
        info.update(json.loads(line))
    if os.WIFSIGNALED(status):
        return "signal", os.WTERMSIG(status), info
    return "exit", os.WEXITSTATUS(status), info


# --------------------------------------------------------------------------
# "restart": everything is rebuilt from what is on disk
# --------------------------------------------------------------------------


class World:
    def __init__(self, zc: AsyncZeroconf, root: pathlib.Path) -> None:
        self.zc = zc
        self.root = root
        self.pairing_file = root / "conf" / "pairing.json"
        self.cache_file = root / "conf" / "charmap.json"
        self.forks = 0

    def reset(self, pairing_bytes: bytes | None, cache_bytes: bytes | None = None) -> None:
        shutil.rmtree(self.root / "conf", ignore_errors=True)
        (self.root / "conf").mkdir(parents=True)
        if pairing_bytes is not None:
            self.pairing_file.write_bytes(pairing_bytes)
        if cache_bytes is not None:
            self.cache_file.write_bytes(cache_bytes)

    def controller(self) -> Controller:
        # this is what aiohomekit.__main__.get_controller does
        return Controller(async_zeroconf_instance=self.zc, char_cache=CharacteristicCacheFile(self.cache_file))

    async def restart(self, filename=None) -> tuple[dict, dict]:
        """A fresh process image: new cache object, new controller, load from disk."""
        controller = self.controller()
        async with controller:
            controller.load_data(filename if filename is not None else str(self.pairing_file))
            assert len(controller.transports) == 3  # started: IP, CoAP and BLE
            pairings = {alias: copy.deepcopy(p.pairing_data) for alias, p in controller.aliases.items()}
            state = {}
            for alias, p in controller.aliases.items():
                assert controller.pairings[p.id.lower()] is p
                state[alias] = (
                    p.accessories.serialize() if p.accessories is not None else None,
                    p.config_num,
                    p.state_num,
                    p.broadcast_key,
                )
        return pairings, state

    async def controller_with(self, pairings: dict):
        controller = self.controller()
        await controller.async_start()
        for alias, data in pairings.items():
            controller.load_pairing(alias, copy.deepcopy(data))
        return controller


def with_connection(pairings: dict) -> dict:
    """What the controller holds (and therefore saves) for a set of pairings."""
    out = copy.deepcopy(pairings)
    for data in out.values():
        data.setdefault("Connection", "IP")
    return out


# --------------------------------------------------------------------------
# scenarios
# --------------------------------------------------------------------------


async def scenario_roundtrip_pairings(w: World) -> None:
    old, new = pairing_sets()
    for label, pairings in (("old", old), ("new", new), ("empty", {})):
        # str file name, pathlib file name, and a directory that does not exist yet
        for filename in (str(w.pairing_file), w.pairing_file, str(w.root / "conf" / "a" / "b" / "p.json")):
            w.reset(None)
            controller = await w.controller_with(pairings)
            held = {alias: copy.deepcopy(p.pairing_data) for alias, p in controller.aliases.items()}
            assert held == with_connection(pairings)
            controller.save_data(filename)
            await controller.async_stop()
            # the file is one complete JSON document holding exactly the pairing data
            on_disk = json.loads(pathlib.Path(filename).read_bytes().decode("utf-8"))
            assert on_disk == held, label
            assert list(on_disk) == list(held), "alias order"
            got, _ = await w.restart(filename)
            assert got == held, label
            # ... and saving what was loaded gives the same document again (idempotent)
            controller = await w.controller_with(got)
            controller.save_data(filename)
            await controller.async_stop()
            assert json.loads(pathlib.Path(filename).read_bytes().decode("utf-8")) == held
            # only the pairing file (and no temp litter) is left next to it after clean saves
            assert sorted(p.name for p in pathlib.Path(filename).parent.iterdir() if p.is_file()) == [
                pathlib.Path(filename).name
            ]
    # a missing pairing file is an empty controller, not an error
    w.reset(None)
    assert (await w.restart())[0] == {}
    print("  pairing round trip (3 sets x 3 file name forms): ok")


async def saved_bytes(w: World, pairings: dict) -> bytes:
    w.reset(None)
    controller = await w.controller_with(pairings)
    controller.save_data(str(w.pairing_file))
    await controller.async_stop()
    return w.pairing_file.read_bytes()


async def check_after_fault(w: World, outcomes: list[dict], what: str) -> dict:
    """After a crashed / failed save: restart reads one of the allowed states, and a retry works."""
    got, _ = await w.restart()
    assert got in outcomes, f"{what}: pairing data destroyed: {sorted(got)}"
    return got


async def scenario_interrupted_pairing_save(w: World) -> None:
    old, new = pairing_sets()
    old_held, new_held = with_connection(old), with_connection(new)
    old_bytes = await saved_bytes(w, old)
    new_bytes = await saved_bytes(w, new)
    print(f"  pairing file: old {len(old_bytes)} bytes, new {len(new_bytes)} bytes")

    for first_save in (False, True):
        before = None if first_save else old_bytes
        before_held = {} if first_save else old_held
        tag = "first save" if first_save else "overwrite"

        w.reset(before)
        saver = await w.controller_with(new)
        save = lambda: saver.save_data(str(w.pairing_file))  # noqa: E731

        # 0. which file operations does a save perform?  (recorded in a child, complete save)
        kind, code, info = run_child(save, Injector("record"))
        assert (kind, code) == ("exit", 0), (kind, code, info)
        labels = info["labels"]
        assert (await w.restart())[0] == new_held
        ops = [tuple(lab) for lab in labels if lab[0] == "before"]
        print(f"  [{tag}] operations of one save: {' '.join(o[1] for o in ops)}")

        # 1. crash (real process death) at every point: before/after every operation
        #    and after every prefix of every write
        seen = {"old": 0, "new": 0}
        for k, lab in enumerate(labels):
            w.reset(before)
            kind, code, info = run_child(save, Injector("crash", k))
            w.forks += 1
            assert (kind, code) == ("exit", CRASH_CODE), (k, lab, kind, code, info)
            got = await check_after_fault(w, [before_held, new_held], f"crash at {k} {lab}")
            seen["new" if got == new_held else "old"] += 1
            if k % 97 == 0 or lab[0] != "prefix":
                # a later save in a fresh process still works in whatever the crash left behind
                kind, code, info = run_child(save)
                assert (kind, code) == ("exit", 0), (k, lab, kind, code, info)
                assert (await w.restart())[0] == new_held
        assert seen["old"] > 0 and seen["new"] > 0, seen
        print(f"  [{tag}] crash at each of {len(labels)} points: previous data survived {seen['old']}x, new data complete {seen['new']}x")

        # 2. the kernel cuts the write short at every byte and kills the process (SIGXFSZ)
        for limit in range(0, len(new_bytes) + 2):
            w.reset(before)
            kind, code, info = run_child(save, fsize=limit)
            w.forks += 1
            if limit < len(new_bytes):
                assert (kind, code) == ("signal", signal.SIGXFSZ), (limit, kind, code)
                got = await check_after_fault(w, [before_held], f"SIGXFSZ at {limit}")
            else:
                assert (kind, code) == ("exit", 0), (limit, kind, code, info)
                assert (await w.restart())[0] == new_held
        print(f"  [{tag}] killed by the kernel after each of {len(new_bytes)} byte prefixes: previous data survived")

        # 3. I/O errors instead of crashes: the same limit with SIGXFSZ ignored gives a real
        #    short write followed by EFBIG ...
        for limit in list(range(0, len(new_bytes), 37)) + [len(new_bytes) - 1]:
            w.reset(before)
            kind, code, info = run_child(save, fsize=limit, ignore_xfsz=True)
            w.forks += 1
            assert (kind, code) == ("exit", 3), (limit, kind, code, info)
            assert "Errno 27" in info["exc"] or "File too large" in info["exc"], info
            await check_after_fault(w, [before_held], f"EFBIG at {limit}")
            kind, code, info = run_child(save)
            assert (kind, code) == ("exit", 0)
            assert (await w.restart())[0] == new_held
        # ... and injected ENOSPC (with a short write) / EIO / EACCES / EXDEV / ENOENT at every operation
        raised = 0
        n_err = 0
        for k, lab in enumerate(labels):
            if lab[0] != "before":
                continue
            for err in (errno.ENOSPC, errno.EIO, errno.EACCES, errno.EXDEV, errno.ENOENT):
                w.reset(before)
                kind, code, info = run_child(save, Injector("error", k, err))
                w.forks += 1
                n_err += 1
                assert kind == "exit" and code in (0, 3), (k, lab, err, kind, code, info)
                raised += code == 3
                got = await check_after_fault(w, [before_held, new_held], f"{errno.errorcode[err]} at {k} {lab}")
                if code == 0:
                    pass  # the error hit a best-effort step; whatever is on disk is complete
                elif err in (errno.EACCES, errno.ENOENT) and "os.mkdir" not in lab[1]:
                    assert "ConfigSavingError" in info["exc"], (lab, info)
                kind, code, info = run_child(save)
                assert (kind, code) == ("exit", 0), (k, lab, kind, code, info)
                assert (await w.restart())[0] == new_held
        print(f"  [{tag}] {n_err} injected I/O errors ({raised} reported to the caller): data never destroyed, retry works")
        await saver.async_stop()


async def build_cache(w: World, databases: list[tuple[str, list]], pairings: dict) -> tuple[dict, dict]:
    """Give every pairing accessory databases through the library's own write-through path."""
    w.reset(None)
    controller = await w.controller_with(pairings)
    controller.save_data(str(w.pairing_file))
    expected = {}
    aliases = list(controller.aliases)
    for i, (name, accessories) in enumerate(databases):
        alias = aliases[i % len(aliases)]
        pairing = controller.aliases[alias]
        is_ble = pairing.pairing_data["Connection"] == "BLE"
        pairing.restore_accessories_state(
            copy.deepcopy(accessories),
            config_num=i + 1,
            broadcast_key=bytes(range(i, i + 32)) if is_ble else None,
            state_num=(1000 + i) if is_ble else None,
        )
        # What the library hands to the cache is pairing.accessories.serialize(); a restart
        # must rebuild exactly what the model makes of that document - here without any disk.
        # (Independently of this demo, the model's serialize() drops an empty "description"
        # and from_list() then substitutes the type's default one, e.g. in vocolinc_flowerbud;
        # that is the model's business and the same with and without the change.)
        written = pairing.accessories.serialize()
        on_disk = json.loads(w.cache_file.read_bytes().decode("utf-8"))["pairings"][pairing.id]
        assert on_disk == {
            "config_num": i + 1,
            "accessories": written,
            "broadcast_key": pairing.broadcast_key.hex() if is_ble else None,
            "state_num": pairing.state_num,
        }, name
        expected[alias] = (
            Accessories.from_list(copy.deepcopy(written)).serialize(),
            i + 1,
            pairing.state_num,
            pairing.broadcast_key,
        )
        # the write-through already happened: a restart right now sees exactly this
        if i % 4 == 0 or i == len(databases) - 1:
            _, state = await w.restart()
            for a, exp in expected.items():
                assert state[a] == exp, (name, a)
    held = {alias: copy.deepcopy(p.pairing_data) for alias, p in controller.aliases.items()}
    await controller.async_stop()
    return held, expected


async def scenario_roundtrip_cache(w: World) -> None:
    _, new = pairing_sets()
    databases = accessory_databases()
    # every database, one per pairing at a time (later ones replace earlier ones)
    for start in range(0, len(databases), len(new)):
        chunk = databases[start : start + len(new)]
        held, expected = await build_cache(w, chunk, new)
        pairings, state = await w.restart()
        assert pairings == held
        for alias in held:
            assert state[alias] == expected.get(alias, (None, -1, None, None)), alias
        # against the source documents (types, ids, perms, formats, values, ranges, links)
        by_alias = dict(zip(list(held), chunk))
        for alias, (name, source) in by_alias.items():
            once = Accessories.from_list(copy.deepcopy(source)).serialize()
            assert state[alias][0] == Accessories.from_list(once).serialize(), name
        on_disk = json.loads(w.cache_file.read_bytes().decode("utf-8"))
        assert set(on_disk) == {"pairings"}
        assert set(on_disk["pairings"]) == {held[a]["AccessoryPairingID"] for a in expected}
        # deleting a map is written through too
        cache = CharacteristicCacheFile(w.cache_file)
        victim = held[next(iter(expected))]["AccessoryPairingID"]
        cache.async_delete_map(victim)
        cache.async_delete_map("not:there")
        assert CharacteristicCacheFile(w.cache_file).get_map(victim) is None
        assert len(CharacteristicCacheFile(w.cache_file).storage_data) == len(expected) - 1
    # no cache file / cache file in a directory that does not exist: cold cache, no error
    w.reset(None)
    assert CharacteristicCacheFile(w.cache_file).storage_data == {}
    assert CharacteristicCacheFile(w.root / "nope" / "charmap.json").storage_data == {}
    print(f"  accessory cache round trip ({len(databases)} databases over IP/CoAP/BLE pairings): ok")


def unparsable(raw: bytes) -> bool:
    try:
        hkjson.loads(raw.decode("utf-8"))
    except hkjson.JSON_DECODE_EXCEPTIONS:
        return True
    return False


async def scenario_damaged_cache(w: World) -> None:
    _, new = pairing_sets()
    databases = accessory_databases()
    small = [d for d in databases if d[0] in ("synthetic-unicode", "lennox_e30.json", "idevices_switch.json")]
    held, expected = await build_cache(w, small, new)
    pairing_bytes = w.pairing_file.read_bytes()
    good = w.cache_file.read_bytes()
    assert any(b >= 0x80 for b in good), "cache holds raw UTF-8"
    cold = {alias: (None, -1, None, None) for alias in held}

    async def start_with(raw: bytes, what: str) -> None:
        w.reset(pairing_bytes, raw)
        assert CharacteristicCacheFile(w.cache_file).storage_data == {}, what
        pairings, state = await w.restart()  # start-up does not fail ...
        assert pairings == held, what  # ... the pairings are all there ...
        assert state == cold, what  # ... and the cache is simply cold
        # and the cold cache is usable: the next write-through repairs the file
        cache = CharacteristicCacheFile(w.cache_file)
        cache.async_create_or_update_map("id", 3, small[0][1], None, 4)
        assert CharacteristicCacheFile(w.cache_file).get_map("id") == {
            "config_num": 3,
            "accessories": small[0][1],
            "broadcast_key": None,
            "state_num": 4,
        }, what

    # every kind of prefix: dense at both ends, strided in between, and all cuts inside multi-byte characters
    cuts = set(prefix_points(len(good), 100, 150)) | {0}
    cuts |= {i for i in range(1, len(good)) if good[i] & 0xC0 == 0x80}
    n_mid = 0
    for cut in sorted(cuts):
        raw = good[:cut]
        assert unparsable(raw) or cut == 0, cut
        n_mid += cut > 0 and good[cut] & 0xC0 == 0x80
        await start_with(raw, f"prefix {cut}")
    # the big one (all fixtures), a few prefixes
    held_all, _ = await build_cache(w, databases[:5], new)
    assert held_all == held
    big = w.cache_file.read_bytes()
    for cut in prefix_points(len(big), 2, 6):
        await start_with(big[:cut], f"big prefix {cut}")
    print(f"  truncated cache: {len(cuts)} prefixes of {len(good)} bytes ({n_mid} inside a UTF-8 sequence) + big file {len(big)} bytes: cold cache, start-up fine")

    corruptions = {
        "empty": b"",
        "whitespace": b" \n\t ",
        "nul bytes": b"\x00" * len(good),
        "nul tail": good[: len(good) // 2] + b"\x00" * (len(good) - len(good) // 2),
        "invalid utf-8 byte": good[:40] + b"\xff" + good[40:],
        "utf-16 text": good.decode("utf-8").encode("utf-16"),
        "lone continuation": good[:-2] + b"\x80" + good[-2:],
        "garbage inserted": good[:100] + b"}{]][[\x01" + good[100:],
        "doubled": good + good,
        "tail garbage": good + b"xyz",
        "head garbage": b"\x7fELF" + good,
        "bracket flipped": good[:-1] + b"]",
        "not json": b"<?xml version='1.0'?><plist/>",
        "random bytes": bytes((i * 197 + 13) % 256 for i in range(4096)),
    }
    for what, raw in corruptions.items():
        assert unparsable(raw), what
        await start_with(raw, what)
    print(f"  unparsable cache ({len(corruptions)} corruptions): cold cache, start-up fine")

    # an interrupted *cache* save (crash at every operation, a sample of prefixes) never breaks start-up
    w.reset(pairing_bytes, good)
    controller = await w.controller_with(held)
    alias = next(iter(held))
    pairing = controller.aliases[alias]
    old_state = dict(expected)

    def save_cache():
        pairing.restore_accessories_state(copy.deepcopy(databases[3][1]), 99, None, 7)

    kind, code, info = run_child(save_cache, Injector("record", dense=40, budget=60))
    assert (kind, code) == ("exit", 0), (kind, code, info)
    labels = info["labels"]
    _, state = await w.restart()
    new_state = dict(expected)
    new_state[alias] = state[alias]
    assert state[alias][1:] == (99, 7, None) and state == {**cold, **new_state}
    outcomes = {"old": 0, "new": 0, "cold": 0}
    for k, lab in enumerate(labels):
        w.reset(pairing_bytes, good)
        kind, code, info = run_child(save_cache, Injector("crash", k, dense=40, budget=60))
        w.forks += 1
        assert (kind, code) == ("exit", CRASH_CODE), (k, lab, kind, code, info)
        pairings, state = await w.restart()  # must not raise
        assert pairings == held
        if state == {**cold, **old_state}:
            outcomes["old"] += 1
        elif state == {**cold, **new_state}:
            outcomes["new"] += 1
        else:
            assert state == cold, (k, lab)
            outcomes["cold"] += 1
    for limit in prefix_points(len(good), 20, 60):
        w.reset(pairing_bytes, good)
        kind, code, info = run_child(save_cache, fsize=limit)
        w.forks += 1
        assert (kind, code) == ("signal", signal.SIGXFSZ), (limit, kind, code, info)
        pairings, state = await w.restart()
        assert pairings == held and (state == cold or state == {**cold, **old_state}), limit
    await controller.async_stop()
    print(f"  interrupted cache save, {len(labels)} crash points + kernel-cut writes: start-up never fails {outcomes}")


async def main() -> None:
    assert pathlib.Path(aiohomekit.__file__).resolve().is_relative_to(HERE), aiohomekit.__file__
    t0 = time.monotonic()
    root = pathlib.Path(tempfile.mkdtemp(prefix="demo_k20a_"))
    zc = AsyncZeroconf(interfaces=["127.0.0.1"])
    try:
        async with zc:
            browser = AsyncServiceBrowser(
                zc.zeroconf, ["_hap._tcp.local.", "_hap._udp.local."], listener=ZeroconfServiceListener()
            )
            w = World(zc, root)
            probe = w.controller()
            async with probe:
                print("transports:", sorted(t.value for t in probe.transports))
                assert len(probe.transports) == 3
            print("1. round trip of pairing data")
            await scenario_roundtrip_pairings(w)
            print("2. round trip of the accessory cache")
            await scenario_roundtrip_cache(w)
            print("3. truncated / unparsable / half-written accessory cache")
            await scenario_damaged_cache(w)
            print("4. interrupted save of the pairing file")
            await scenario_interrupted_pairing_save(w)
            await browser.async_cancel()
            print(f"ALL OK  ({w.forks} killed or failed saves, {time.monotonic() - t0:.1f}s)")
    finally:
        shutil.rmtree(root, ignore_errors=True)


def test_demo_k20a() -> None:
    asyncio.run(main())


if __name__ == "__main__":
    asyncio.run(main())
